"""symh5 -- in-memory stand-in for the part of h5py that dclab uses.

Datasets hold either real numpy arrays (concrete payload) or ``SArr`` objects
(symbolic payload / provenance tokens).  Modelled contract: group tree,
attributes, create_dataset (name clash -> ValueError, chunk shape check),
resize along axis 0 (new rows are UNSET), slicing reads/writes with numpy
semantics, fixed-width byte strings truncate on assignment, iter_chunks tiles
axis 0 by chunks[0], h5o.copy deep-copies one object, ``id.get_create_plist()
.get_filter_by_id`` reports the zstd filter.  Bytes on disk, HDF5 filters,
checksums and dtype conversion inside libhdf5 are NOT modelled.
"""
import copy as _copy

import numpy as np

from .symnp import SArr
from .symx import NotModelled


class _Unset:
    def __repr__(self):
        return "UNSET"


UNSET = _Unset()

#: path -> File registry (shared with the file-system model)
REGISTRY = {}


def _cast_attr(v, dtype):
    """h5py converts attribute data to the requested dtype"""
    if dtype is None:
        return v
    dt = np.dtype(dtype)
    from .symx import SFloat, SInt, SReal
    import z3
    if dt.kind in "iu":
        if isinstance(v, (SFloat, SReal)):
            f = SFloat.lift(v)
            tr = z3.If(f.v >= 0, z3.ToInt(f.v), -z3.ToInt(-f.v))
            return SFloat(z3.BoolVal(False),
                          z3.If(f.nan, z3.RealVal(-2**63), z3.ToReal(tr)))
        if isinstance(v, SInt):
            return v
        return np.asarray(v).astype(dt)
    if isinstance(v, (SFloat, SReal, SInt)):
        return v
    return np.asarray(v, dtype=dt)


class _AttrId:
    def __init__(self, v):
        self.dtype = np.asarray(v).dtype if not hasattr(v, "e") \
            else np.dtype(float)


class Attrs(dict):
    def create(self, k, v, shape=None, dtype=None):
        self[k] = _cast_attr(v, dtype)

    def get_id(self, k):
        return _AttrId(self[k])

    def __setitem__(self, k, v):
        if not isinstance(k, str):
            raise TypeError("attribute name must be str")
        if v is None:
            raise TypeError("Object dtype dtype('O') has no native HDF5 "
                            "equivalent")
        dict.__setitem__(self, k, v)


class _Plist:
    def __init__(self, ds):
        self.ds = ds

    def get_filter_by_id(self, fid):
        if fid == 32015 and getattr(self.ds, "zstd", None) is not None:
            return (0, (self.ds.zstd,), b"zstd")
        return None

    def get_nfilters(self):
        return 1 if getattr(self.ds, "zstd", None) is not None else 0


class _Id:
    def __init__(self, obj):
        self.obj = obj

    def get_create_plist(self):
        return _Plist(self.obj)

    def __eq__(self, o):
        return isinstance(o, _Id) and o.obj is self.obj

    def __hash__(self):
        return id(self.obj)


class Node:
    def __init__(self, parent, name):
        self.parent = parent
        self._name = name
        self.attrs = Attrs()
        self.id = _Id(self)

    @property
    def name(self):
        if self.parent is None:
            return "/"
        pn = self.parent.name
        return (pn if pn != "/" else "") + "/" + self._name

    @property
    def file(self):
        n = self
        while n.parent is not None:
            n = n.parent
        return n

    def __hash__(self):
        return id(self)

    def __eq__(self, o):
        return self is o


class Dataset(Node):
    def __init__(self, parent, name, data, chunks=None, maxshape=None,
                 zstd=None, fletcher32=False):
        super().__init__(parent, name)
        self.data = data
        self.chunks = chunks
        self.maxshape = maxshape
        self.zstd = zstd
        self.fletcher32 = fletcher32
        self.compression = None if zstd is None else "zstd"

    #: virtual / external storage (never produced by dclab; set by
    #: corruption scenarios)
    is_virtual = False
    external = None
    shape = property(lambda s: tuple(s.data.shape))
    dtype = property(lambda s: s.data.dtype)
    size = property(lambda s: s.data.size)
    ndim = property(lambda s: s.data.ndim)
    nbytes = property(lambda s: s.data.nbytes)

    def _check(self):
        if getattr(self.file, "closed", False):
            raise ValueError("Invalid dataset identifier (file is closed)")

    def __len__(self):
        if self.data.ndim == 0:
            raise TypeError("Attempt to take len() of scalar dataset")
        return self.data.shape[0]

    def __getitem__(self, k):
        self._check()
        r = self.data[k]
        if isinstance(r, (np.ndarray, SArr)):
            r = r.copy()           # h5py reads into a new array
        return r

    def __setitem__(self, k, v):
        self._check()
        if self.file.mode == "r":
            raise OSError("Can't write data (no write intent on file)")
        if isinstance(self.data, np.ndarray) and isinstance(v, SArr):
            self.data = SArr(list(self.data), self.data.dtype,
                             self.data.shape[1:])
        if isinstance(self.data, np.ndarray) and self.data.dtype.kind == "S":
            # fixed-width strings: h5py truncates silently
            v = np.asarray(v, dtype=self.data.dtype)
        self.data[k] = v

    def __iter__(self):
        self._check()
        return iter(self.data)

    def __array__(self, dtype=None, copy=None):
        if isinstance(self.data, SArr):
            raise NotModelled("np.asarray(real numpy) of symbolic dataset")
        return np.array(self.data, dtype=dtype)

    def __symarray__(self):
        if isinstance(self.data, SArr):
            return self.data.copy()
        return self.data.copy()

    def asstr(self):
        return _AsStr(self)

    def resize(self, size, axis=None):
        self._check()
        if self.chunks is None:
            raise TypeError("Only chunked datasets can be resized")
        if isinstance(size, tuple):
            n = size[0]
        else:
            n = size
        n = int(n)
        if self.maxshape is not None and self.maxshape[0] is not None and \
                n > self.maxshape[0]:
            raise ValueError("Unable to set extend dataset (dimension cannot "
                             "exceed the existing maximal size)")
        if isinstance(self.data, SArr):
            e = self.data.elems
            self.data.elems = e[:n] + [UNSET] * (n - len(e))
        else:
            new = np.zeros((n,) + self.data.shape[1:], dtype=self.data.dtype)
            m = min(n, len(self.data))
            new[:m] = self.data[:m]
            self.data = new

    def iter_chunks(self):
        if self.chunks is None:
            raise TypeError("Dataset is not chunked")
        c = self.chunks[0]
        for s in range(0, self.shape[0], c):
            yield (slice(s, min(s + c, self.shape[0]), 1),) + tuple(
                slice(0, n, 1) for n in self.shape[1:])


class _AsStr:
    def __init__(self, ds):
        self.ds = ds

    def __getitem__(self, k):
        r = self.ds[k]
        if isinstance(r, np.ndarray):
            return np.array([x.decode("utf-8") if isinstance(x, bytes) else x
                             for x in r], dtype=object)
        return r.decode("utf-8") if isinstance(r, bytes) else r


class Group(Node):
    def __init__(self, parent, name):
        super().__init__(parent, name)
        self.members = {}

    def _check(self):
        if getattr(self.file, "closed", False):
            raise ValueError("Invalid location identifier (file is closed)")

    def _walk(self, path, create=False):
        g = self
        if isinstance(path, bytes):
            path = path.decode()
        if not isinstance(path, str):
            raise TypeError("Accessing a group is done with bytes or str, "
                            "not %r" % type(path))
        if path.startswith("/"):
            g = self.file
        for p in [q for q in path.split("/") if q]:
            if not isinstance(g, Group):
                raise KeyError(path)
            if p not in g.members:
                if not create:
                    raise KeyError("Unable to synchronously open object "
                                   "(object '%s' doesn't exist)" % p)
                if g.file.mode == "r":
                    raise ValueError("Unable to create group (no write "
                                     "intent on file)")
                g.members[p] = Group(g, p)
            g = g.members[p]
        return g

    def __contains__(self, k):
        self._check()
        try:
            self._walk(k)
            return True
        except KeyError:
            return False

    def __getitem__(self, k):
        self._check()
        return self._walk(k)

    def __setitem__(self, k, v):
        self._check()
        if isinstance(v, Node):
            self.members[k] = v      # hard link
        else:
            self.create_dataset(k, data=v)

    def __delitem__(self, k):
        self._check()
        if self.file.mode == "r":
            raise KeyError("Couldn't delete link (no write intent on file)")
        parts = [q for q in k.split("/") if q]
        g = self._walk("/".join(parts[:-1])) if len(parts) > 1 else self
        del g.members[parts[-1]]

    def __iter__(self):
        self._check()
        return iter(sorted(self.members))

    def __len__(self):
        self._check()
        return len(self.members)

    def keys(self):
        return sorted(self.members)

    def values(self):
        return [self.members[k] for k in sorted(self.members)]

    def items(self):
        return [(k, self.members[k]) for k in sorted(self.members)]

    def get(self, k, d=None):
        return self[k] if k in self else d

    def require_group(self, k):
        self._check()
        g = self._walk(k, create=True)
        if not isinstance(g, Group):
            raise TypeError("Incompatible object (Dataset) already exists")
        return g

    def create_group(self, k):
        if k in self:
            raise ValueError("Unable to create group (name already exists)")
        return self.require_group(k)

    def create_dataset(self, name, shape=None, dtype=None, data=None,
                       chunks=None, maxshape=None, fletcher32=False,
                       compression=None, compression_opts=None, **kw):
        self._check()
        if self.file.mode == "r":
            raise ValueError("Unable to create dataset (no write intent on "
                             "file)")
        parts = [q for q in name.split("/") if q]
        if len(parts) > 1:
            return self.require_group("/".join(parts[:-1])).create_dataset(
                parts[-1], shape=shape, dtype=dtype, data=data, chunks=chunks,
                maxshape=maxshape, fletcher32=fletcher32,
                compression=compression, compression_opts=compression_opts)
        if name in self.members:
            raise ValueError("Unable to synchronously create dataset (name "
                             "already exists)")
        if data is None:
            if isinstance(shape, int):
                shape = (shape,)
            data = np.zeros(shape, dtype=dtype)
        elif isinstance(data, SArr):
            data = data.copy() if dtype is None else data.astype(dtype)
        elif hasattr(data, "__symarray__") and isinstance(
                data.__symarray__(), SArr):
            data = data.__symarray__()
        else:
            data = np.array(data, dtype=dtype)
            if data.dtype.kind == "U":
                data = np.array(data, dtype=object)
        if isinstance(data, np.ndarray) and data.dtype == object and any(
                x is None for x in data.ravel()):
            raise TypeError("Object dtype dtype('O') has no native HDF5 "
                            "equivalent")
        if chunks is True:
            chunks = tuple(max(1, s) for s in data.shape)
        if maxshape is not None and chunks is None:
            chunks = tuple(max(1, s) for s in data.shape)
        if (fletcher32 or compression) and chunks is None and data.ndim:
            chunks = tuple(max(1, s) for s in data.shape)
        if (fletcher32 or compression) and not data.ndim:
            raise TypeError("Scalar datasets don't support chunk/filter "
                            "options")
        if chunks is not None:
            chunks = tuple(chunks)
            if len(chunks) != data.ndim:
                raise ValueError("Chunk shape must have same rank as data")
            if any(c <= 0 for c in chunks):
                raise ValueError("All chunk dimensions must be positive")
            ms = maxshape if maxshape is not None else data.shape
            for c, s, m in zip(chunks, data.shape, ms):
                if m is not None and c > max(m, 1) and maxshape is None:
                    raise ValueError("Chunk shape must not be greater than "
                                     "data shape in any dimension. {} is not"
                                     " compatible with {}".format(
                                         chunks, data.shape))
        zstd = None
        if compression == 32015:
            zstd = compression_opts[0] if compression_opts else 3
        elif compression is not None:
            zstd = None
        d = Dataset(self, name, data, chunks, maxshape, zstd, fletcher32)
        if compression is not None and compression != 32015:
            d.compression = compression
        self.members[name] = d
        return d

    def visititems(self, func):
        def rec(g, prefix):
            for k in sorted(g.members):
                v = g.members[k]
                p = prefix + k
                r = func(p, v)
                if r is not None:
                    return r
                if isinstance(v, Group):
                    r = rec(v, p + "/")
                    if r is not None:
                        return r
        return rec(self, "")

    def copy(self, source, dest, name=None, **kw):
        src = self[source] if isinstance(source, str) else source
        if name is None:
            name = src._name
        _deep_copy(src, dest, name)


def _deep_copy(src, dst_group, name):
    if name in dst_group.members:
        raise ValueError("Unable to synchronously copy object (destination "
                         "object already exists)")
    if isinstance(src, Dataset):
        data = src.data.copy()
        new = Dataset(dst_group, name, data, src.chunks, src.maxshape,
                      src.zstd, src.fletcher32)
        new.compression = src.compression
    else:
        new = Group(dst_group, name)
        for k, v in src.members.items():
            _deep_copy(v, new, k)
    new.attrs.update(_copy.deepcopy(dict(src.attrs)))
    dst_group.members[name] = new
    return new


class File(Group):
    def __init__(self, filename="mem.rtdc", mode="r", **kw):
        super().__init__(None, "")
        self.filename = str(filename)
        self.mode = mode
        self.closed = False
        self.libver = kw.get("libver")
        self.swmr_mode = False

    def __enter__(self):
        return self

    def __exit__(self, *a):
        self.close()
        return False

    def close(self):
        self.closed = True

    def flush(self):
        pass

    def reopen(self, mode="r"):
        self.closed = False
        self.mode = mode
        return self

    def __bool__(self):
        return not self.closed


class _h5o:
    @staticmethod
    def copy(src_loc, src_name, dst_loc, dst_name, **kw):
        sg = src_loc.obj
        dg = dst_loc.obj
        sn = src_name.decode() if isinstance(src_name, bytes) else src_name
        dn = dst_name.decode() if isinstance(dst_name, bytes) else dst_name
        _deep_copy(sg._walk(sn), dg, dn)


h5o = _h5o


def string_dtype(encoding="utf-8", length=None):
    return np.dtype(object) if length is None else np.dtype("S%d" % length)


class _h5t:
    pass


def check_string_dtype(dt):
    return None


def tree_equal(a, b, path="", ignore=()):
    """structural diff of two trees -> list of difference descriptions"""
    diffs = []
    for k in a.keys():
        p = path + "/" + k
        if p in ignore:
            continue
        if k not in b.members:
            diffs.append("missing %s" % p)
            continue
        x, y = a.members[k], b.members[k]
        if isinstance(x, Group) != isinstance(y, Group):
            diffs.append("kind %s" % p)
        elif isinstance(x, Group):
            diffs += tree_equal(x, y, p, ignore)
        else:
            if x.shape != y.shape:
                diffs.append("shape %s %s!=%s" % (p, x.shape, y.shape))
            elif not _data_equal(x.data, y.data):
                diffs.append("data %s" % p)
        for ak, av in x.attrs.items():
            if ak not in y.attrs:
                diffs.append("attr-missing %s@%s" % (p, ak))
            elif not _val_equal(av, y.attrs[ak]):
                diffs.append("attr-differs %s@%s" % (p, ak))
    for k in b.keys():
        if k not in a.members and (path + "/" + k) not in ignore:
            diffs.append("extra %s/%s" % (path, k))
    return diffs


def _val_equal(a, b):
    try:
        return bool(np.all(np.asarray(a) == np.asarray(b))) or (
            np.asarray(a).dtype.kind == "f" and bool(np.allclose(
                np.asarray(a, dtype=float), np.asarray(b, dtype=float),
                equal_nan=True)))
    except Exception:
        return a is b


def _data_equal(a, b):
    if isinstance(a, SArr) or isinstance(b, SArr):
        la, lb = list(a), list(b)
        return len(la) == len(lb) and all(
            (x is y) or (x == y if not hasattr(x, "same") else False)
            for x, y in zip(la, lb))
    if a.dtype.kind in "OSU" or b.dtype.kind in "OSU":
        return [(_s(x)) for x in a.ravel()] == [(_s(x)) for x in b.ravel()]
    if a.dtype.names:
        return a.dtype.names == b.dtype.names and all(
            np.array_equal(a[n], b[n], equal_nan=True) for n in a.dtype.names)
    return np.array_equal(a, b, equal_nan=a.dtype.kind == "f")


def _s(x):
    return x.decode("utf-8") if isinstance(x, bytes) else str(x)
