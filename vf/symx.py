"""symx -- a small path-forking symbolic executor for real Python functions.

The functions under analysis are dclab's own code objects (see ``rebind``)
executed on symbolic values (``SInt``/``SBool``/``SReal``/``SFloat``).  A
symbolic ``__bool__`` asks the engine which side(s) of the branch are feasible
under the current path condition; if both are, the other side is put on a work
list and explored later by re-executing the function with a recorded decision
prefix.  ``prove`` asks z3 whether the negated property is satisfiable under
the path condition: ``unsat`` = obligation discharged for *all* values on that
path, ``sat`` = concrete counterexample (model), ``unknown`` = recorded as
undecided (never a success).
"""
import fractions
import time
import types

import z3


class Infeasible(BaseException):
    """current path condition is unsatisfiable"""


class PathLimit(BaseException):
    pass


class NotModelled(Exception):
    """an operation outside the modelled subset was requested"""


class Engine:
    cur = None

    def __init__(self, timeout_ms=10000, nra=False, max_paths=200000,
                 max_models=40):
        self.timeout_ms = timeout_ms
        self.nra = nra
        self.max_paths = max_paths
        self.max_models = max_models
        self.solver = None
        self.nq = 0
        self.tsolve = 0.0
        self.vars = {}
        # results
        self.npaths = 0
        self.npaths_assert = 0
        self.reused = 0
        self.obligations = 0
        self.discharged = 0
        self.unknown = []
        self.violations = []
        self.errors = []
        self.samples = []
        self.pathlimit = False
        self._nontrivial = set()

    # ---------------------------------------------------------------- vars
    def int(self, name):
        v = z3.Int(name)
        self.vars[name] = v
        return SInt(v)

    def bool(self, name):
        v = z3.Bool(name)
        self.vars[name] = v
        return SBool(v)

    def real(self, name):
        v = z3.Real(name)
        self.vars[name] = v
        return SReal(v)

    def float(self, name, allow_nan=True):
        v = z3.Real(name + ".v")
        self.vars[name + ".v"] = v
        if allow_nan:
            n = z3.Bool(name + ".nan")
            self.vars[name + ".nan"] = n
        else:
            n = z3.BoolVal(False)
        return SFloat(n, v)

    # -------------------------------------------------------------- solver
    def _new_solver(self):
        s = z3.Solver()
        s.set("timeout", self.timeout_ms)
        return s

    def check(self, *extra, timeout_ms=None):
        self.nq += 1
        t = time.time()
        try:
            if self.nra:
                s2 = z3.Tactic("qfnra-nlsat").solver()
                s2.set("timeout", timeout_ms or self.timeout_ms)
                for a in self.pc:
                    s2.add(a)
                for e in extra:
                    s2.add(e)
                r = s2.check()
                if str(r) == "unknown":
                    # second engine: default solver
                    s3 = z3.Solver()
                    s3.set("timeout", timeout_ms or self.timeout_ms)
                    for a in self.pc:
                        s3.add(a)
                    for e in extra:
                        s3.add(e)
                    r = s3.check()
                    s2 = s3
                m = s2.model() if str(r) == "sat" else None
                return str(r), m
            self.solver.push()
            if timeout_ms:
                self.solver.set("timeout", timeout_ms)
            for e in extra:
                self.solver.add(e)
            r = self.solver.check()
            m = self.solver.model() if str(r) == "sat" else None
            self.solver.pop()
            if timeout_ms:
                self.solver.set("timeout", self.timeout_ms)
            return str(r), m
        finally:
            self.tsolve += time.time() - t

    # ------------------------------------------------------------- explore
    def explore(self, fn):
        """Run ``fn(engine)`` on every feasible path."""
        stack = [[]]
        while stack:
            if self.npaths >= self.max_paths:
                self.pathlimit = True
                break
            prefix = stack.pop()
            self.decisions = list(prefix)
            self.pos = 0
            self.stack = stack
            self.pc = []
            # index of the decision that distinguishes this path from the
            # path that scheduled it: everything before it was executed
            # identically (same decisions, same path condition) there
            self.flip = len(prefix) - 1
            self.known = {}
            self.atoms = []
            self.solver = self._new_solver()
            self.path_asserted = False
            self.notes = []
            prev = Engine.cur
            Engine.cur = self
            try:
                out = fn(self)
                if len(self.samples) < 6:
                    self.samples.append({
                        "decisions": "".join("T" if d is True else "F"
                                             if d is False else "[%s]" % d
                                             for d in self.decisions),
                        "result": _short(out)})
            except Infeasible:
                pass
            except NotModelled as e:
                import traceback
                self.errors.append({"kind": "NotModelled", "msg": repr(e),
                                    "tb": traceback.format_exc()[-1500:]})
            except _Undecided as e:
                pass
            except Exception as e:  # uncaught exception of the code under test
                import traceback
                self._record_violation(
                    "exception:" + type(e).__name__, None,
                    detail=repr(e), tb=traceback.format_exc()[-2500:])
            finally:
                Engine.cur = prev
            self.npaths += 1
            if self.path_asserted:
                self.npaths_assert += 1
                if self.decisions:
                    self._nontrivial.add(tuple(self.decisions))
        return self

    @property
    def distinct_nontrivial(self):
        return len(self._nontrivial)

    def _add(self, cond):
        self.pc.append(cond)
        if not self.nra:
            self.solver.add(cond)

    def assume(self, cond):
        cond = tobool(cond)
        self._add(cond)
        r, _ = self.check()
        if r == "unsat":
            raise Infeasible()
        if r == "unknown":
            self.unknown.append({"what": "assume", "cond": str(cond)[:200]})
            raise _Undecided()

    def branch(self, cond):
        if isinstance(cond, bool):
            return cond
        # conditions decided earlier on the path / determined by the atoms
        # decided earlier are answered without a decision: the answer is a
        # pure function of the earlier decisions, so replays stay aligned
        raw = cond
        kn = self.known.get(raw.get_id())
        if kn is not None:
            return kn[1]
        cond = z3.simplify(cond)
        if z3.is_true(cond):
            return True
        if z3.is_false(cond):
            return False
        kn = self.known.get(cond.get_id())
        if kn is not None:
            self.known[raw.get_id()] = (raw, kn[1])
            return kn[1]
        if self.atoms and not z3.is_const(cond):
            c2 = z3.simplify(z3.substitute(cond, *self.atoms))
            if z3.is_true(c2) or z3.is_false(c2):
                d = z3.is_true(c2)
                self.known[raw.get_id()] = (raw, d)
                self.known[cond.get_id()] = (cond, d)
                return d
        if self.pos < len(self.decisions):
            d = self.decisions[self.pos]
        else:
            rt, _ = self.check(cond)
            rf, _ = self.check(z3.Not(cond))
            if rt == "unknown" or rf == "unknown":
                self.unknown.append({"what": "branch", "cond": str(cond)[:200]})
                raise _Undecided()
            if rt == "sat" and rf == "sat":
                self.stack.append(self.decisions + [False])
                d = True
            elif rt == "sat":
                d = True
            elif rf == "sat":
                d = False
            else:
                raise Infeasible()
            self.decisions.append(d)
        self.pos += 1
        self._add(cond if d else z3.Not(cond))
        self.known[cond.get_id()] = (cond, d)
        self.known[raw.get_id()] = (raw, d)
        neg = z3.simplify(z3.Not(cond))
        self.known[neg.get_id()] = (neg, not d)
        if z3.is_const(cond) and cond.decl().kind() == z3.Z3_OP_UNINTERPRETED:
            self.atoms.append((cond, z3.BoolVal(d)))
        elif z3.is_not(cond) and z3.is_const(cond.arg(0)) and \
                cond.arg(0).decl().kind() == z3.Z3_OP_UNINTERPRETED:
            self.atoms.append((cond.arg(0), z3.BoolVal(not d)))
        return d

    def concretize(self, expr):
        """fork over all feasible values of an integer expression"""
        if isinstance(expr, bool):
            return int(expr)
        if isinstance(expr, int):
            return expr
        e = expr.e if isinstance(expr, SInt) else expr
        e = z3.simplify(e)
        if z3.is_int_value(e):
            return e.as_long()
        kn = self.known.get(("int", e.get_id()))
        if kn is not None:
            return kn[1]
        e0 = e
        if self.atoms:
            e2 = z3.simplify(z3.substitute(e, *self.atoms))
            if z3.is_int_value(e2):
                self.known[("int", e0.get_id())] = (e0, e2.as_long())
                return e2.as_long()
        if self.pos < len(self.decisions):
            v = self.decisions[self.pos]
            self.pos += 1
            if isinstance(v, tuple):
                # ("ne", [vals...]) remainder marker: pick next feasible value
                excl = list(v[1])
                self.pos -= 1
                self.decisions = self.decisions[:self.pos]
                v = self._concretize_new(e, excl)
                self.known[("int", e0.get_id())] = (e0, v)
                return v
            self._add(e == v)
            self.known[("int", e0.get_id())] = (e0, v)
            return v
        v = self._concretize_new(e, [])
        self.known[("int", e0.get_id())] = (e0, v)
        return v

    def _concretize_new(self, e, excl):
        cons = [e != x for x in excl]
        r, m = self.check(*cons)
        if r == "unknown":
            self.unknown.append({"what": "concretize", "cond": str(e)[:200]})
            raise _Undecided()
        if r != "sat":
            raise Infeasible()
        v = m.eval(e, model_completion=True).as_long()
        # is there another value?
        r2, _ = self.check(*(cons + [e != v]))
        if r2 == "sat":
            self.stack.append(self.decisions[:self.pos] + [("ne", excl + [v])])
        elif r2 == "unknown":
            self.unknown.append({"what": "concretize", "cond": str(e)[:200]})
        self.decisions.append(v)
        self.pos += 1
        for c in cons:
            pass
        self._add(e == v)
        return v

    # ----------------------------------------------------------- asserting
    @property
    def fresh(self):
        """False while this path still replays the decisions it shares with
        the path that scheduled it (obligations met there were decided
        there, under the same path condition)"""
        return self.pos > self.flip

    def reach(self):
        """mark that an assertion site was reached on this path"""
        self.path_asserted = True

    def prove(self, cond, what="", info=None):
        """obligation: cond holds for all values on this path.

        On a counterexample the model is recorded and the path continues
        under the assumption that cond holds (so later obligations are still
        examined)."""
        self.path_asserted = True
        if not self.fresh:
            # identical obligation already decided on the scheduling path
            self.reused += 1
            return True
        self.obligations += 1
        if cond is True:
            self.discharged += 1
            return True
        cond = tobool(cond)
        if isinstance(cond, bool):
            cond = z3.BoolVal(cond)
        if z3.is_true(cond) or z3.is_true(z3.simplify(cond)):
            # literally true on this path: nothing to ask the solver
            self.discharged += 1
            return True
        r, m = self.check(z3.Not(cond))
        if r == "unknown":
            r, m = self.check(z3.Not(cond), timeout_ms=4 * self.timeout_ms)
        if r == "unsat":
            self.discharged += 1
            return True
        if r == "unknown":
            self.unknown.append({"what": what, "cond": str(cond)[:200]})
            return None
        self._record_violation(what, m, info=info)
        self._add(cond)
        r, _ = self.check()
        if r != "sat":
            raise Infeasible()
        return False

    def fail(self, what, info=None, **kw):
        """unconditional violation on the current (feasible) path"""
        self.path_asserted = True
        self.obligations += 1
        self._record_violation(what, None, info=info, **kw)

    def model_values(self, m=None):
        if m is None:
            r, m = self.check()
            if r != "sat":
                return None
        vals = {}
        for name, v in self.vars.items():
            vals[name] = _pyval(m.eval(v, model_completion=True))
        return vals

    def _record_violation(self, what, m, info=None, **kw):
        if len(self.violations) >= self.max_models:
            self.violations_dropped = getattr(self, "violations_dropped", 0) + 1
            # still remember the label
            for v in self.violations:
                if v["what"] == what:
                    v["more"] = v.get("more", 0) + 1
                    return
        vals = self.model_values(m)
        rec = {"what": what, "values": vals,
               "decisions": [d if not isinstance(d, tuple) else str(d)
                             for d in self.decisions],
               "notes": list(self.notes)}
        if info is not None:
            rec["info"] = info(m_eval(m)) if callable(info) and m is not None \
                else (None if callable(info) else info)
        rec.update(kw)
        self.violations.append(rec)

    def stats(self):
        return {
            "paths": self.npaths, "paths_reaching_assert": self.npaths_assert,
            "distinct_nontrivial": self.distinct_nontrivial,
            "queries": self.nq, "solver_time_s": round(self.tsolve, 3),
            "obligations": self.obligations, "discharged": self.discharged,
            "obligations_shared_prefix": self.reused,
            "unknown": self.unknown[:10], "n_unknown": len(self.unknown),
            "violations": self.violations, "errors": self.errors[:5],
            "n_errors": len(self.errors), "pathlimit": self.pathlimit,
            "samples": self.samples}


class _Undecided(BaseException):
    pass


def m_eval(m):
    def ev(x):
        if isinstance(x, (SInt, SBool, SReal)):
            x = x.e
        if isinstance(x, SFloat):
            n = _pyval(m.eval(x.nan, model_completion=True))
            return float("nan") if n else _pyval(
                m.eval(x.v, model_completion=True))
        if isinstance(x, (int, float, bool, str)) or x is None:
            return x
        return _pyval(m.eval(x, model_completion=True))
    return ev


def _pyval(v):
    if z3.is_int_value(v):
        return v.as_long()
    if z3.is_true(v):
        return True
    if z3.is_false(v):
        return False
    if z3.is_rational_value(v):
        f = fractions.Fraction(v.numerator_as_long(), v.denominator_as_long())
        return float(f) if f.denominator != 1 else int(f)
    if z3.is_algebraic_value(v):
        return float(v.approx(20).as_fraction())
    return str(v)


def _short(o):
    s = repr(o)
    return s if len(s) < 200 else s[:200] + "..."


# ------------------------------------------------------------------ values
def tobool(c):
    if isinstance(c, SBool):
        return c.e
    if isinstance(c, bool):
        return z3.BoolVal(c)
    return c


def toint(x):
    if isinstance(x, SInt):
        return x.e
    if isinstance(x, bool):
        return z3.IntVal(int(x))
    if isinstance(x, int):
        return z3.IntVal(x)
    if hasattr(x, "__index__") and not isinstance(x, (SReal, SFloat)):
        return z3.IntVal(x.__index__())
    return x


def toreal(x):
    if isinstance(x, SReal):
        return x.e
    if isinstance(x, SFloat):
        return x.v
    if isinstance(x, SInt):
        return z3.ToReal(x.e)
    if isinstance(x, bool):
        return z3.RealVal(int(x))
    if isinstance(x, int):
        return z3.RealVal(x)
    if isinstance(x, float):
        return z3.RealVal(fractions.Fraction(x).limit_denominator(10**12)
                          if x == x and abs(x) != float("inf") else 0)
    if isinstance(x, fractions.Fraction):
        return z3.RealVal(x)
    if hasattr(x, "dtype") and hasattr(x, "item"):
        return toreal(x.item())
    return x


class SBool:
    def __init__(self, e):
        self.e = e

    def __bool__(self):
        return Engine.cur.branch(self.e)

    def __invert__(self):
        return SBool(z3.Not(self.e))

    def __and__(self, o):
        return SBool(z3.And(self.e, tobool(o)))

    __rand__ = __and__

    def __or__(self, o):
        return SBool(z3.Or(self.e, tobool(o)))

    __ror__ = __or__

    def __xor__(self, o):
        return SBool(z3.Xor(self.e, tobool(o)))

    __rxor__ = __xor__

    def __eq__(self, o):
        if isinstance(o, (SBool, bool)):
            return SBool(self.e == tobool(o))
        return NotImplemented

    def __ne__(self, o):
        if isinstance(o, (SBool, bool)):
            return SBool(self.e != tobool(o))
        return NotImplemented

    def __hash__(self):
        return hash(bool(self))

    def __int__(self):
        return int(bool(self))

    def __index__(self):
        return int(bool(self))

    def __add__(self, o):
        return SInt(z3.If(self.e, 1, 0)) + o

    __radd__ = __add__

    def __repr__(self):
        return "SBool(%s)" % self.e


def _isnum(o):
    return isinstance(o, (int, SInt)) and not isinstance(o, bool) or \
        isinstance(o, bool)


class SInt:
    def __init__(self, e):
        self.e = e if not isinstance(e, str) else z3.Int(e)

    def _b(self, o, f):
        if isinstance(o, SBool):
            o = SInt(z3.If(o.e, 1, 0))
        if isinstance(o, (int, SInt)):
            return SInt(f(self.e, toint(o)))
        if isinstance(o, float):
            return SReal(f(z3.ToReal(self.e), toreal(o)))
        if hasattr(o, "dtype") and getattr(o, "shape", None) == ():
            return self._b(o.item(), f)
        return NotImplemented

    def _r(self, o, f):
        if isinstance(o, (int, SInt)):
            return SInt(f(toint(o), self.e))
        if isinstance(o, float):
            return SReal(f(toreal(o), z3.ToReal(self.e)))
        if hasattr(o, "dtype") and getattr(o, "shape", None) == ():
            return self._r(o.item(), f)
        return NotImplemented

    def __add__(s, o):
        return s._b(o, lambda a, b: a + b)

    def __radd__(s, o):
        return s._r(o, lambda a, b: a + b)

    def __sub__(s, o):
        return s._b(o, lambda a, b: a - b)

    def __rsub__(s, o):
        return s._r(o, lambda a, b: a - b)

    def __mul__(s, o):
        return s._b(o, lambda a, b: a * b)

    def __rmul__(s, o):
        return s._r(o, lambda a, b: a * b)

    def __neg__(s):
        return SInt(-s.e)

    def __pos__(s):
        return s

    def __abs__(s):
        return SInt(z3.If(s.e < 0, -s.e, s.e))

    def __floordiv__(s, o):
        if isinstance(o, (int, SInt)):
            return SInt(pyfloordiv(s.e, toint(o)))
        return NotImplemented

    def __rfloordiv__(s, o):
        if isinstance(o, (int, SInt)):
            return SInt(pyfloordiv(toint(o), s.e))
        return NotImplemented

    def __mod__(s, o):
        if isinstance(o, (int, SInt)):
            return SInt(pymod(s.e, toint(o)))
        return NotImplemented

    def __rmod__(s, o):
        if isinstance(o, (int, SInt)):
            return SInt(pymod(toint(o), s.e))
        return NotImplemented

    def __truediv__(s, o):
        return SReal(z3.ToReal(s.e)) / o

    def __rtruediv__(s, o):
        return o / SReal(z3.ToReal(s.e))

    def _c(self, o, f):
        if isinstance(o, SBool):
            o = SInt(z3.If(o.e, 1, 0))
        if isinstance(o, (int, SInt)):
            return SBool(f(self.e, toint(o)))
        if isinstance(o, (float, SReal)):
            return SBool(f(z3.ToReal(self.e), toreal(o)))
        if hasattr(o, "dtype") and getattr(o, "shape", None) == ():
            return self._c(o.item(), f)
        return NotImplemented

    def __lt__(s, o):
        return s._c(o, lambda a, b: a < b)

    def __le__(s, o):
        return s._c(o, lambda a, b: a <= b)

    def __gt__(s, o):
        return s._c(o, lambda a, b: a > b)

    def __ge__(s, o):
        return s._c(o, lambda a, b: a >= b)

    def __eq__(s, o):
        if o is None:
            return False
        return s._c(o, lambda a, b: a == b)

    def __ne__(s, o):
        if o is None:
            return True
        return s._c(o, lambda a, b: a != b)

    def __hash__(s):
        return Engine.cur.concretize(s).__hash__()

    def __index__(s):
        return Engine.cur.concretize(s)

    def __int__(s):
        return Engine.cur.concretize(s)

    def __bool__(s):
        return Engine.cur.branch(s.e != 0)

    def __repr__(s):
        return "SInt(%s)" % z3.simplify(s.e)

    def __format__(s, spec):
        """symbolic ints rendered into text become placeholders that a stub
        on the other side of the text interface can map back (``unformat``)"""
        e = z3.simplify(s.e)
        if z3.is_int_value(e):
            return format(e.as_long(), spec)
        tab = Engine.cur.__dict__.setdefault("fmt_table", [])
        tab.append((s, spec))
        return "\x00%d\x00" % (len(tab) - 1)

    __str__ = lambda s: s.__format__("")


import numbers as _numbers  # noqa: E402
_numbers.Integral.register(SInt)


def pyfloordiv(a, b):
    # z3 Int division is euclidean: a = b*q + r with 0 <= r < |b|
    if z3.is_int_value(b) and b.as_long() > 0:
        return a / b
    q = a / b
    return z3.If(b > 0, q, z3.If(a % b == 0, q, q - 1))


def pymod(a, b):
    if z3.is_int_value(b) and b.as_long() > 0:
        return a % b
    return a - b * pyfloordiv(a, b)


#: when True, products / quotients of two NON-CONSTANT reals become
#: applications of uninterpreted functions (keeps queries in QF_UFLRA; used
#: by harnesses that only compare terms, e.g. non-interference checks)
UF_NONLINEAR = False
_UMUL = z3.Function("umul", z3.RealSort(), z3.RealSort(), z3.RealSort())
_UDIV = z3.Function("udiv", z3.RealSort(), z3.RealSort(), z3.RealSort())


def _isnumeral(e):
    return z3.is_rational_value(e) or z3.is_int_value(e) or \
        z3.is_rational_value(z3.simplify(e))


def rmul(a, b):
    if UF_NONLINEAR and not _isnumeral(a) and not _isnumeral(b):
        return _UMUL(a, b)
    return a * b


def rdiv(a, b):
    if UF_NONLINEAR and not _isnumeral(b):
        return _UDIV(a, b)
    return a / b


class SReal:
    """exact real number (floats modelled as reals; no rounding)"""

    def __init__(self, e):
        self.e = e if not isinstance(e, str) else z3.Real(e)

    def _b(self, o, f):
        if isinstance(o, SFloat):
            return NotImplemented
        if isinstance(o, (int, float, SInt, SReal, fractions.Fraction)) or \
                (hasattr(o, "dtype") and getattr(o, "shape", None) == ()):
            return SReal(f(self.e, toreal(o)))
        return NotImplemented

    def _r(self, o, f):
        if isinstance(o, (int, float, SInt, SReal, fractions.Fraction)) or \
                (hasattr(o, "dtype") and getattr(o, "shape", None) == ()):
            return SReal(f(toreal(o), self.e))
        return NotImplemented

    def __add__(s, o):
        return s._b(o, lambda a, b: a + b)

    def __radd__(s, o):
        return s._r(o, lambda a, b: a + b)

    def __sub__(s, o):
        return s._b(o, lambda a, b: a - b)

    def __rsub__(s, o):
        return s._r(o, lambda a, b: a - b)

    def __mul__(s, o):
        return s._b(o, rmul)

    def __rmul__(s, o):
        return s._r(o, rmul)

    def __truediv__(s, o):
        return s._b(o, rdiv)

    def __rtruediv__(s, o):
        return s._r(o, rdiv)

    def __pow__(s, o):
        if isinstance(o, int) and 0 <= o <= 6:
            r = z3.RealVal(1)
            for _ in range(o):
                r = r * s.e
            return SReal(r)
        raise NotModelled("SReal ** %r" % (o,))

    def __neg__(s):
        return SReal(-s.e)

    def __pos__(s):
        return s

    def __abs__(s):
        return SReal(z3.If(s.e < 0, -s.e, s.e))

    def _c(self, o, f):
        if isinstance(o, SFloat):
            return NotImplemented
        if isinstance(o, (int, float, SInt, SReal, fractions.Fraction)) or \
                (hasattr(o, "dtype") and getattr(o, "shape", None) == ()):
            return SBool(f(self.e, toreal(o)))
        return NotImplemented

    def __lt__(s, o):
        return s._c(o, lambda a, b: a < b)

    def __le__(s, o):
        return s._c(o, lambda a, b: a <= b)

    def __gt__(s, o):
        return s._c(o, lambda a, b: a > b)

    def __ge__(s, o):
        return s._c(o, lambda a, b: a >= b)

    def __eq__(s, o):
        if o is None:
            return False
        return s._c(o, lambda a, b: a == b)

    def __ne__(s, o):
        if o is None:
            return True
        return s._c(o, lambda a, b: a != b)

    __hash__ = None

    def __bool__(s):
        return Engine.cur.branch(s.e != 0)

    def __float__(s):
        raise NotModelled("float() of a symbolic real")

    def __repr__(s):
        return "SReal(%s)" % z3.simplify(s.e)


class SFloat:
    """IEEE-like float: NaN flag + exact real value (no inf, no rounding).

    Arithmetic propagates NaN, comparisons with NaN are False (``!=`` True),
    division by zero yields NaN (numpy would give inf/NaN + a warning)."""

    def __init__(self, nan, v):
        self.nan = nan if not isinstance(nan, bool) else z3.BoolVal(nan)
        self.v = v

    @staticmethod
    def lift(x):
        if isinstance(x, SFloat):
            return x
        if isinstance(x, SReal):
            return SFloat(z3.BoolVal(False), x.e)
        if isinstance(x, SInt):
            return SFloat(z3.BoolVal(False), z3.ToReal(x.e))
        if isinstance(x, SBool):
            return SFloat(z3.BoolVal(False), z3.If(x.e, z3.RealVal(1),
                                                   z3.RealVal(0)))
        if isinstance(x, (bool, int, float, fractions.Fraction)):
            isn = isinstance(x, float) and x != x
            return SFloat(z3.BoolVal(isn), toreal(0 if isn else x))
        if hasattr(x, "dtype") and getattr(x, "shape", None) == ():
            return SFloat.lift(x.item())
        raise TypeError("cannot lift %r to SFloat" % type(x))

    def _b(s, o, f):
        try:
            o = SFloat.lift(o)
        except TypeError:
            return NotImplemented
        return SFloat(z3.Or(s.nan, o.nan), f(s.v, o.v))

    def _r(s, o, f):
        try:
            o = SFloat.lift(o)
        except TypeError:
            return NotImplemented
        return SFloat(z3.Or(s.nan, o.nan), f(o.v, s.v))

    def __add__(s, o):
        return s._b(o, lambda a, b: a + b)

    def __radd__(s, o):
        return s._r(o, lambda a, b: a + b)

    def __sub__(s, o):
        return s._b(o, lambda a, b: a - b)

    def __rsub__(s, o):
        return s._r(o, lambda a, b: a - b)

    def __mul__(s, o):
        return s._b(o, rmul)

    def __rmul__(s, o):
        return s._r(o, rmul)

    def __neg__(s):
        return SFloat(s.nan, -s.v)

    def __abs__(s):
        return SFloat(s.nan, z3.If(s.v < 0, -s.v, s.v))

    def __truediv__(s, o):
        try:
            o = SFloat.lift(o)
        except TypeError:
            return NotImplemented
        return SFloat(z3.Or(s.nan, o.nan, o.v == 0),
                      rdiv(s.v, z3.If(o.v == 0, z3.RealVal(1), o.v)))

    def __rtruediv__(s, o):
        return SFloat.lift(o).__truediv__(s)

    def _c(s, o, f, nanres=False):
        try:
            o = SFloat.lift(o)
        except TypeError:
            return NotImplemented
        anynan = z3.Or(s.nan, o.nan)
        return SBool(z3.If(anynan, z3.BoolVal(nanres), f(s.v, o.v)))

    def __lt__(s, o):
        return s._c(o, lambda a, b: a < b)

    def __le__(s, o):
        return s._c(o, lambda a, b: a <= b)

    def __gt__(s, o):
        return s._c(o, lambda a, b: a > b)

    def __ge__(s, o):
        return s._c(o, lambda a, b: a >= b)

    def __eq__(s, o):
        if o is None:
            return False
        return s._c(o, lambda a, b: a == b)

    def __ne__(s, o):
        if o is None:
            return True
        return s._c(o, lambda a, b: a != b, nanres=True)

    __hash__ = None

    def __bool__(s):
        return Engine.cur.branch(z3.Or(s.nan, s.v != 0))

    def same(s, o):
        """z3 Bool: identical as data (NaN == NaN)"""
        o = SFloat.lift(o)
        return z3.And(s.nan == o.nan, z3.Implies(z3.Not(s.nan), s.v == o.v))

    def __repr__(s):
        return "SFloat(nan=%s, %s)" % (z3.simplify(s.nan), z3.simplify(s.v))


def isnan(x):
    if isinstance(x, SFloat):
        return SBool(x.nan)
    if isinstance(x, (SReal, SInt, SBool, int)):
        return False
    return x != x


# --------------------------------------------------------------- builtins
def smin(*a, **kw):
    if len(a) == 1:
        a = list(a[0])
        if not a:
            if "default" in kw:
                return kw["default"]
            raise ValueError("min() iterable argument is empty")
    r = a[0]
    for x in a[1:]:
        r = _pick(x, r, "lt")
    return r


def smax(*a, **kw):
    if len(a) == 1:
        a = list(a[0])
        if not a:
            if "default" in kw:
                return kw["default"]
            raise ValueError("max() iterable argument is empty")
    r = a[0]
    for x in a[1:]:
        r = _pick(x, r, "gt")
    return r


def _pick(x, r, op):
    sym = (SInt, SReal)
    if isinstance(x, sym) or isinstance(r, sym):
        if isinstance(x, SReal) or isinstance(r, SReal) or \
                isinstance(x, float) or isinstance(r, float):
            xe, re_ = toreal(x), toreal(r)
            c = xe < re_ if op == "lt" else xe > re_
            return SReal(z3.If(c, xe, re_))
        xe, re_ = toint(x), toint(r)
        c = xe < re_ if op == "lt" else xe > re_
        return SInt(z3.If(c, xe, re_))
    if op == "lt":
        return x if x < r else r
    return x if x > r else r


def srange(*a):
    a = [Engine.cur.concretize(x) if isinstance(x, (SInt, SBool)) else x
         for x in a]
    return range(*a)


def sabs(x):
    return abs(x)


def sint(x, *a):
    if isinstance(x, SInt):
        return x
    if isinstance(x, SBool):
        return SInt(z3.If(x.e, 1, 0))
    return int(x, *a)


def sbool(x):
    if isinstance(x, SBool):
        return x
    if isinstance(x, SInt):
        return SBool(x.e != 0)
    return bool(x)


def ite(c, a, b):
    """symbolic if-then-else without forking (ints / reals / floats / bools)"""
    c = tobool(c)
    if isinstance(c, bool):
        return a if c else b
    if isinstance(a, SFloat) or isinstance(b, SFloat) or any(
            isinstance(x, float) and x != x for x in (a, b)):
        a, b = SFloat.lift(a), SFloat.lift(b)
        return SFloat(z3.If(c, a.nan, b.nan), z3.If(c, a.v, b.v))
    if isinstance(a, (SBool, bool)) and isinstance(b, (SBool, bool)):
        return SBool(z3.If(c, tobool(a), tobool(b)))
    if isinstance(a, (SReal, float)) or isinstance(b, (SReal, float)):
        return SReal(z3.If(c, toreal(a), toreal(b)))
    return SInt(z3.If(c, toint(a), toint(b)))


def unformat(text):
    """inverse of SInt.__format__: text -> SInt | int"""
    text = text.strip()
    if text.startswith("\x00") and text.endswith("\x00"):
        return Engine.cur.fmt_table[int(text[1:-1])][0]
    return int(text)


def rebind(func, **glb):
    """the real code object of ``func`` with some global names replaced"""
    if isinstance(func, (staticmethod, classmethod)):
        func = func.__func__
    g = dict(func.__globals__)
    g.update(glb)
    f = types.FunctionType(func.__code__, g, func.__name__,
                           func.__defaults__, func.__closure__)
    f.__kwdefaults__ = func.__kwdefaults__
    f.__qualname__ = func.__qualname__
    f.__rebound_from__ = func
    return f


def rebind_class(cls, names=None, bases=(object,), extra=None, **glb):
    """new class with the *real* methods of ``cls`` re-bound to shim globals"""
    ns = {}
    for name, val in cls.__dict__.items():
        if names is not None and name not in names:
            continue
        if isinstance(val, types.FunctionType):
            ns[name] = rebind(val, **glb)
        elif isinstance(val, staticmethod):
            ns[name] = staticmethod(rebind(val.__func__, **glb))
        elif isinstance(val, classmethod):
            ns[name] = classmethod(rebind(val.__func__, **glb))
        elif isinstance(val, property):
            ns[name] = property(
                rebind(val.fget, **glb) if val.fget else None,
                rebind(val.fset, **glb) if val.fset else None,
                rebind(val.fdel, **glb) if val.fdel else None)
        elif names is not None or not name.startswith("__"):
            ns[name] = val
    if extra:
        ns.update(extra)
    return type(cls.__name__ + "_sym", bases, ns)


class SStr:
    """string with a concrete length on each path and symbolic characters
    (each item is a 1-char str or an SInt character code)"""

    def __init__(self, items):
        self.items = list(items)

    @staticmethod
    def lift(x):
        if isinstance(x, SStr):
            return x
        if isinstance(x, str):
            return SStr(list(x))
        raise TypeError("cannot lift %r to SStr" % type(x))

    @staticmethod
    def digits(ints, width=None):
        """decimal digits given as SInt/int digit values"""
        return SStr([SInt(toint(d) + 48) if not isinstance(d, int)
                     else chr(48 + d) for d in ints])

    def __len__(self):
        return len(self.items)

    def __add__(self, o):
        return SStr(self.items + SStr.lift(o).items)

    def __radd__(self, o):
        return SStr(SStr.lift(o).items + self.items)

    def __getitem__(self, k):
        if isinstance(k, slice):
            return SStr(self.items[k])
        return SStr([self.items[k]])

    def _codes(self):
        return [z3.IntVal(ord(c)) if isinstance(c, str) else toint(c)
                for c in self.items]

    def eq(self, o):
        o = SStr.lift(o)
        if len(o) != len(self):
            return z3.BoolVal(False)
        return z3.And([a == b for a, b in zip(self._codes(), o._codes())]
                      or [True])

    def lt(self, o):
        """lexicographic < as z3 Bool"""
        a, b = self._codes(), SStr.lift(o)._codes()
        res = z3.BoolVal(len(a) < len(b))       # proper prefix
        for x, y in reversed(list(zip(a, b))):
            res = z3.If(x < y, z3.BoolVal(True),
                        z3.If(x > y, z3.BoolVal(False), res))
        return res

    def __eq__(self, o):
        if not isinstance(o, (SStr, str)):
            return False
        return SBool(self.eq(o))

    def __ne__(self, o):
        if not isinstance(o, (SStr, str)):
            return True
        return SBool(z3.Not(self.eq(o)))

    def __lt__(self, o):
        return SBool(self.lt(o))

    def __gt__(self, o):
        return SBool(SStr.lift(o).lt(self))

    def __le__(self, o):
        return SBool(z3.Not(SStr.lift(o).lt(self)))

    def __ge__(self, o):
        return SBool(z3.Not(self.lt(o)))

    __hash__ = None

    def join(self, parts):
        out = []
        for i, p in enumerate(parts):
            if i:
                out += self.items
            out += SStr.lift(p).items
        return SStr(out)

    def count(self, sub):
        if len(sub) != 1:
            raise NotModelled("SStr.count(%r)" % (sub,))
        return sum(1 for c in self.items if SStr._isin(c, sub))

    # ---- text methods (fork on symbolic characters where needed)
    @staticmethod
    def _simplify(items):
        if all(isinstance(c, str) for c in items):
            return "".join(items)
        return SStr(items)

    @staticmethod
    def _isin(c, chars):
        if isinstance(c, str):
            return c in chars
        return bool(SBool(z3.Or([toint(c) == ord(w) for w in chars])))

    def strip(self, chars=None):
        ws = " \t\n\r\x0b\x0c" if chars is None else chars
        items = list(self.items)
        while items and SStr._isin(items[0], ws):
            items.pop(0)
        while items and SStr._isin(items[-1], ws):
            items.pop()
        return SStr._simplify(items)

    def startswith(self, prefix):
        if len(prefix) > len(self.items):
            return False
        r = self[:len(prefix)]
        return r == prefix if isinstance(r, SStr) else r == prefix

    def endswith(self, suffix):
        if len(suffix) > len(self.items):
            return False
        return SStr(self.items[len(self.items) - len(suffix):]) == suffix

    def split(self, sep=None, maxsplit=-1):
        if sep is None or len(sep) != 1:
            raise NotModelled("SStr.split(%r)" % (sep,))
        parts, cur, n = [], [], 0
        for c in self.items:
            if (maxsplit < 0 or n < maxsplit) and SStr._isin(c, sep):
                parts.append(SStr._simplify(cur))
                cur = []
                n += 1
            else:
                cur.append(c)
        parts.append(SStr._simplify(cur))
        return parts

    def lower(self):
        out = []
        for c in self.items:
            if isinstance(c, str):
                out.append(c.lower())
            else:
                e = toint(c)
                out.append(SInt(z3.If(z3.And(e >= 65, e <= 90), e + 32, e)))
        return SStr._simplify(out)

    def __str__(self):
        return "".join(c if isinstance(c, str) else "?" for c in self.items)

    def __repr__(self):
        return "SStr(%r)" % str(self)

    def concrete(self, ev):
        """the concrete text under a model evaluator"""
        return "".join(c if isinstance(c, str) else chr(int(ev(c)))
                       for c in self.items)


def sformat(lit, *args, **kw):
    """"literal".format(...) where arguments may be SStr (plain ``{}``
    fields only for those)"""
    if not any(isinstance(a, SStr) for a in list(args) + list(kw.values())):
        return lit.format(*args, **kw)
    import string
    out = SStr([])
    auto = 0
    for text, field, spec, conv in string.Formatter().parse(lit):
        out = out + text
        if field is None:
            continue
        if field == "":
            val = args[auto]
            auto += 1
        elif field.isdigit():
            val = args[int(field)]
        else:
            val = kw[field]
        if isinstance(val, SStr):
            if spec or conv:
                raise NotModelled("format spec on a symbolic string")
            out = out + val
        else:
            out = out + format(val, spec or "")
    return out


def sjoin(sep, parts):
    """"sep".join(parts) where parts may contain SStr"""
    parts = list(parts)
    if any(isinstance(p, SStr) for p in parts):
        return SStr.lift(sep).join(parts)
    return sep.join(parts)
