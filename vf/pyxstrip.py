"""Turn the Cython sources that dclab ships (.pyx) into plain Python so that
the *current source text* can be executed symbolically (Cython itself is not
installed in this sandbox, the compiled .so therefore cannot follow edits).

Handled constructs (all that occur in geometry.pyx / downsampling.pyx):
cimport / ctypedef / ``cnp.import_array()`` lines, ``cdef <type> name = expr``,
bare ``cdef <type> name`` declarations, typed-memoryview declarations
``cdef uint32[:] v = expr``, ``cdef inline <type> f(<typed args>) nogil:``
signatures, ``with nogil:`` blocks, ``<type>`` casts are not present.
The translation is validated on every run against the compiled extension
on concrete vectors (see the harnesses' validate()).
"""
import re

_TYPES = r"(?:unsigned\s+char|unsigned\s+int|Py_ssize_t|double|float|int64|" \
         r"uint8|uint32|int|long|bint|char|void|cnp\.\w+)"


def strip_pyx(src):
    out = []
    lines = src.split("\n")
    i = 0
    while i < len(lines):
        ln = lines[i]
        s = ln.strip()
        if s.startswith("#cython:"):
            i += 1
            continue
        if re.match(r"^(cimport|from\s+\S+\s+cimport|ctypedef)\b", s) or \
                s == "cnp.import_array()":
            i += 1
            continue
        # function signature: cdef [inline] type name(args) [nogil]:
        m = re.match(r"^(\s*)c?p?def\s+(?:inline\s+)?(?:%s\s+)?(\w+)\s*\(" %
                     _TYPES, ln)
        if m and s.startswith(("cdef", "cpdef")):
            # collect until the line ending with ':'
            sig = ln
            while not re.search(r"\)\s*(nogil)?\s*:\s*$", sig):
                i += 1
                sig += " " + lines[i].strip()
            indent, name = m.group(1), m.group(2)
            args = sig[sig.index("(") + 1:sig.rindex(")")]
            names = []
            for a in args.split(","):
                a = a.strip()
                if not a:
                    continue
                a = a.split("=")[0].strip()
                names.append(re.sub(r"[\*\[\]:,]", "", a.split()[-1]))
            out.append("%sdef %s(%s):" % (indent, name, ", ".join(names)))
            i += 1
            continue
        # cdef declarations
        m = re.match(r"^(\s*)cdef\s+%s(?:\s*\[[^\]]*\])?\s*\*?\s*(\w+)\s*"
                     r"(=\s*(.*))?$" % _TYPES, ln)
        if m:
            indent, name, _, expr = m.groups()
            if expr is not None:
                out.append("%s%s = %s" % (indent, name, expr))
            i += 1
            continue
        if re.match(r"^\s*with\s+nogil\s*:\s*$", ln):
            out.append(re.sub(r"with\s+nogil", "if True", ln))
            i += 1
            continue
        out.append(ln)
        i += 1
    return "\n".join(out)


def load_pyx(path, extra_globals=None, post_globals=None, name="pyx"):
    """exec the stripped source; ``post_globals`` are installed after the
    exec (the source's own ``import numpy as np`` would otherwise win)"""
    src = open(path).read()
    py = strip_pyx(src)
    ns = {"__name__": name}
    if extra_globals:
        ns.update(extra_globals)
    exec(compile(py, str(path) + ":stripped", "exec"), ns)
    if post_globals:
        ns.update(post_globals)
    return ns, py
