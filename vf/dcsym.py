"""Factories that re-bind dclab's real classes/functions to the symbolic shims
(``SymNP`` for numpy, ``symh5`` for h5py).  Always built from the *current*
source objects via ``common.real`` so that canary mutants and edits of /repo
are picked up."""
import contextlib
import types
import warnings

from . import symh5
from .common import real
from .symnp import SymNP
from .symx import rebind, rebind_class, smin, smax, srange

W = "dclab.rtdc_dataset.writer"


def _methods(module, clsname, names=None):
    import importlib
    mod = importlib.import_module(module)
    cls = getattr(mod, clsname)
    out = {}
    for k, v in cls.__dict__.items():
        if k in ("__dict__", "__weakref__"):
            continue
        if names is not None and k not in names:
            continue
        out[k] = real(module, clsname + "." + k) if isinstance(
            v, (types.FunctionType, staticmethod, classmethod, property)) \
            else v
    return out


def build_class(module, clsname, bases=(object,), names=None, extra=None,
                **glb):
    ns = {}
    for k, v in _methods(module, clsname, names).items():
        if isinstance(v, types.FunctionType):
            ns[k] = rebind(v, **glb)
        elif isinstance(v, staticmethod):
            ns[k] = staticmethod(rebind(v.__func__, **glb))
        elif isinstance(v, classmethod):
            ns[k] = classmethod(rebind(v.__func__, **glb))
        elif isinstance(v, property):
            ns[k] = property(rebind(v.fget, **glb) if v.fget else None,
                             rebind(v.fset, **glb) if v.fset else None,
                             rebind(v.fdel, **glb) if v.fdel else None)
        else:
            ns[k] = v
    if extra:
        ns.update(extra)
    return type(clsname + "_sym", bases, ns)


def sym_writer(np=None, **glb):
    """the real RTDCWriter over symh5 + SymNP"""
    np = np or SymNP()
    g = dict(h5py=symh5, np=np, range=srange, min=smin, max=smax)
    g.update(glb)
    return build_class(W, "RTDCWriter", **g)


@contextlib.contextmanager
def quiet():
    with warnings.catch_warnings():
        warnings.simplefilter("ignore")
        yield
