"""Factories that re-bind dclab's real classes/functions to the symbolic shims
(``SymNP`` for numpy, ``symh5`` for h5py).  Always built from the *current*
source objects via ``common.real`` so that canary mutants and edits of /repo
are picked up."""
import contextlib
import types
import warnings

from . import symh5
from .common import real
from .symnp import SymNP
from .symx import rebind, rebind_class, smin, smax, srange

W = "dclab.rtdc_dataset.writer"


def _methods(module, clsname, names=None):
    import importlib
    mod = importlib.import_module(module)
    cls = getattr(mod, clsname)
    out = {}
    for k, v in cls.__dict__.items():
        if k in ("__dict__", "__weakref__"):
            continue
        if names is not None and k not in names:
            continue
        out[k] = real(module, clsname + "." + k) if isinstance(
            v, (types.FunctionType, staticmethod, classmethod, property)) \
            else v
    return out


def build_class(module, clsname, bases=(object,), names=None, extra=None,
                **glb):
    ns = {}
    for k, v in _methods(module, clsname, names).items():
        if isinstance(v, types.FunctionType):
            ns[k] = rebind(v, **glb)
        elif isinstance(v, staticmethod):
            ns[k] = staticmethod(rebind(v.__func__, **glb))
        elif isinstance(v, classmethod):
            ns[k] = classmethod(rebind(v.__func__, **glb))
        elif isinstance(v, property):
            ns[k] = property(rebind(v.fget, **glb) if v.fget else None,
                             rebind(v.fset, **glb) if v.fset else None,
                             rebind(v.fdel, **glb) if v.fdel else None)
        else:
            ns[k] = v
    if extra:
        ns.update(extra)
    return type(clsname + "_sym", bases, ns)


def sym_writer(np=None, **glb):
    """the real RTDCWriter over symh5 + SymNP"""
    np = np or SymNP()
    g = dict(h5py=symh5, np=np, range=srange, min=smin, max=smax)
    g.update(glb)
    return build_class(W, "RTDCWriter", **g)


@contextlib.contextmanager
def quiet():
    with warnings.catch_warnings():
        warnings.simplefilter("ignore")
        yield


def shadow(modname, **shims):
    """A shadow copy of a dclab module's namespace in which EVERY function
    and method defined in that module runs against the given shim globals
    (so module-level helpers called by the analysed function see the shims
    too).  Classes become subclasses of the real class with re-bound methods
    (keeps ``super()`` and ``isinstance`` working).  Returns the namespace
    dict; canary mutants registered in common._MUTANT are honoured."""
    import importlib
    mod = importlib.import_module(modname)
    g = dict(mod.__dict__)
    g.update(shims)
    for name, val in list(mod.__dict__.items()):
        if name in shims:
            continue
        if isinstance(val, types.FunctionType) and \
                val.__globals__ is mod.__dict__:
            src = real(modname, name)
            g[name] = _refunc(src, g)
        elif isinstance(val, type) and val.__module__ == modname:
            explicit_super = any(
                isinstance(v, types.FunctionType) and
                "super" in v.__code__.co_names and
                name in v.__code__.co_names
                for v in val.__dict__.values())
            cell = types.CellType()
            ns = {}
            for k, v in val.__dict__.items():
                if isinstance(v, (types.FunctionType, staticmethod,
                                  classmethod, property)):
                    try:
                        rv = real(modname, name + "." + k)
                    except Exception:
                        rv = v
                    ns[k] = _rewrap(rv, g, cell if explicit_super else None)
                elif explicit_super and k not in ("__dict__", "__weakref__"):
                    ns[k] = v
            if explicit_super:
                # `super(Name, self)` inside the methods must skip to the
                # REAL bases: rebuild the class with the same bases
                bases = tuple(g.get(b.__name__, b)
                              if (b.__module__ == modname or
                                  isinstance(shims.get(b.__name__), type))
                              else b for b in val.__bases__)
                newcls = type(val)(name, bases, ns)
            else:
                newcls = type(name, (val,), ns)
            cell.cell_contents = newcls
            g[name] = newcls
    return g


def _refunc(f, g, cell=None):
    closure = f.__closure__
    if cell is not None and closure and \
            "__class__" in f.__code__.co_freevars:
        closure = tuple(cell if n == "__class__" else c for n, c in
                        zip(f.__code__.co_freevars, closure))
    nf = types.FunctionType(f.__code__, g, f.__name__, f.__defaults__,
                            closure)
    nf.__kwdefaults__ = f.__kwdefaults__
    nf.__qualname__ = f.__qualname__
    return nf


def _rewrap(v, g, cell=None):
    if isinstance(v, types.FunctionType):
        return _refunc(v, g, cell)
    if isinstance(v, staticmethod):
        return staticmethod(_refunc(v.__func__, g, cell))
    if isinstance(v, classmethod):
        return classmethod(_refunc(v.__func__, g, cell))
    if isinstance(v, property):
        return property(_refunc(v.fget, g, cell) if v.fget else None,
                        _refunc(v.fset, g, cell) if v.fset else None,
                        _refunc(v.fdel, g, cell) if v.fdel else None)
    return v


def rewrite_str_methods(func, glb, module=None, qualname=None):
    """Re-compile ``func`` from its current source with calls of str methods
    on *literals* (``"_".join(x)``, ``"{}".format(x)``) routed through shim
    functions ``__sjoin__`` / ``__sformat__`` (a literal's method cannot be
    re-bound through globals).  Everything else is unchanged."""
    import ast
    import inspect
    import textwrap
    src = textwrap.dedent(inspect.getsource(func))
    from .common import _MUTANT
    if (module, qualname) in _MUTANT:
        old, new = _MUTANT[(module, qualname)]
        if src.count(old) != 1:
            raise RuntimeError("canary pattern %r occurs %d times" % (
                old, src.count(old)))
        src = src.replace(old, new)

    class T(ast.NodeTransformer):
        def visit_Call(self, node):
            self.generic_visit(node)
            f = node.func
            if isinstance(f, ast.Attribute) and isinstance(
                    f.value, ast.Constant) and isinstance(f.value.value, str) \
                    and f.attr in ("join", "format"):
                return ast.copy_location(ast.Call(
                    func=ast.Name(id="__s%s__" % f.attr, ctx=ast.Load()),
                    args=[f.value] + node.args, keywords=node.keywords), node)
            return node
    tree = T().visit(ast.parse(src))
    ast.fix_missing_locations(tree)
    # drop decorators
    tree.body[0].decorator_list = []
    ns = {}
    g = dict(func.__globals__)
    g.update(glb)
    from .symx import sformat, sjoin
    g.setdefault("__sjoin__", sjoin)
    g.setdefault("__sformat__", sformat)
    import __future__
    exec(compile(tree, inspect.getsourcefile(func) + ":rewritten", "exec",
                 flags=__future__.annotations.compiler_flag), g, ns)
    return ns[func.__name__]
