import argparse
import os
import sys

from . import common


def main():
    ap = argparse.ArgumentParser()
    ap.add_argument("pid", nargs="?")
    ap.add_argument("--tier", default=os.environ.get("VERIF_TIER", "quick"))
    ap.add_argument("--replay")
    ap.add_argument("--canaries", action="store_true")
    a = ap.parse_args()
    seed = int(os.environ.get("VERIF_SEED", "0") or 0)
    if a.replay:
        sys.exit(common.replay_file(a.replay))
    if a.tier not in ("quick", "thorough"):
        a.tier = "quick"
    sys.exit(common.main(a.pid.upper(), a.tier, seed,
                         only_canaries=a.canaries))


if __name__ == "__main__":
    main()
