"""symnp -- the subset of numpy the analysed dclab code needs, over symbolic
elements.  Arrays have a concrete shape on every path; elements are symbolic
(SFloat / SInt / SBool / opaque row tokens).  Anything outside the modelled
subset raises NotModelled (-> harness error, never a silent pass)."""
import numbers

import numpy as real_np
import z3

from .symx import (Engine, SBool, SFloat, SInt, SReal, NotModelled, ite,
                   tobool, toint)


class Tok:
    """opaque event payload (an image, a trace row, ...) with provenance"""
    __slots__ = ("src", "idx", "shape")

    def __init__(self, src, idx, shape=()):
        self.src, self.idx, self.shape = src, idx, tuple(shape)

    def __eq__(self, o):
        return isinstance(o, Tok) and (self.src, self.idx) == (o.src, o.idx)

    def __ne__(self, o):
        return not self.__eq__(o)

    def __hash__(self):
        return hash((self.src, self.idx))

    def __repr__(self):
        return "Tok(%s,%s)" % (self.src, self.idx)

    def __len__(self):
        if not self.shape:
            raise TypeError("len() of scalar token")
        return self.shape[0]

    @property
    def size(self):
        n = 1
        for k in self.shape:
            n *= k
        return n


def _conc_int(x):
    if isinstance(x, (SInt, SBool)):
        return Engine.cur.concretize(x)
    if x is None:
        return None
    return int(x)


def _is_sym(x):
    return isinstance(x, (SInt, SBool, SReal, SFloat))


class _Flags:
    def __init__(self, writeable=True):
        self.writeable = writeable


class _ViewList:
    """list-like window onto another element list (numpy basic-slice view)"""

    def __init__(self, base, idxs):
        self.base, self.idxs = base, list(idxs)

    def __len__(self):
        return len(self.idxs)

    def __iter__(self):
        return iter([self.base[i] for i in self.idxs])

    def __getitem__(self, k):
        if isinstance(k, slice):
            return [self.base[i] for i in self.idxs[k]]
        return self.base[self.idxs[k]]

    def __setitem__(self, k, v):
        if isinstance(k, slice):
            tgt = self.idxs[k]
            v = list(v)
            if len(v) != len(tgt):
                raise ValueError("view size cannot change")
            for i, x in zip(tgt, v):
                self.base[i] = x
        else:
            self.base[self.idxs[k]] = v

    def __add__(self, o):
        return list(self) + list(o)

    def __mul__(self, n):
        return list(self) * n

    def __eq__(self, o):
        return list(self) == list(o)


#: called with the result dtype whenever two arrays are multiplied in a
#: floating-point type narrower than 64 bit (values are exact reals in this
#: model, so the precision loss itself cannot be represented)
NARROW_FLOAT_HOOK = None


class SArr:
    """array with concrete length along axis 0 and symbolic elements"""
    __array_priority__ = 1000
    base = None

    def __init__(self, elems, dtype=float, item_shape=()):
        self.elems = list(elems)
        self.dtype = real_np.dtype(dtype)
        self.item_shape = tuple(item_shape)
        self.version = 0
        self.flags = _Flags()

    # ------------------------------------------------------------ geometry
    @property
    def shape(self):
        return (len(self.elems),) + self.item_shape

    @property
    def size(self):
        n = len(self.elems)
        for s in self.item_shape:
            n *= s
        return n

    @property
    def ndim(self):
        return 1 + len(self.item_shape)

    @property
    def nbytes(self):
        return self.size * self.dtype.itemsize

    def __len__(self):
        return len(self.elems)

    def __iter__(self):
        return iter(self.elems)

    def copy(self):
        return SArr(list(self.elems), self.dtype, self.item_shape)

    def view(self, *a):
        """alias: shares the element storage with ``self``"""
        if a:
            raise NotModelled("view with dtype")
        v = SArr.__new__(SArr)
        v.elems = self.elems
        v.dtype = self.dtype
        v.item_shape = self.item_shape
        v.version = 0
        v.flags = _Flags(self.flags.writeable)
        v.base = self if self.base is None else self.base
        return v

    def setflags(self, write=None, **kw):
        if write is not None:
            if write and self.base is not None and \
                    not self.base.flags.writeable:
                raise ValueError("cannot set WRITEABLE flag to True of this "
                                 "array")
            self.flags.writeable = bool(write)

    def reshape(self, *shape):
        if len(shape) == 1 and isinstance(shape[0], tuple):
            shape = shape[0]
        if tuple(shape) in ((len(self.elems),), (-1,)) and \
                not self.item_shape:
            return self.view()
        raise NotModelled("reshape %r" % (shape,))

    def shares_memory(self, other):
        a = self if self.base is None else self.base
        b = other if other.base is None else other.base
        return a is b

    def astype(self, dtype, copy=True):
        if not copy and real_np.dtype(dtype) == self.dtype:
            return self
        return SArr([_wrap_int(x, dtype) for x in self.elems], dtype,
                    self.item_shape)

    def tolist(self):
        return list(self.elems)

    def flatten(self):
        if self.item_shape:
            raise NotModelled("flatten nd")
        return self.copy()

    ravel = flatten

    def __array__(self, *a, **k):
        raise NotModelled("conversion of a symbolic array to real numpy")

    def __repr__(self):
        return "SArr(%r, %s)" % (self.elems[:8], self.dtype)

    # ------------------------------------------------------------ indexing
    def _norm_index(self, idx):
        """-> ('int', i) | ('list', [i...]) | ('mask', SArr)"""
        n = len(self.elems)
        if isinstance(idx, tuple):
            if len(idx) == 1:
                idx = idx[0]
            elif len(idx) - 1 <= len(self.item_shape) and all(
                    isinstance(x, slice) and x.step in (None, 1) and
                    x.start in (None, 0) and (x.stop is None or
                                              x.stop >= dim)
                    for x, dim in zip(idx[1:], self.item_shape)):
                idx = idx[0]        # trailing axes taken completely
            else:
                raise NotModelled("nd index %r" % (idx,))
        if idx is Ellipsis:
            return "list", list(range(n))
        if isinstance(idx, slice):
            start, stop, step = (_conc_int(idx.start), _conc_int(idx.stop),
                                 _conc_int(idx.step))
            return "list", list(range(*slice(start, stop, step).indices(n)))
        if isinstance(idx, (SInt, numbers.Integral)) and \
                not isinstance(idx, bool):
            i = _conc_int(idx)
            if i < -n or i >= n:
                raise IndexError("index %d is out of bounds for axis 0 with "
                                 "size %d" % (i, n))
            return "int", i % n if n else 0
        if isinstance(idx, real_np.ndarray):
            idx = SArr(list(idx), idx.dtype)
        if isinstance(idx, list):
            idx = SArr(idx, bool if idx and isinstance(
                idx[0], (bool, SBool)) else int)
        if isinstance(idx, SArr):
            if idx.dtype == bool:
                if len(idx) != n:
                    raise IndexError(
                        "boolean index did not match indexed array along "
                        "axis 0; size of axis is %d but size of corresponding"
                        " boolean axis is %d" % (n, len(idx)))
                return "mask", idx
            out = []
            for x in idx.elems:
                i = _conc_int(x)
                if i < -n or i >= n:
                    raise IndexError("index %d is out of bounds for axis 0 "
                                     "with size %d" % (i, n))
                out.append(i % n)
            return "list", out
        raise NotModelled("index of type %r" % type(idx))

    def __getitem__(self, idx):
        kind, v = self._norm_index(idx)
        if kind == "int":
            return self.elems[v]
        if kind == "list" and (isinstance(idx, slice) or idx is Ellipsis or (
                isinstance(idx, tuple) and isinstance(idx[0], slice))):
            # basic slicing: a VIEW that shares storage with self
            r = SArr.__new__(SArr)
            r.elems = _ViewList(self.elems, v)
            r.dtype = self.dtype
            r.item_shape = self.item_shape
            r.version = 0
            r.flags = _Flags(self.flags.writeable)
            r.base = self if self.base is None else self.base
            return r
        if kind == "list":
            return SArr([self.elems[i] for i in v], self.dtype,
                        self.item_shape)
        sel = [i for i, b in enumerate(v.elems) if _truth(b)]
        return SArr([self.elems[i] for i in sel], self.dtype, self.item_shape)

    def __setitem__(self, idx, val):
        if not self.flags.writeable:
            raise ValueError("assignment destination is read-only")
        kind, v = self._norm_index(idx)
        self.version += 1
        if kind == "int":
            self.elems[v] = self._cast(val)
            return
        if kind == "mask":
            if isinstance(val, (SArr, list, real_np.ndarray)) and \
                    _ndim(val) >= 1:
                sel = [i for i, b in enumerate(v.elems) if _truth(b)]
                vals = list(val)
                if len(vals) == 1:
                    vals = vals * len(sel)
                if len(vals) != len(sel):
                    raise ValueError(
                        "NumPy boolean array indexing assignment cannot "
                        "assign %d input values to the %d output values "
                        "where the mask is true" % (len(vals), len(sel)))
                for i, x in zip(sel, vals):
                    self.elems[i] = self._cast(x)
            else:
                # scalar broadcast under a symbolic mask: no forking
                for i, b in enumerate(v.elems):
                    self.elems[i] = _ite(b, self._cast(val), self.elems[i])
            return
        if isinstance(val, (SArr, list, tuple, real_np.ndarray)) and \
                _ndim(val) >= 1 and _ndim(val) == self.ndim:
            vals = list(val)
            if len(vals) == 1 and len(v) != 1:
                vals = vals * len(v)
            if len(vals) != len(v):
                raise ValueError("could not broadcast input array from shape "
                                 "(%d,) into shape (%d,)" % (len(vals),
                                                             len(v)))
            for i, x in zip(v, vals):
                self.elems[i] = self._cast(x)
        else:
            for i in v:
                self.elems[i] = self._cast(val)

    def _cast(self, x):
        if self.dtype == bool:
            if isinstance(x, (SBool, bool)):
                return x
            if isinstance(x, real_np.bool_):
                return bool(x)
            if isinstance(x, SInt):
                return SBool(x.e != 0)
            if isinstance(x, (int, float)):
                return bool(x)
        return x

    # --------------------------------------------------------- elementwise
    def _map(self, f, dtype=None):
        return SArr([f(x) for x in self.elems], dtype or self.dtype,
                    self.item_shape)

    def _map2(self, o, f, dtype=None):
        if isinstance(o, real_np.ndarray) and o.ndim == 0:
            o = o.item()
        if not isinstance(o, (SArr, list, tuple, real_np.ndarray, str)) \
                and not _is_sym(o) and hasattr(o, "__len__") and \
                hasattr(o, "__getitem__"):
            o = [o[i] for i in range(len(o))]      # generic sequence
        if isinstance(o, (SArr, list, tuple, real_np.ndarray)):
            ol = list(o)
            a = self.elems
            if len(ol) != len(a):
                if len(ol) == 1:
                    ol = ol * len(a)
                elif len(a) == 1:
                    a = a * len(ol)
                else:
                    raise ValueError(
                        "operands could not be broadcast together with "
                        "shapes (%d,) (%d,)" % (len(a), len(ol)))
            return SArr([f(x, y) for x, y in zip(a, ol)],
                        dtype or self.dtype, self.item_shape)
        return SArr([f(x, o) for x in self.elems], dtype or self.dtype,
                    self.item_shape)

    def _resdtype(self, o):
        od = getattr(o, "dtype", None)
        if od is None:
            if isinstance(o, (float, SFloat, SReal)):
                od = real_np.dtype(float)
            elif isinstance(o, (bool, SBool)):
                od = real_np.dtype(bool)
            else:
                od = real_np.dtype(int)
        return real_np.result_type(self.dtype, od)

    def __add__(s, o):
        return s._map2(o, lambda a, b: _num(a) + _num(b), s._resdtype(o))

    def __radd__(s, o):
        return s._map2(o, lambda a, b: _num(b) + _num(a), s._resdtype(o))

    def __sub__(s, o):
        return s._map2(o, lambda a, b: _num(a) - _num(b), s._resdtype(o))

    def __rsub__(s, o):
        return s._map2(o, lambda a, b: _num(b) - _num(a), s._resdtype(o))

    def __mul__(s, o):
        rd = s._resdtype(o)
        if NARROW_FLOAT_HOOK is not None and rd.kind == "f" and \
                rd.itemsize < 8:
            NARROW_FLOAT_HOOK(rd)
        return s._map2(o, lambda a, b: _num(a) * _num(b), rd)

    def __rmul__(s, o):
        return s._map2(o, lambda a, b: _num(b) * _num(a), s._resdtype(o))

    def __truediv__(s, o):
        return s._map2(o, lambda a, b: _fl(a) / _fl(b), float)

    def __rtruediv__(s, o):
        return s._map2(o, lambda a, b: _fl(b) / _fl(a), float)

    def __neg__(s):
        return s._map(lambda a: -a)

    def __pow__(s, k):
        if not isinstance(k, int) or k < 0 or k > 6:
            raise NotModelled("array ** %r" % (k,))

        def pw(a):
            a = _num(a)
            r = 1
            for _ in range(k):
                r = r * a
            return r
        return s._map(pw)

    def __abs__(s):
        return s._map(lambda a: abs(_num(a)))

    def __isub__(s, o):
        r = s.__sub__(o)
        s.elems[:] = r.elems
        s.version += 1
        return s

    def __iadd__(s, o):
        r = s.__add__(o)
        s.elems[:] = r.elems
        s.version += 1
        return s

    def __itruediv__(s, o):
        r = s.__truediv__(o)
        s.elems[:] = r.elems
        s.version += 1
        return s

    def __imul__(s, o):
        r = s.__mul__(o)
        s.elems[:] = r.elems
        s.version += 1
        return s

    def __lt__(s, o):
        return s._map2(o, lambda a, b: _cmp(a, b, "lt"), bool)

    def __le__(s, o):
        return s._map2(o, lambda a, b: _cmp(a, b, "le"), bool)

    def __gt__(s, o):
        return s._map2(o, lambda a, b: _cmp(a, b, "gt"), bool)

    def __ge__(s, o):
        return s._map2(o, lambda a, b: _cmp(a, b, "ge"), bool)

    def __eq__(s, o):
        return s._map2(o, lambda a, b: _cmp(a, b, "eq"), bool)

    def __ne__(s, o):
        return s._map2(o, lambda a, b: _cmp(a, b, "ne"), bool)

    __hash__ = None

    def __and__(s, o):
        return s._map2(o, _band, s.dtype)

    __rand__ = __and__

    def __or__(s, o):
        return s._map2(o, _bor, s.dtype)

    __ror__ = __or__

    def __invert__(s):
        if s.dtype != bool:
            raise NotModelled("~ on non-bool array")
        return s._map(_bnot)

    def __iand__(s, o):
        r = s.__and__(o)
        s.elems[:] = r.elems
        s.version += 1
        return s

    def __ior__(s, o):
        r = s.__or__(o)
        s.elems[:] = r.elems
        s.version += 1
        return s

    def __bool__(self):
        if len(self.elems) == 1:
            return _truth(self.elems[0])
        if len(self.elems) == 0:
            # numpy: DeprecationWarning, False
            return False
        raise ValueError("The truth value of an array with more than one "
                         "element is ambiguous. Use a.any() or a.all()")

    # ---------------------------------------------------------- reductions
    def sum(self, *a, **k):
        return sum_(self)

    def any(self):
        return SBool(z3.Or([tobool(_asb(x)) for x in self.elems])) \
            if self.elems else False

    def all(self):
        return SBool(z3.And([tobool(_asb(x)) for x in self.elems])) \
            if self.elems else True

    def min(self):
        return nanreduce(self.elems, "min", skipnan=False)

    def max(self):
        return nanreduce(self.elems, "max", skipnan=False)

    def mean(self):
        return nanreduce(self.elems, "mean", skipnan=False)


# -------------------------------------------------------------- helpers
#: opt-in (set by a harness): a cast of a symbolic float to a NARROWER float
#: type (float32 / float16) does not keep the value: it overflows to an
#: invalid value above the largest finite number of the target type,
#: underflows to zero and is rounded otherwise (relative error 2**-24 resp.
#: 2**-11).  Off by default: values pass through unchanged.
NARROW_FLOAT_CASTS = False
# (first magnitude that rounds to inf [round-to-nearest-even], relative
#  rounding error, largest magnitude that rounds to zero)
_FLT = {4: (2.0 ** 128 - 2.0 ** 103, 2.0 ** -24, 2.0 ** -150),
        2: (65520.0, 2.0 ** -11, 2.0 ** -25)}


def _narrow_float(x, dt):
    from fractions import Fraction
    import z3
    fmax, rel, sub = _FLT[dt.itemsize]
    x = SFloat.lift(x)
    ovf = z3.FreshBool("fovf")
    v = z3.FreshReal("fcast")
    ax = z3.If(x.v < 0, -x.v, x.v)
    q = lambda f: z3.RealVal(str(Fraction(f)))
    err = ax * q(rel) + q(sub)
    eng = Engine.cur
    eng.assume(SBool(ovf == (ax >= q(fmax))))
    eng.assume(SBool(z3.Implies(z3.Not(ovf), z3.And(
        v - x.v <= err, x.v - v <= err, (v == 0) == (ax <= q(sub)),
        z3.Implies(x.v >= 0, v >= 0), z3.Implies(x.v <= 0, v <= 0)))))
    return SFloat(z3.Or(x.nan, ovf), v)


def _wrap_int(x, dtype):
    """C-style wrap-around when an integer is cast to a NARROW integer type
    (8/16/32 bit); 64-bit targets and non-integers are left alone"""
    try:
        dt = real_np.dtype(dtype)
    except TypeError:
        return x
    if NARROW_FLOAT_CASTS and dt.kind == "f" and dt.itemsize < 8 and \
            isinstance(x, SFloat):
        return _narrow_float(x, dt)
    if dt.kind not in "iu" or dt.itemsize >= 8 or not isinstance(x, SInt):
        return x
    bits = 8 * dt.itemsize
    m = 2 ** bits
    if dt.kind == "u":
        return SInt(x.e % m)
    half = 2 ** (bits - 1)
    return SInt((x.e + half) % m - half)


def _ndim(v):
    if isinstance(v, SArr):
        return v.ndim
    if isinstance(v, real_np.ndarray):
        return v.ndim
    if isinstance(v, (list, tuple)):
        return 1 + (_ndim(v[0]) if v else 0)
    if isinstance(v, Tok):
        return len(v.shape)
    return 0


def _truth(b):
    if isinstance(b, (SBool, SInt, SFloat, SReal)):
        return bool(b)
    return bool(b)


def _asb(x):
    if isinstance(x, (SBool, bool)):
        return x
    if isinstance(x, real_np.bool_):
        return bool(x)
    if isinstance(x, SInt):
        return SBool(x.e != 0)
    if isinstance(x, SFloat):
        return SBool(z3.Or(x.nan, x.v != 0))
    return bool(x)


def _band(a, b):
    a, b = _asb(a), _asb(b)
    if isinstance(a, bool) and isinstance(b, bool):
        return a and b
    return SBool(z3.And(tobool(a), tobool(b)))


def _bor(a, b):
    a, b = _asb(a), _asb(b)
    if isinstance(a, bool) and isinstance(b, bool):
        return a or b
    return SBool(z3.Or(tobool(a), tobool(b)))


def _bnot(a):
    a = _asb(a)
    if isinstance(a, bool):
        return not a
    return SBool(z3.Not(tobool(a)))


def _ite(c, a, b):
    if isinstance(c, (bool, real_np.bool_)):
        return a if c else b
    if isinstance(a, Tok) or isinstance(b, Tok):
        return a if bool(c) else b
    return ite(c, a, b)


def _num(a):
    if isinstance(a, SBool):
        return SInt(z3.If(a.e, 1, 0))
    if isinstance(a, real_np.generic):
        return a.item()
    if isinstance(a, Tok):
        raise NotModelled("arithmetic on an opaque token")
    return a


def _fl(a):
    a = _num(a)
    if isinstance(a, (SInt, SReal)):
        return SFloat.lift(a)
    return a


def _cmp(a, b, op):
    a, b = _num(a), _num(b)
    if isinstance(a, SFloat) or isinstance(b, SFloat):
        a, b = SFloat.lift(a), SFloat.lift(b)
    elif isinstance(a, float) and a != a or isinstance(b, float) and b != b:
        return op == "ne"
    f = {"lt": lambda x, y: x < y, "le": lambda x, y: x <= y,
         "gt": lambda x, y: x > y, "ge": lambda x, y: x >= y,
         "eq": lambda x, y: x == y, "ne": lambda x, y: x != y}[op]
    return f(a, b)


def sum_(a, **kw):
    elems = list(a)
    if not elems:
        return 0
    if all(isinstance(x, (bool, SBool, real_np.bool_)) for x in elems):
        t = z3.IntVal(0)
        conc = 0
        sym = False
        for x in elems:
            if isinstance(x, SBool):
                t = t + z3.If(x.e, 1, 0)
                sym = True
            else:
                conc += int(bool(x))
        return SInt(t + conc) if sym else conc
    r = _num(elems[0])
    for x in elems[1:]:
        r = r + _num(x)
    return r


def nanreduce(elems, kind, skipnan=True):
    """NaN-ignoring (or propagating) min/max/mean over a list of elements.
    returns an SFloat (NaN iff all elements are NaN, resp. any if not skip)"""
    vals = [SFloat.lift(_num(v)) for v in elems]
    if not vals:
        raise ValueError("zero-size array to reduction operation %s which "
                         "has no identity" % kind)
    if skipnan:
        resnan = z3.And([v.nan for v in vals])
    else:
        resnan = z3.Or([v.nan for v in vals])
    if kind == "mean":
        if skipnan:
            cnt = z3.Sum([z3.If(v.nan, 0, 1) for v in vals])
            tot = z3.Sum([z3.If(v.nan, z3.RealVal(0), v.v) for v in vals])
            return SFloat(resnan, tot / z3.If(cnt == 0, z3.RealVal(1),
                                              z3.ToReal(cnt)))
        tot = z3.Sum([v.v for v in vals])
        return SFloat(resnan, tot / len(vals))
    r = None
    for v in vals:
        if r is None:
            r = (v.nan, v.v)
            continue
        rn, rv = r
        better = (v.v < rv) if kind == "min" else (v.v > rv)
        pick_v = z3.Or(rn, z3.And(z3.Not(v.nan), better))
        r = (z3.And(rn, v.nan), z3.If(pick_v, v.v, rv))
    return SFloat(resnan, r[1])


def spec_nan(vals, kind):
    """independent specification: NaN-ignoring min/max/mean as z3 terms
    -> (allnan: Bool, value: Real) with value constrained only if not allnan"""
    vals = [SFloat.lift(_num(v)) for v in vals]
    allnan = z3.And([v.nan for v in vals]) if vals else z3.BoolVal(True)
    return allnan, vals


# ------------------------------------------------------------- numpy shim
class _Over(dict):
    """override table of a SymNP instance: entries shadow class attributes"""

    def __init__(self, owner):
        dict.__init__(self)
        self.owner = owner

    def __setitem__(self, k, v):
        dict.__setitem__(self, k, v)
        object.__setattr__(self.owner, k, v)

    def pop(self, k, *d):
        r = dict.pop(self, k, *d)
        try:
            object.__delattr__(self.owner, k)
        except AttributeError:
            pass
        return r


class SymNP:
    """stands in for the ``np`` global of re-bound dclab functions"""

    def __init__(self, **over):
        # overrides must win over the class attributes of the same name
        object.__setattr__(self, "_over", _Over(self))
        for k, v in over.items():
            self._over[k] = v

    def __getattr__(self, k):
        if k in self._over:
            return self._over[k]
        attr = getattr(real_np, k)
        if callable(attr) and not isinstance(attr, type):
            def guarded(*a, **kw):
                for x in list(a) + list(kw.values()):
                    if isinstance(x, (SArr, SInt, SBool, SFloat, SReal, Tok)):
                        raise NotModelled("numpy.%s on symbolic data" % k)
                    if isinstance(x, (list, tuple)) and any(
                            isinstance(y, (SArr, SInt, SBool, SFloat, SReal,
                                           Tok)) for y in x):
                        raise NotModelled("numpy.%s on symbolic data" % k)
                return attr(*a, **kw)
            return guarded
        return attr

    ndarray = real_np.ndarray
    nan = real_np.nan
    inf = real_np.inf

    # constructors ----------------------------------------------------
    @staticmethod
    def atleast_2d(a):
        if not isinstance(a, (SArr, real_np.ndarray, list, tuple)) and \
                len(getattr(a, "shape", ())) >= 2:
            return a                      # array-like with >= 2 dimensions
        if isinstance(a, SArr):
            if a.item_shape:
                return a
            return SArr([Tok("row", 0, (len(a),))], a.dtype, (len(a),)) \
                if False else SArr([a], a.dtype, (len(a),))
        return real_np.atleast_2d(a)

    @staticmethod
    def asarray(a, dtype=None, *args, **kw):
        if _is_sym(a) and dtype is not None and \
                real_np.dtype(dtype) == bool:
            return _asb(a)
        if hasattr(a, "__symarray__"):
            a = a.__symarray__()
        if isinstance(a, (SArr, SMat)):
            if dtype is None or real_np.dtype(dtype) == a.dtype:
                return a                       # no copy (as numpy)
            return a.astype(dtype)
        if isinstance(a, (list, tuple)) and any(
                _is_sym(x) or isinstance(x, Tok) for x in a):
            return SArr(list(a), dtype or _guess_dtype(a))
        return real_np.asarray(a, dtype=dtype)

    @staticmethod
    def array(a, dtype=None, copy=True, *args, **kw):
        if hasattr(a, "src") and hasattr(a, "shape") and \
                not isinstance(a, real_np.ndarray):
            return a                      # opaque payload token
        if hasattr(a, "__symarray__"):
            a = a.__symarray__()
        if isinstance(a, (SArr, SMat)):
            if copy is False or copy is None:
                if dtype is None or real_np.dtype(dtype) == a.dtype:
                    return a
                return a.astype(dtype)
            r = a.copy()
            return r if dtype is None else r.astype(dtype)
        if isinstance(a, (list, tuple)) and any(
                _is_sym(x) or isinstance(x, Tok) for x in a):
            return SArr(list(a), dtype or _guess_dtype(a))
        if _is_sym(a):
            raise NotModelled("0-d symbolic array")
        return real_np.array(a, dtype=dtype, copy=copy)

    @staticmethod
    def ones(shape, dtype=float):
        n = shape if not isinstance(shape, tuple) else shape[0]
        n = _conc_int(n)
        one = True if real_np.dtype(dtype) == bool else 1
        return SArr([one] * n, dtype)

    @staticmethod
    def zeros(shape, dtype=float):
        n = shape if not isinstance(shape, tuple) else shape[0]
        n = _conc_int(n)
        z = False if real_np.dtype(dtype) == bool else 0
        return SArr([z] * n, dtype)

    @staticmethod
    def ones_like(a, dtype=None):
        dt = real_np.dtype(dtype or a.dtype)
        return SArr([True if dt == bool else 1] * len(a), dt)

    @staticmethod
    def zeros_like(a, dtype=None):
        dt = real_np.dtype(dtype or a.dtype)
        return SArr([False if dt == bool else 0] * len(a), dt)

    @staticmethod
    def roll(a, k):
        e = list(a)
        k = k % len(e) if e else 0
        return SArr(e[-k:] + e[:-k] if k else e, a.dtype)

    @staticmethod
    def diff(a):
        e = list(a)
        return SArr([_num(y) - _num(x) for x, y in zip(e, e[1:])],
                    getattr(a, "dtype", float))

    @staticmethod
    def resize(a, n):
        if isinstance(a, SMat) and isinstance(n, tuple):
            if n[1] != a.ncols:
                raise NotModelled("resize with another column count")
            return SMat([list(a.rows[i % len(a.rows)])
                         for i in range(_conc_int(n[0]))], a.dtype)
        e = list(a)
        n = _conc_int(n)
        out = [e[i % len(e)] for i in range(n)]
        return SArr(out, getattr(a, "dtype", float))

    @staticmethod
    def copy(a):
        return a.copy()

    @staticmethod
    def atleast_1d(a):
        if isinstance(a, (SArr, SMat)):
            return a
        if _is_sym(a):
            return SArr([a], float)
        return real_np.atleast_1d(a)

    pi = real_np.pi

    @staticmethod
    def full(shape, fill, dtype=float):
        n = shape if not isinstance(shape, tuple) else shape[0]
        return SArr([fill] * _conc_int(n), dtype)

    @staticmethod
    def shares_memory(a, b):
        if isinstance(a, SArr) and isinstance(b, SArr):
            return a.shares_memory(b)
        return real_np.shares_memory(a, b)

    @staticmethod
    def arange(*a, **kw):
        a = [_conc_int(x) for x in a]
        return SArr(list(range(*a)), kw.get("dtype", int))

    @staticmethod
    def concatenate(arrs, axis=0):
        out = []
        for x in arrs:
            out += list(x)
        a0 = arrs[0]
        return SArr(out, getattr(a0, "dtype", float),
                    getattr(a0, "item_shape", ()))

    # predicates / reductions -------------------------------------------
    @staticmethod
    def isin(a, b):
        bl = [_conc_int(x) for x in _elems(b)]
        return SArr([_conc_int(x) in bl for x in _elems(a)], bool)

    @staticmethod
    def isnan(a):
        if hasattr(a, "__symarray__"):
            a = a.__symarray__()
        if isinstance(a, SArr):
            return a._map(_isnan1, bool)
        if isinstance(a, (real_np.ndarray, list)):
            return SArr(list(a))._map(_isnan1, bool)
        return _isnan1(a)

    @staticmethod
    def isfinite(a):
        return ~SymNP.asarray(SymNP.isnan(a)) if isinstance(
            a, (SArr, list, real_np.ndarray)) else _bnot(_isnan1(a))

    @staticmethod
    def isinf(a):
        # +-inf is normally folded into the "invalid" (NaN) class; a harness
        # that needs the distinction attaches a z3 Bool `inf` to its values
        def one(x):
            f = getattr(x, "inf", None)
            return SBool(f) if f is not None else False
        if hasattr(a, "__symarray__"):
            a = a.__symarray__()
        if isinstance(a, SArr):
            return a._map(one, bool)
        return one(a)

    @staticmethod
    def sum(a, **kw):
        return sum_(a)

    @staticmethod
    def any(a, axis=None):
        if isinstance(a, SMat) and axis == 1:
            return SArr([SBool(z3.Or([tobool(_asb(v)) for v in r]))
                         for r in a.rows], bool)
        return SymNP.asarray(a).any() if not isinstance(a, (bool, SBool)) \
            else a

    @staticmethod
    def all(a):
        return SymNP.asarray(a).all() if not isinstance(a, (bool, SBool)) \
            else a

    @staticmethod
    def nanmin(a, *args, **kw):
        el = _elems(a)
        if isinstance(a, (list, tuple, real_np.ndarray)) and all(
                isinstance(x, (int, float, real_np.generic)) for x in el):
            return getattr(real_np, "nanmin")(a, *args, **kw)
        return nanreduce(el, "min")

    @staticmethod
    def nanmax(a, *args, **kw):
        el = _elems(a)
        if isinstance(a, (list, tuple, real_np.ndarray)) and all(
                isinstance(x, (int, float, real_np.generic)) for x in el):
            return getattr(real_np, "nanmax")(a, *args, **kw)
        return nanreduce(el, "max")

    @staticmethod
    def nanmean(a, *args, **kw):
        el = _elems(a)
        if isinstance(a, (list, tuple, real_np.ndarray)) and all(
                isinstance(x, (int, float, real_np.generic)) for x in el):
            return getattr(real_np, "nanmean")(a, *args, **kw)
        return nanreduce(el, "mean")

    @staticmethod
    def min(a, *args, **kw):
        el = _elems(a)
        if isinstance(a, (list, tuple, real_np.ndarray)) and all(
                isinstance(x, (int, float, real_np.generic)) for x in el):
            return getattr(real_np, "min")(a, *args, **kw)
        return nanreduce(el, "min", skipnan=False)

    @staticmethod
    def max(a, *args, **kw):
        el = _elems(a)
        if isinstance(a, (list, tuple, real_np.ndarray)) and all(
                isinstance(x, (int, float, real_np.generic)) for x in el):
            return getattr(real_np, "max")(a, *args, **kw)
        return nanreduce(el, "max", skipnan=False)

    @staticmethod
    def mean(a, *args, **kw):
        el = _elems(a)
        if isinstance(a, (list, tuple, real_np.ndarray)) and all(
                isinstance(x, (int, float, real_np.generic)) for x in el):
            return getattr(real_np, "mean")(a, *args, **kw)
        return nanreduce(el, "mean", skipnan=False)

    @staticmethod
    def where(c, *args):
        if args:
            a, b = args
            c = SymNP.asarray(c)
            al = list(a) if _ndim(a) else [a] * len(c)
            bl = list(b) if _ndim(b) else [b] * len(c)
            return SArr([_ite(_asb(x), y, z) for x, y, z in zip(c, al, bl)],
                        getattr(a, "dtype", float))
        idx = [i for i, b in enumerate(c) if _truth(_asb(b))]
        return (SArr(idx, int),)

    @staticmethod
    def _lex_sorted(items, key):
        """stable insertion sort by a tuple-valued key; every comparison is
        a fork of the exploration (small inputs only)"""
        def less(u, v):
            for a, b in zip(key(u), key(v)):
                if _truth(_asb(a < b)):
                    return True
                if _truth(_asb(b < a)):
                    return False
            return False
        out = []
        for it in items:
            k = len(out)
            while k > 0 and less(it, out[k - 1]):
                k -= 1
            out.insert(k, it)
        return out

    @staticmethod
    def sort(a, axis=-1):
        e = [(x,) for x in _elems(a)]
        return SArr([t[0] for t in SymNP._lex_sorted(e, lambda t: t)],
                    getattr(a, "dtype", float))

    @staticmethod
    def unique(a, axis=None, return_index=False):
        """np.unique for 1-D data and for the rows (axis=0) / columns
        (axis=1) of 2-D data: sorted, duplicates removed"""
        if isinstance(a, SMat):
            rows, dt = [list(r) for r in a.rows], a.dtype
        elif isinstance(a, (list, tuple)) and a and _ndim(a[0]) >= 1:
            rows, dt = [list(_elems(r)) for r in a], getattr(
                a[0], "dtype", real_np.dtype(float))
        else:
            rows, dt, axis = [[x] for x in _elems(a)], getattr(
                a, "dtype", real_np.dtype(float)), None
        if axis == 1:
            vecs = [tuple(r[j] for r in rows) for j in range(
                len(rows[0]) if rows else 0)]
        else:
            vecs = [tuple(r) for r in rows]
        srt = SymNP._lex_sorted(list(enumerate(vecs)), lambda t: t[1])
        keep = []
        for i, v in srt:
            if keep and all(_truth(_asb(x == y))
                            for x, y in zip(v, keep[-1][1])):
                continue
            keep.append((i, v))
        if axis == 1:
            res = SMat([[v[r] for _, v in keep] for r in range(len(rows))],
                       dt)
            res.ncols = len(keep)
        elif axis == 0:
            res = SMat([list(v) for _, v in keep], dt)
            if rows:
                res.ncols = len(rows[0])
        else:
            res = SArr([v[0] for _, v in keep], dt)
        if return_index:
            return res, SArr([i for i, _ in keep], int)
        return res

    @staticmethod
    def putmask(a, mask, values):
        # numpy: a.flat[n] = values[n % len(values)] wherever mask.flat[n]
        vl = list(values) if _ndim(values) else [values]
        ml = list(SymNP.asarray(mask))
        if len(ml) != len(a):
            raise ValueError("putmask: mask and data must be the same size")
        for n, m in enumerate(ml):
            if vl:
                a[n] = _ite(_asb(m), vl[n % len(vl)], a[n])

    @staticmethod
    def flatnonzero(a):
        return SymNP.where(SymNP.asarray(a))[0]

    @staticmethod
    def logical_and(a, b, out=None):
        r = SymNP.asarray(a) & b
        if out is not None:
            out[:] = r
            return out
        return r

    @staticmethod
    def logical_or(a, b, out=None):
        r = SymNP.asarray(a) | b
        if out is not None:
            out[:] = r
            return out
        return r

    @staticmethod
    def logical_not(a):
        return ~SymNP.asarray(a)

    @staticmethod
    def invert(a):
        return ~SymNP.asarray(a)

    @staticmethod
    def dtype(x):
        return real_np.dtype(x)

    @staticmethod
    def issubdtype(a, b):
        return real_np.issubdtype(a, b)

    @staticmethod
    def prod(a, axis=None, dtype=None, **kw):
        if isinstance(a, SMat) and a.dtype == bool and axis == 1:
            return SArr([SBool(z3.And([tobool(_asb(v)) for v in r]))
                         for r in a.rows], bool)
        if axis is None and dtype is None:
            return real_np.prod(a, **kw)
        return real_np.prod(a, axis=axis, dtype=dtype, **kw)

    @staticmethod
    def isscalar(x):
        if _is_sym(x):
            return True
        return real_np.isscalar(x)

    class int64(real_np.int64):
        def __new__(cls, x=0):
            return x if _is_sym(x) else real_np.int64(x)

    class float64(real_np.float64):
        def __new__(cls, x=0):
            return x if _is_sym(x) else real_np.float64(x)

    class uint32(real_np.uint32):
        def __new__(cls, x=0):
            return x if _is_sym(x) else real_np.uint32(x)

    @staticmethod
    def abs(x):
        if isinstance(x, SArr):
            return x._map(abs)
        return abs(x)


def _guess_dtype(a):
    if all(isinstance(x, (bool, SBool)) for x in a):
        return bool
    if all(isinstance(x, (int, SInt)) for x in a):
        return int
    return float


def _isnan1(x):
    if isinstance(x, SFloat):
        return SBool(x.nan)
    if isinstance(x, (SInt, SBool, SReal, int, Tok)):
        return False
    return bool(x != x)


def _elems(a):
    if hasattr(a, "__symarray__"):
        a = a.__symarray__()
    return list(a)


class _ColView:
    """list-like window onto column j of a row-list matrix"""

    def __init__(self, rows, j, idxs=None):
        self.rows, self.j = rows, j
        self.idxs = list(range(len(rows))) if idxs is None else list(idxs)

    def __len__(self):
        return len(self.idxs)

    def __iter__(self):
        return iter([self.rows[i][self.j] for i in self.idxs])

    def __getitem__(self, k):
        if isinstance(k, slice):
            return [self.rows[i][self.j] for i in self.idxs[k]]
        return self.rows[self.idxs[k]][self.j]

    def __setitem__(self, k, v):
        if isinstance(k, slice):
            tgt = self.idxs[k]
            v = list(v)
            if len(v) != len(tgt):
                raise ValueError("view size cannot change")
            for i, x in zip(tgt, v):
                self.rows[i][self.j] = x
        else:
            self.rows[self.idxs[k]][self.j] = v

    def __add__(self, o):
        return list(self) + list(o)

    def __mul__(self, n):
        return list(self) * n


class SMat:
    """2-D array (rows x cols) with symbolic entries, concrete shape"""
    __array_priority__ = 1000

    def __init__(self, rows, dtype=float):
        self.rows = [list(r) for r in rows]
        self.dtype = real_np.dtype(dtype)
        self.ncols = len(self.rows[0]) if self.rows else 2

    @property
    def shape(self):
        return (len(self.rows), self.ncols)

    ndim = 2

    @property
    def size(self):
        return len(self.rows) * self.ncols

    def __len__(self):
        return len(self.rows)

    def __iter__(self):
        return iter([SArr(r, self.dtype) for r in self.rows])

    def copy(self):
        return SMat(self.rows, self.dtype)

    def _reduce(self, kind, axis):
        from .symx import smax, smin
        f = smin if kind == "min" else smax
        if axis is None:
            return f([v for r in self.rows for v in r])
        if axis == 0:
            return SArr([f([r[j] for r in self.rows])
                         for j in range(len(self.rows[0]))], self.dtype)
        if axis == 1:
            return SArr([f(list(r)) for r in self.rows], self.dtype)
        raise NotModelled("axis %r" % (axis,))

    def min(self, axis=None):
        return self._reduce("min", axis)

    def max(self, axis=None):
        return self._reduce("max", axis)

    def _cmp2(self, o, op):
        if o is None or isinstance(o, (str, bytes)):
            return op == "ne"
        if not isinstance(o, (SMat, list, tuple, real_np.ndarray)):
            return NotImplemented
        orows = o.rows if isinstance(o, SMat) else [list(r) for r in o]
        if len(orows) != len(self.rows):
            raise ValueError("operands could not be broadcast together")
        return SMat([[_cmp(a, b, op) for a, b in zip(r1, r2)]
                     for r1, r2 in zip(self.rows, orows)], bool)

    def __eq__(self, o):
        return self._cmp2(o, "eq")

    def __ne__(self, o):
        return self._cmp2(o, "ne")

    __hash__ = None

    def astype(self, dtype, copy=True):
        return SMat(self.rows, dtype)

    def tolist(self):
        return [list(r) for r in self.rows]

    def _rowsel(self, idx):
        n = len(self.rows)
        if isinstance(idx, (SArr, list, real_np.ndarray)):
            return [_conc_int(i) % n for i in idx]
        if isinstance(idx, slice):
            return list(range(*slice(_conc_int(idx.start),
                                     _conc_int(idx.stop),
                                     _conc_int(idx.step)).indices(n)))
        i = _conc_int(idx)
        if i < -n or i >= n:
            raise IndexError("index %d is out of bounds for axis 0 with size"
                             " %d" % (i, n))
        return i % n

    def __getitem__(self, idx):
        if isinstance(idx, tuple):
            r, c = idx
            rs = self._rowsel(r)
            if isinstance(rs, list):
                if isinstance(c, slice):
                    cols = list(range(*c.indices(self.ncols)))
                    return SMat([[self.rows[i][j] for j in cols] for i in rs],
                                self.dtype)
                # a column: VIEW sharing storage with the matrix
                col = SArr.__new__(SArr)
                col.elems = _ColView(self.rows, _conc_int(c), rs)
                col.dtype = self.dtype
                col.item_shape = ()
                col.version = 0
                col.flags = _Flags()
                col.base = self
                return col
            if isinstance(c, slice):
                return SArr(self.rows[rs][c], self.dtype)
            return self.rows[rs][_conc_int(c)]
        if isinstance(idx, SArr) and idx.dtype == bool:
            if len(idx) != len(self.rows):
                raise IndexError("boolean index did not match")
            sel = [i for i, b in enumerate(idx.elems) if _truth(b)]
            m = SMat([self.rows[i] for i in sel], self.dtype)
            m.ncols = self.ncols
            return m
        rs = self._rowsel(idx)
        if isinstance(rs, list):
            return SMat([self.rows[i] for i in rs], self.dtype)
        return SArr(self.rows[rs], self.dtype)

    def __setitem__(self, idx, val):
        if isinstance(idx, tuple):
            r, c = idx
            rs = self._rowsel(r)
            if isinstance(rs, list) and not isinstance(c, slice):
                c = _conc_int(c)
                vals = list(val) if _ndim(val) else [val] * len(rs)
                if len(vals) != len(rs):
                    raise ValueError("could not broadcast input array from "
                                     "shape (%d,) into shape (%d,)" % (
                                         len(vals), len(rs)))
                for i, v in zip(rs, vals):
                    self.rows[i][c] = self._cast(v)
                return
            if not isinstance(rs, list) and not isinstance(c, slice):
                self.rows[rs][_conc_int(c)] = self._cast(val)
                return
        raise NotModelled("SMat assignment %r" % (idx,))

    def _cast(self, v):
        """numpy casts on assignment: a real stored into an integer matrix
        is truncated towards zero"""
        try:
            kind = real_np.dtype(self.dtype).kind
        except TypeError:
            return v
        if kind in "iu" and isinstance(v, (SReal, SFloat, float)):
            from .symx import toreal
            e = toreal(SFloat.lift(v).v if isinstance(v, SFloat) else v)
            return SInt(z3.If(e >= 0, z3.ToInt(e), -z3.ToInt(-e)))
        return v

    def __array__(self, *a, **k):
        raise NotModelled("conversion of a symbolic matrix to real numpy")


def _np_zeros(shape, dtype=float):
    if isinstance(shape, tuple) and len(shape) == 2:
        n, m = _conc_int(shape[0]), _conc_int(shape[1])
        z = False if real_np.dtype(dtype) == bool else 0
        return SMat([[z] * m for _ in range(n)], dtype)
    return SymNP._zeros1(shape, dtype)


SymNP._zeros1 = SymNP.zeros
SymNP.zeros = staticmethod(_np_zeros)
SymNP.empty = staticmethod(lambda shape, dtype=float, *a, **k:
                           _np_zeros(shape, dtype))


def _np_invert(a, out=None):
    r = ~SymNP.asarray(a)
    if out is not None:
        out.elems[:] = r.elems
        out.version += 1
        return out
    return r


SymNP.invert = staticmethod(_np_invert)


def _allclose(a, b, rtol=1e-05, atol=1e-08, equal_nan=False):
    from .symx import toreal
    if hasattr(a, "__symarray__"):
        a = a.__symarray__()
    if hasattr(b, "__symarray__"):
        b = b.__symarray__()
    al = list(a) if _ndim(a) else [a]
    bl = list(b) if _ndim(b) else [b]
    if len(al) != len(bl):
        if len(al) == 1:
            al = al * len(bl)
        elif len(bl) == 1:
            bl = bl * len(al)
        else:
            raise ValueError("operands could not be broadcast together")
    conds = []
    for x, y in zip(al, bl):
        if _ndim(x) or _ndim(y):
            conds.append(tobool(_asb(_allclose(x, y, rtol, atol))))
            continue
        if isinstance(x, Tok) or isinstance(y, Tok):
            conds.append(z3.BoolVal(bool(x == y)))
            continue
        xe, ye = toreal(_num(x)), toreal(_num(y))
        d = xe - ye
        ad = z3.If(d < 0, -d, d)
        ay = z3.If(ye < 0, -ye, ye)
        conds.append(ad <= toreal(atol) + toreal(rtol) * ay)
    return SBool(z3.And(conds)) if conds else True


SymNP.allclose = staticmethod(_allclose)
SymNP.array_equal = staticmethod(
    lambda a, b: _allclose(a, b, rtol=0, atol=0))
