"""Driver shared by all property harnesses: parallel case execution, replay of
counterexamples on the real code, known-findings lookup, evidence writing."""
import hashlib
import importlib
import inspect
import json
import multiprocessing
import os
import pathlib
import sys
import textwrap
import time
import traceback

VERIF = pathlib.Path(__file__).resolve().parent.parent
REPO = pathlib.Path(os.environ.get("VERIF_REPO", "/repo"))

EXIT_OK, EXIT_VIOLATION, EXIT_HARNESS = 0, 1, 3
#: replays per (case, obligation) with one classification before further
#: models of that class are counted without an individual replay
REPLAYS_PER_CLASS = 3

# ------------------------------------------------------------ real code
_MUTANT = {}  # (module, qualname) -> (old, new)


def real(module, qualname):
    """The real dclab object ``module:qualname`` compiled from /repo's
    current source (or its canary mutant while a canary run is active)."""
    mod = importlib.import_module(module)
    obj = mod
    for part in qualname.split("."):
        obj = obj.__dict__[part] if isinstance(obj, type) else getattr(obj, part)
    key = (module, qualname)
    if key in _MUTANT:
        old, new = _MUTANT[key]
        return mutated(obj, old, new)
    return obj


def mutated(func, old, new):
    wrap = None
    if isinstance(func, staticmethod):
        wrap, func = staticmethod, func.__func__
    elif isinstance(func, classmethod):
        wrap, func = classmethod, func.__func__
    elif isinstance(func, property):
        return property(mutated(func.fget, old, new), func.fset, func.fdel)
    src = textwrap.dedent(inspect.getsource(func))
    # strip decorators
    lines = src.split("\n")
    while lines and lines[0].lstrip().startswith("@"):
        lines.pop(0)
    src = "\n".join(lines)
    if src.count(old) != 1:
        raise RuntimeError("canary pattern %r occurs %d times in %s" % (
            old, src.count(old), func.__qualname__))
    src2 = src.replace(old, new)
    ns = {}
    g = dict(func.__globals__)
    exec(compile(src2, "<canary:%s>" % func.__qualname__, "exec"), g, ns)
    f = ns[func.__name__]
    f.__qualname__ = func.__qualname__
    return wrap(f) if wrap else f


def source_fingerprint(funcs):
    """[(module, qualname)] -> list of 'file:qualname:sha256[:12]'"""
    out = []
    for module, qualname in funcs:
        try:
            obj = real(module, qualname)
            if isinstance(obj, (staticmethod, classmethod)):
                obj = obj.__func__
            if isinstance(obj, property):
                obj = obj.fget
            src = inspect.getsource(obj)
            fn = inspect.getsourcefile(obj)
            h = hashlib.sha256(src.encode()).hexdigest()[:12]
            out.append("%s:%s:%s" % (os.path.relpath(fn, REPO), qualname, h))
        except Exception as e:  # .pyx etc.
            out.append("%s:%s:<%s>" % (module, qualname, type(e).__name__))
    return out


def file_fingerprint(relpaths):
    out = []
    for rp in relpaths:
        p = REPO / rp
        out.append("%s:sha256:%s" % (rp, hashlib.sha256(
            p.read_bytes()).hexdigest()[:12]))
    return out


# -------------------------------------------------------------- findings
def load_known():
    p = VERIF / "known_findings.json"
    if not p.exists():
        return {"findings": [], "fixed": []}
    return json.loads(p.read_text())


# ------------------------------------------------------------- case pool
def _worker(args):
    modname, name, params, mutant = args
    t0 = time.time()
    try:
        mod = importlib.import_module(modname)
        _MUTANT.clear()
        if mutant:
            _MUTANT[(mutant["module"], mutant["qualname"])] = (
                mutant["old"], mutant["new"])
        st = mod.run_case(name, params)
        st = dict(st)
    except BaseException as e:
        st = {"fatal": "%r\n%s" % (e, traceback.format_exc()[-3000:])}
    finally:
        _MUTANT.clear()
    st["case"] = name
    st["params"] = params
    st["wall_s"] = round(time.time() - t0, 3)
    return st


_WARM = []


def _warm_up():
    """initialise z3 (and its tactics) once in the parent: forked workers
    inherit the initialised library instead of paying ~1.3 s each"""
    if _WARM:
        return
    try:                      # heavy imports once, before forking
        import dclab  # noqa: F401
        import dclab.cli  # noqa: F401
        import dclab.rtdc_dataset.writer  # noqa: F401
        import dclab.rtdc_dataset.fmt_hierarchy  # noqa: F401
        import dclab.kde_methods  # noqa: F401
        import scipy.interpolate  # noqa: F401
    except Exception:
        pass
    import z3
    x = z3.Real("warm_x")
    s = z3.Solver()
    s.add(x * x > 2)
    s.check()
    t = z3.Tactic("qfnra-nlsat").solver()
    t.add(x * x == 2)
    t.check()
    _WARM.append(1)


def _proc_main(conn, chunk):
    for idx, args in chunk:
        try:
            res = _worker(args)
        except BaseException as e:
            res = {"fatal": "worker failed: %r" % (e,), "case": args[1],
                   "params": args[2], "wall_s": 0}
        try:
            conn.send((idx, res))
        except Exception:
            break
    conn.close()


def run_cases(modname, cases, nproc=None, mutant=None, timeout=None):
    """cases are distributed in chunks over forked worker processes; every
    case has a hard wall-clock limit (a solver call that ignores its own
    time-out is killed; the remaining cases of its chunk are re-queued)"""
    nproc = nproc or min(16, os.cpu_count() or 1, max(1, len(cases)))
    if timeout is None:
        try:
            timeout = getattr(importlib.import_module(modname),
                              "CASE_TIMEOUT", 900)
        except Exception:
            timeout = 900
    args = [(modname, n, p, mutant) for n, p in cases]
    if len(cases) == 1 and nproc == 1:
        return [_worker(a) for a in args]
    _warm_up()
    ctx = multiprocessing.get_context("fork")
    csize = max(1, len(args) // (nproc * 4))
    items = list(enumerate(args))
    queue = [items[k:k + csize] for k in range(0, len(items), csize)]
    running = []
    results = [None] * len(args)
    while queue or running:
        while queue and len(running) < nproc:
            chunk = queue.pop(0)
            pc, cc = ctx.Pipe(duplex=False)
            pr = ctx.Process(target=_proc_main, args=(cc, chunk))
            pr.start()
            cc.close()
            running.append({"pr": pr, "pc": pc, "chunk": list(chunk),
                            "t": time.time()})
        progressed = False
        for r in list(running):
            try:
                while r["pc"].poll(0):
                    idx, res = r["pc"].recv()
                    results[idx] = res
                    r["chunk"] = [c for c in r["chunk"] if c[0] != idx]
                    r["t"] = time.time()
                    progressed = True
            except EOFError:
                pass
            if not r["chunk"]:
                r["pr"].join(2)
                r["pc"].close()
                running.remove(r)
                progressed = True
            elif not r["pr"].is_alive() and not r["pc"].poll(0.1):
                idx, a = r["chunk"].pop(0)
                results[idx] = {"fatal": "worker died (exit %s)" %
                                r["pr"].exitcode, "case": a[1],
                                "params": a[2], "wall_s": 0}
                if r["chunk"]:
                    queue.append(r["chunk"])
                r["pc"].close()
                running.remove(r)
                progressed = True
            elif time.time() - r["t"] > timeout:
                r["pr"].kill()
                r["pr"].join(2)
                idx, a = r["chunk"].pop(0)
                results[idx] = {"fatal": "case timed out after %d s (hard "
                                "limit)" % timeout, "case": a[1],
                                "params": a[2], "wall_s": timeout}
                if r["chunk"]:
                    queue.append(r["chunk"])
                r["pc"].close()
                running.remove(r)
                progressed = True
        if not progressed:
            time.sleep(0.02)
    return results


# ----------------------------------------------------------------- main
def jsonable(o):
    if isinstance(o, dict):
        return {str(k): jsonable(v) for k, v in o.items()}
    if isinstance(o, (list, tuple, set)):
        return [jsonable(v) for v in o]
    if isinstance(o, (str, int, bool)) or o is None:
        return o
    if isinstance(o, float):
        return o if o == o and abs(o) != float("inf") else repr(o)
    return repr(o)


def main(pid, tier, seed=0, only_canaries=False):
    t0 = time.time()
    modname = "harness." + pid.lower()
    mod = importlib.import_module(modname)
    cases = mod.cases(tier, seed)
    results = run_cases(modname, cases)
    agg = dict(paths=0, paths_assert=0, distinct=0, queries=0, solver=0.0,
               obligations=0, discharged=0, unknown=0, errors=0)
    fatal, unknown_list, err_list, samples, vacuous = [], [], [], [], []
    viol = []
    for st in results:
        if "fatal" in st:
            fatal.append((st["case"], st["fatal"]))
            continue
        agg["paths"] += st["paths"]
        agg["paths_assert"] += st["paths_reaching_assert"]
        agg["distinct"] += st["distinct_nontrivial"]
        agg["queries"] += st["queries"]
        agg["solver"] += st["solver_time_s"]
        agg["obligations"] += st["obligations"]
        agg["discharged"] += st["discharged"]
        agg["unknown"] += st["n_unknown"]
        agg["errors"] += st["n_errors"]
        if st["pathlimit"]:
            fatal.append((st["case"], "path limit reached: work list not "
                          "exhausted"))
        if st["paths_reaching_assert"] == 0 and not st.get("allow_vacuous"):
            vacuous.append(st["case"])
        for u in st["unknown"]:
            unknown_list.append({"case": st["case"], **u})
        for e in st["errors"]:
            err_list.append({"case": st["case"], **e})
        for s in st["samples"][:2]:
            if len(samples) < 12:
                samples.append({"case": st["case"], "params": st["params"],
                                **s})
        for v in st["violations"]:
            viol.append((st["case"], st["params"], v))

    # ---------------------------------------------- replay on the real code
    known = load_known()
    known_keys = {(f["property"], f["key"]): f for f in known["findings"]
                  if f["property"] == pid}
    replayed, reported_known, new_viol, spurious = 0, {}, [], []
    rcache = {}
    confirmed, not_replayed = {}, 0
    for case, params, v in viol:
        try:
            sig = json.dumps([case, v["what"], jsonable(v.get("values")),
                              jsonable(v.get("info"))], sort_keys=True)
        except Exception:
            sig = None
        cls = (case, v["what"])
        if sig is not None and sig in rcache:
            rr = rcache[sig]
        elif len(confirmed.get(cls, [])) >= REPLAYS_PER_CLASS:
            # the same obligation of the same case already reproduced
            # several times with one classification: further models of it
            # are counted with that class, not replayed one by one
            rr = dict(confirmed[cls][-1], detail=confirmed[cls][-1][
                "detail"] + " [further model of the same case/obligation, "
                "not replayed individually]")
            not_replayed += 1
        else:
            try:
                rr = mod.replay(case, params, v)
            except Exception as e:
                rr = {"reproduced": False, "key": "replay-error",
                      "detail": "replay raised %r\n%s" % (
                          e, traceback.format_exc()[-2000:])}
            replayed += 1
            if sig is not None:
                rcache[sig] = rr
            if rr["reproduced"]:
                lst = confirmed.setdefault(cls, [])
                if not lst or lst[-1]["key"] == rr["key"]:
                    lst.append(rr)
                else:
                    confirmed[cls] = []
        if not rr["reproduced"]:
            spurious.append({"case": case, "what": v["what"],
                             "values": v.get("values"), "info": v.get("info"),
                             "detail": rr.get("detail"),
                             "tb": v.get("tb")})
            continue
        key = rr["key"]
        if (pid, key) in known_keys:
            reported_known.setdefault(key, {"n": 0, "detail": rr["detail"]})
            reported_known[key]["n"] += 1
        else:
            new_viol.append({"case": case, "params": params, "key": key,
                             "what": v["what"], "values": v.get("values"),
                             "info": v.get("info"), "detail": rr["detail"],
                             "replay": rr.get("replay")})

    # ------------------------------------------------- stub validation pass
    val = {"traces": 0, "mismatches": []}
    if hasattr(mod, "validate"):
        try:
            val = mod.validate(tier, seed)
        except Exception as e:
            val = {"traces": 0, "mismatches": [
                "validate raised %r %s" % (e, traceback.format_exc()[-1500:])]}

    # -------------------------------------------------------------- canaries
    can_total = can_det = 0
    can_detail = []
    if hasattr(mod, "CANARIES") and (tier == "thorough" or only_canaries or
                                     os.environ.get("VERIF_CANARIES")):
        for c in mod.CANARIES:
            can_total += 1
            ccases = mod.cases("quick", seed)
            if "cases" in c:
                ccases = [x for x in ccases if x[0] in c["cases"]] or ccases
            try:
                cres = run_cases(modname, ccases, mutant=c)
                nv = sum(len(st.get("violations", [])) for st in cres)
                nf = [st["fatal"][:300] for st in cres if "fatal" in st]
            except Exception as e:
                nv, nf = 0, [repr(e)]
            det = nv > 0
            can_det += det
            can_detail.append({"name": c["name"], "detected": det,
                               "violations": nv, "fatal": nf[:1]})

    # -------------------------------------------------------------- verdict
    rdir = VERIF / "replays"
    lines = []
    for key, d in sorted(reported_known.items()):
        lines.append("KNOWN-FINDING: property=%s %s (%d counterexample(s); "
                     "%s)" % (pid, key, d["n"], d["detail"][:200]))
    seen = set()
    for nv in new_viol:
        if nv["key"] in seen:
            continue
        seen.add(nv["key"])
        rdir.mkdir(exist_ok=True)
        h = hashlib.sha256(json.dumps(jsonable(nv), sort_keys=True)
                           .encode()).hexdigest()[:10]
        rp = rdir / ("%s_%s.json" % (pid, h))
        rp.write_text(json.dumps(jsonable({
            "property": pid, "case": nv["case"], "params": nv["params"],
            "violation": {"what": nv["what"], "values": nv["values"],
                          "info": nv["info"]},
            "key": nv["key"], "detail": nv["detail"]}), indent=1))
        lines.append("VIOLATION property=%s replay=%s" % (pid, rp))
        lines.append("  what: %s | %s" % (nv["key"], nv["detail"][:400]))
    harness_err = []
    if fatal:
        harness_err += ["fatal in case %s: %s" % f for f in fatal]
    if spurious:
        harness_err += ["counterexample did not reproduce on the real code "
                        "(encoding error): %s" % json.dumps(jsonable(s))[:1500]
                        for s in spurious[:5]]
    if agg["unknown"] and not getattr(mod, "ALLOW_UNKNOWN", False):
        harness_err += ["%d undecided solver queries, e.g. %s" % (
            agg["unknown"], json.dumps(jsonable(unknown_list[:2])))]
    if agg["errors"]:
        harness_err += ["%d NotModelled errors, e.g. %s" % (
            agg["errors"], json.dumps(jsonable(err_list[:2]))[:1500])]
    if vacuous:
        harness_err += ["vacuous cases (assertion never reached): %s" %
                        vacuous[:10]]
    if val["mismatches"]:
        harness_err += ["stub/encoding validation mismatch: %s" % m
                        for m in val["mismatches"][:5]]

    wall = time.time() - t0
    funcs = getattr(mod, "FUNCTIONS", [])
    ev = {
        "property_id": pid, "tier": tier, "seed": int(seed), "level": "other",
        "coverage": {
            "explanation": (
                "Bounded symbolic execution of the real dclab code objects "
                "(compiled from /repo's working tree, re-bound to symbolic "
                "shims) with z3 %s; each obligation is an SMT query "
                "'path condition AND NOT property' that must be unsat. "
                "Holds for ALL values inside the stated bounds, says nothing "
                "outside. " % _z3v()) + getattr(mod, "EXPLANATION", ""),
            "evaluations": agg["paths"],
            "distinct_nontrivial": agg["distinct"],
            "rule": "evaluations = feasible execution paths explored over all "
                    "cases; distinct_nontrivial = distinct path conditions "
                    "(decision sequences) with >= 1 symbolic decision that "
                    "reached an assertion",
            "samples": samples or [{"note": "no path finished"}],
            "obligations": agg["obligations"],
            "discharged": agg["discharged"],
            "checker_cmd": "./check %s --tier %s" % (pid, tier),
            "trusted_base": ["z3 %s" % _z3v(), "vf/symx.py engine",
                             "shims listed under stubs"],
            "traces_validated_against_impl": val["traces"],
            "cases": len(cases),
            "paths_reaching_assertion": agg["paths_assert"],
            "queries": agg["queries"],
            "solver_time_s": round(agg["solver"], 2),
            "unknown": agg["unknown"],
            "functions_encoded": source_fingerprint(funcs) +
            file_fingerprint(getattr(mod, "FILES", [])),
            "bounds": mod.BOUNDS.get(tier, mod.BOUNDS) if hasattr(
                mod, "BOUNDS") else {},
            "outside_claim": getattr(mod, "OUTSIDE", []),
            "stubs": getattr(mod, "STUBS", []),
            "counterexamples_replayed": replayed,
            "counterexamples_same_class_not_replayed": not_replayed,
            "known_findings_hit": sorted(reported_known),
            "canaries_total": can_total, "canaries_detected": can_det,
            "canaries": can_detail,
            "harness_errors": harness_err[:10],
            "exhaustive": False,
        },
        "assumptions": getattr(mod, "ASSUMPTIONS", []),
        "wall_s": round(wall, 2),
        "violations": len(seen),
    }
    edir = VERIF / "evidence"
    edir.mkdir(exist_ok=True)
    (edir / ("%s.json" % pid)).write_text(json.dumps(jsonable(ev), indent=1))

    for ln in lines:
        print(ln)
    print("%s %s: cases=%d paths=%d obligations=%d discharged=%d unknown=%d "
          "queries=%d solver=%.1fs wall=%.1fs replayed=%d known=%d new=%d "
          "validated=%d canaries=%d/%d" % (
              pid, tier, len(cases), agg["paths"], agg["obligations"],
              agg["discharged"], agg["unknown"], agg["queries"],
              agg["solver"], wall, replayed, len(reported_known), len(seen),
              val["traces"], can_det, can_total))
    for h in harness_err[:10]:
        print("HARNESS-ERROR:", h[:700])
    if seen:
        return EXIT_VIOLATION
    if harness_err:
        return EXIT_HARNESS
    return EXIT_OK


def _z3v():
    import z3
    return z3.get_version_string()


def replay_file(path):
    d = json.loads(pathlib.Path(path).read_text())
    mod = importlib.import_module("harness." + d["property"].lower())
    rr = mod.replay(d["case"], d["params"], d["violation"])
    print(json.dumps(jsonable(rr), indent=1))
    if rr["reproduced"]:
        print("VIOLATION property=%s replay=%s" % (d["property"], path))
        return EXIT_VIOLATION
    return EXIT_OK
