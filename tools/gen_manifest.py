#!/usr/bin/env python3
"""Generate /verif/MANIFEST.json from the table below (keeps it valid)."""
import json
import pathlib
import subprocess

VERIF = pathlib.Path(__file__).resolve().parent.parent

CLAIMS = {
    "C19": dict(
        text="Bounded symbolic execution of the real HTTPFile.read/"
             "read_range_cached/get_cache_chunk/seek/tell code objects over "
             "symbolic resource length, position, read size and seek offset, "
             "for every chunk_size/keep_chunks in the bound, (a) as one "
             "inductive step from an arbitrary valid cache pre-state and (b) "
             "as composed op sequences from the empty cache; z3 decides "
             "'returned segments == blob[p:min(p+n,L)]', the cache bound and "
             "the cache-content invariant on every path. Holds for all values "
             "in the bound; nothing is claimed outside it."
             ' Two file objects of one URL created by the real __init__ with different chunk sizes are independent.',
        note="Trusted: z3, the symx engine, the RFC 7233 model of the server "
             "(validated each run against the unmodified HTTPFile on concrete "
             "scenarios). Not covered: transport, h5py-over-HTTP equality.",
        technique="symbolic execution of the real Python code objects + z3 "
                  "(LIA), inductive step over cache states",
        ref="3/C19"),
}

CLAIMS["C20"] = dict(
    text="Bounded symbolic execution of the real write_ndarray scalar branch "
         "as ONE inductive append step from an arbitrary consistent "
         "pre-state (stored values real-or-NaN, summary attributes present "
         "or absent, writer re-opened or not) plus composed multi-call "
         "histories, the real H5ScalarEvent / ChildScalar summary readers "
         "and the summary-completion loop of the real rtdc_copy/h5ds_copy; "
         "z3 proves 'reported min/max/mean == NaN-ignoring min/max/mean of "
         "all stored values' (exact real arithmetic) on every path."
         ' The real store_feature in replace mode over a writer-written feature is included.',
    note="Trusted: z3, symx, the numpy/h5py shims (validated each run "
         "against real numpy/h5py on concrete histories). Floats are exact "
         "reals + NaN flag: rounding of the running mean, inf and integer "
         "overflow are outside the claim.",
    technique="symbolic execution of the real Python code objects + z3 "
              "(LRA/NRA with NaN flags), inductive append step",
    ref="3/C20")

CLAIMS["C15"] = dict(
    text="The current text of geometry.pyx:point_in_polygon (Cython "
         "declarations stripped, validated against the compiled extension "
         "each run) and the real PolygonFilter.filter with all helpers of "
         "polygon_filter.py are executed on exact-real symbolic polygons "
         "(all shapes up to the vertex bound) and query points off the "
         "boundary; nlsat proves on every path that the result equals an "
         "independently formulated even-odd oracle (upward ray, no division)"
         ", complemented when inverted, and that inputs are unmodified. "
         "The real PolygonFilter.save / _load run on symbolic name "
         "characters (1..3 printable ASCII), inversion flag and identifier: "
         "one or two filters written to one file are loaded back with equal "
         "name, axes, inversion, identifier and points."
         " Integer-typed x data with fractional y data (numpy's truncating assignment cast is modelled)."
         ' Polygons are built through the real constructor and _check_data.'
         ' The text round trip uses negative, tiny and huge coordinates.',
    note="Trusted: z3/nlsat, symx, the hand model of the 10-line "
         "_points_in_poly wrapper. Exact reals, not IEEE doubles; vertex "
         "count bounded; names with leading/trailing blanks or line breaks "
         "and the %.15e rendering of coordinates are outside.",
    technique="symbolic execution of stripped .pyx + real Python wrapper, "
              "z3 nlsat (QF_NRA) equivalence with an even-odd oracle",
    ref="3/C15")

CLAIMS["C16"] = dict(
    text="The current text of downsampling.pyx (downsample_rand, "
         "downsample_grid, populate_grid, valid; Cython declarations "
         "stripped) and the real RTDCBase.get_downsampled_scatter/"
         "_apply_scale are executed symbolically: (a) a cardinality "
         "abstraction of downsample_grid with UNBOUNDED symbolic sizes in "
         "which every np.random.choice precondition and every count claim is "
         "an SMT obligation, (b) concrete shapes N<=3(4) with symbolic "
         "values/NaN flags/filter bits/request size for subset, alignment, "
         "count and reproducibility. Two known findings (request larger than "
         "the data with remove_invalid=False) are reported as KNOWN-FINDING.",
    note="Trusted: z3, symx, numpy shim, the contracts of np.random.choice "
         "and populate_grid/norm inside downsample_grid (populate_grid's loop "
         "is checked separately on a 2x2 grid). The compiled extension cannot "
         "be rebuilt here: the .pyx text is analysed, counterexamples are "
         "replayed on both source and binary.",
    technique="symbolic execution of stripped .pyx and real Python + z3 "
              "(LIA cardinality abstraction with unbounded sizes; bounded "
              "element-wise encoding)",
    ref="3/C16")

CLAIMS["C03"] = dict(
    text="Inductive step over the real Filter class (shadow of filter.py: "
         "__init__, reset, update, _init_rtdc_ds, __getitem__, array "
         "helpers) and the current downsample_rand source: the pre-state "
         "(previous settings, cached per-feature box arrays, cached polygon "
         "results, manual array) is arbitrary subject to the representation "
         "invariant, the current settings are arbitrary (ranges present/"
         "absent/changed/reversed/equal, polygon filters added/removed/"
         "modified, flags, limit), data are reals-or-NaN; z3 proves "
         "filter.all == stateless specification and that the invariant is "
         "re-established, which covers setting histories of any length."
         " The real PolygonFilter.hash (which Filter.update uses to detect edits) is proved to differ whenever axes, points or the inversion flag differ."
         ' The dataset stub separates available from loaded (computed) features.'
         ' The real Filter.reset() between two applications is part of the histories; the pre-state carries the invalid-events array of the previous application.',
    note="Trusted: z3, symx, numpy shim, stubs for the dataset/config/"
         "PolygonFilter objects (polygon classification is an uninterpreted "
         "boolean per (filter, version, event); C15 covers it). Bounds: 2 "
         "(3) events, 2 ranged features, <= 2 polygon filters.",
    technique="symbolic execution of the real Python code objects + z3, "
              "one inductive step from an arbitrary invariant-satisfying "
              "state",
    ref="3/C03")

CLAIMS["C06"] = dict(
    text="The real RTDCBase.__getitem__/__contains__/"
         "_get_ancillary_feature_data, AncillaryFeature.is_available/hash/"
         "compute and all registered core compute methods run on a real "
         "RTDC_Dict dataset whose configuration values are symbolic reals; "
         "histories 'read, edit one key (new arbitrary value / delete / "
         "add), test availability, read' are explored for every presence "
         "pattern of the emodulus keys and every key of every other core "
         "recipe. The real cache-hit branch is taken under the symbolic "
         "condition 'stored hash == current hash' (md5 injective) and z3 "
         "decides whether the cached arguments can differ from those a fresh "
         "dataset uses (2-safety), plus availability <=> reading succeeds "
         "and the documented scenario precedence. Three deliberate sanity "
         "checks are reported as KNOWN-FINDING."
         " Histories also set / replace temporary features (ml_class from temporary ml_score features, emodulus with a temporary temp feature) and check the documented precedence of the temperature sources."
         " `ds.features` must agree with `feat in ds`."
         ' A plug-in whose recipe lists one configuration section in two entries is included.',
    note="Trusted: z3, symx, md5-injectivity stub, uninterpreted numeric "
         "kernels (crosstalk inversion is modelled exactly). Feature data "
         "are constant; plugin/ML features and hierarchy children are "
         "outside the claim.",
    technique="symbolic execution of the real Python objects with symbolic "
              "configuration values + z3 (2-safety / self-composition over "
              "cache hits)",
    ref="3/C06")

CLAIMS["C14"] = dict(
    text="The real basin machinery (shadow of core.py: basins_retrieve, "
         "basins, features_basin, ignore_basins, _get_basin_feature_data, "
         "__getitem__/__contains__; shadow of feat_basin.py: Basin.__init__/"
         "ds/features/verify_basin/get_feature_data/load_dataset, BasinProxy) "
         "runs over a stub universe of files in which the basin reference "
         "graph (incl. self references and cycles), target formats, "
         "availability and run identifiers are symbolic decisions explored "
         "exhaustively by the engine; every scenario is checked for "
         "termination (opening budget), identity (offered feature => chain of "
         "matching, available, permitted hops), isolation (no file-type basin "
         "below a remote dataset), completeness for a direct valid basin and "
         "absence of escaping exceptions."
         " The permission flag is the one the real RTDC_HDF5.__init__ assigns per format name; basin definitions whose declared type contradicts the class of their format must not be followed."
         " A basin definition with two candidate locations resolves to the first location holding a matching, available file."
         ' File-basin availability runs the real HDF5Basin.is_available over a two-step history (basin file present or absent at each opening).',
    note="Trusted: symx, the stub dataset/basin subclasses (format, "
         "availability, _load_dataset). Bounds: 3 (4) files, identifiers "
         "from 6 relation classes. The deciding step here is exhaustive "
         "path exploration steered by z3 feasibility over boolean decision "
         "variables; all assertions are concrete per path.",
    technique="symbolic execution (solver-steered exhaustive exploration of "
              "boolean configuration variables) of the real Python code",
    ref="3/C14")

CLAIMS["C17"] = dict(
    text="(i) The real Cache.__call__/_update_hash build the memoisation key "
         "for two calls whose array arguments have SYMBOLIC raw bytes (dtype/"
         "shape/contiguity/kind enumerated); with md5 injective on the "
         "concatenated updates, the real dict lookup decides hit/miss under a "
         "symbolic key equality and z3 proves 'hit => same arguments'. (ii) "
         "One FIFO step from an arbitrary valid cache state with symbolic "
         "MAX_SIZE. (iii) The real H5ScalarEvent/ChildScalar/"
         "BasinProxyFeature access paths and the ignore_nan_inf wrapper over "
         "a numpy shim with view/alias semantics: an in-place write to a "
         "result must not change later reads. (iv) LazyContourList index "
         "alignment for symbolic access sequences. (v) key of the file-stat "
         "lru cache."
         " An array argument of symbolic length (0..20000): the byte ranges fed to the hash tile the whole array.",
    note="Trusted: z3, symx, numpy shim aliasing model, md5 injectivity; "
         "functools.lru_cache is modelled as a dict over all arguments. "
         "Bounds as listed in the evidence.",
    technique="symbolic execution of the real Python code objects + z3 (LIA "
              "over symbolic bytes; aliasing via shared-storage shim)",
    ref="3/C17")

CLAIMS["C10"] = dict(
    text="The real bodies of the six CLI tasks and setup_task_paths (shadow "
         "modules) run over a file-system model in which every effectful "
         "operation (unlink, rename, open, write/group/attribute creation, "
         "copy, close) is a numbered fault point and the fault index is a "
         "symbolic integer: for every feasible fault position and both fault "
         "kinds (OSError / kill before the operation) the engine checks that "
         "each requested output path is absent or complete and that inputs "
         "are never unlinked, renamed over, truncated, written or opened "
         "writable (also when the output path aliases an input)."
         " Output paths may hold an unloadable leftover before the task starts; exports may emit warnings (split writes a warnings log)."
         ' Paths have a spelling and a file identity (output given as another spelling of the input); whole-file copy operations and already-compressed inputs are modelled.',
    note="Trusted: symx, the file-system model and the recording stubs for "
         "h5py.File, RTDCWriter, new_dataset/export, rtdc_copy (each performs "
         "a fixed number of numbered writes on the handle it was given; "
         "RTDCWriter.__exit__ = 2 writes + close). Counterexamples are "
         "replayed on real files with faults injected into h5py/pathlib in a "
         "forked child.",
    technique="symbolic execution of the real task bodies over a file-system "
              "model with a symbolic fault index (solver-enumerated crash "
              "points)",
    ref="3/C10")

CLAIMS["C09"] = dict(
    text="The real bodies of task_split.split and task_join.join run over "
         "recording stubs. split: symbolic split size for every N in the "
         "bound; z3 proves the windows partition 0..N-1 in order with at most "
         "the requested size. join: acquisition day/hour/minute/second and "
         "optional fractional-second digits are symbolic characters of "
         "symbolic strings, feature presence is symbolic; the real sort, the "
         "real feature-intersection loop and the real offset arithmetic are "
         "executed and z3 proves chronological order (ties stable), stored "
         "features == features available in every input, time/frame "
         "continued by the acquisition offset, logs of every source kept, no "
         "exception."
         ' Join inputs may store a non-rapid ancillary feature or only be able to compute it.'
         ' Every source carries a second, dclab-named log.',
    note="Trusted: z3, symx (SStr = per-path concrete length, symbolic "
         "characters), stubs for new_dataset/export/RTDCWriter, "
         "time.strptime/mktime linear in the parsed fields, round() and "
         "np.uint64 contracts; the literal `'_'.join` call (if present) is "
         "routed through a shim by an AST rewrite of the current source.",
    technique="symbolic execution of the real task bodies (symbolic strings "
              "as character-code vectors) + z3 (LIA/LRA)",
    ref="3/C09")

CLAIMS["C11"] = dict(
    text="(a) symx: the real meta_parse converters (shadow module, builtins "
         "float/int/bool routed to symbolic versions) are run on symbolic "
         "int/real/bool values for every key of the metadata tables plus "
         "online_filter pattern keys; z3 proves documented result type, "
         "idempotence, and that item assignment, update() and the "
         "constructor of the real ConfigurationDict store the same converted "
         "value under the lower-case key; fintlist on symbolic lists. "
         "(b) CrossHair conditions (real dclab code, symbolic short strings): "
         "string converters, unknown/empty/None rejection, text round trip "
         "of user keys, real RTDCWriter.store_metadata -> real "
         "RTDC_HDF5.parse_config round trip over the in-memory h5py "
         "stand-in. CrossHair conditions that time out are reported as "
         "undecided (obligations > discharged), never as success."
         " The real load_from_file runs on a text with symbolic letter case of section/key and symbolic digits; sequence-valued [user] metadata of length 1..3 survives the real writer / parse_config."
         " `Configuration(files=...)` rejects keys that are not defined for a section."
         " Explicit [fluorescence] channel count vs. the writer's automatic completion (real rectify_metadata) is included.",
    note="Trusted: z3, symx, CrossHair 0.0.110. Strings are bounded to 2-3 "
         "printable ASCII characters; numpy/bytes value representations and "
         "h5py attribute type changes are outside the claim. In the quick "
         "tier most CrossHair conditions end undecided within 40 s; they "
         "still act as counterexample finders (they found two defects).",
    technique="symbolic execution of the real Python code objects + z3; "
              "CrossHair (z3-backed symbolic execution) for string inputs",
    ref="3/C11")

CLAIMS["C18"] = dict(
    text="The real cont_moments_cv, vol_revolve, get_bright, get_bright_bc, "
         "get_bright_perc and correct_crosstalk/get_compensation_matrix run "
         "on exact-real symbolic inputs; z3 (nlsat) proves: second-order "
         "central moments are translation invariant and exchange under an "
         "axis swap; the volume of revolution flips sign with orientation and "
         "scales with the cube of the pixel size; brightness averages equal "
         "the mean of the (background-corrected) image under the mask and "
         "offsets (scalar, list, array, HDF5-like container) shift averages "
         "and percentiles one-to-one without raising; crosstalk correction "
         "inverts the modelled spill-over for every non-negative invertible "
         "matrix."
         " get_volume wrapper (>= 4 points give a volume; repeating a vertex changes nothing); remove_duplicates == removal of consecutive (circular) duplicates."
         " 16-bit gray values; wrap-around of narrow integer casts is modelled."
         ' Contours given as float32/float16: dtype-flow obligation that coordinate products are formed in 64 bit (numerical witness in the replay).'
         ' LazyContourList access histories (symbolic indices, cache of 1..2 contours) return the contour of the requested mask.',
    note="Trusted: z3/nlsat, symx, numpy shim (roll, diff, resize, symbolic "
         "3x3 inverse); np.std/np.percentile are uninterpreted. NOT covered "
         "(not encodable here, see not-applicable parts in DESIGN.md): "
         "marching-squares contour tracing / mask refill, rotation "
         "invariance of the principal ratio, convergence to analytic "
         "volumes, convex hull, floating-point rounding.",
    technique="symbolic execution of the real Python code objects + z3 "
              "nlsat (QF_NRA) over exact reals",
    ref="3/C18")

CLAIMS["C05"] = dict(
    text="The real get_emodulus (both computation routes), normalize, "
         "scale_feature/scale_area_um/scale_volume/scale_emodulus, "
         "get_pixelation_delta and load_lut run on an exact-real symbolic "
         "LUT (3..5 rows + metadata), symbolic events and set-up; "
         "scipy.interpolate.griddata, np.exp and get_viscosity are "
         "uninterpreted with explicit congruence. nlsat proves for every "
         "path that interpolation nodes = normalised LUT (all nodes, "
         "independent of the events), look-up point = (scaled area|volume, "
         "pixelation-corrected deformation), result factor = "
         "(Q/Q0)(eta/eta0)(L0/L)^3 for both routes (=> routes agree, events "
         "independent, proportional to eta and Q), invariance under a joint "
         "geometric rescaling, inputs and LUT unmodified, no state between "
         "calls."
         " The real viscosity models run on a symbolic per-event temperature array (exp / real powers as fresh reals): the caller's array is unchanged.",
    note="Trusted: z3/nlsat, symx, numpy shim with LUT column views, "
         "positive homogeneity of griddata in its values. NOT covered (not "
         "encodable): the interpolation inside griddata (Qhull) incl. 'NaN "
         "exactly outside the support', built-in LUT contents, viscosity "
         "formulas, floating-point rounding, extrapolate=True.",
    technique="symbolic execution of the real Python code objects + z3 "
              "nlsat (QF_NRA) with manually Ackermannised uninterpreted "
              "kernels",
    ref="3/C05")

CLAIMS["C01"] = dict(
    text="The real RTDCWriter (store_feature, write_ndarray, write_ragged, "
         "write_text, write_image_grayscale, store_log, rectify_metadata, "
         "get_best_nd_chunks) writes provenance tokens into the in-memory "
         "h5py stand-in and the real readers (H5Events, H5ContourEvent, "
         "H5MaskEvent) read them back: one append step onto a pre-existing "
         "dataset whose HDF5 chunk size is symbolic, call histories whose "
         "split points are symbolic (items sized so that the writer's own "
         "chunk size is 10), masks with symbolic pixels, contours with and "
         "without a re-opened writer, log lines with symbolic byte lengths "
         "appended to a log of symbolic width. z3 proves: stored sequence == "
         "previous ++ written, index 1..N as uint32, event count, mask "
         "255/0 round trip, contiguous contour keys, no truncated line."
         " Also: replace-mode sessions that store contours twice, log lines with symbolic character AND byte counts (multi-byte text)."
         " The `index` feature is an enumeration 1..N in append and replace mode."
         ' Logs are read back through the real H5Logs reader with symbolic leading/trailing white space per line.',
    note="Trusted: z3, symx, the h5py stand-in (validated each run against "
         "real h5py for the append loop). libhdf5 itself, value dtype "
         "casting, compound tables and unicode normalisation are outside.",
    technique="symbolic execution of the real Python code objects over an "
              "in-memory HDF5 model + z3 (LIA), provenance tokens",
    ref="3/C01")

CLAIMS["C02"] = dict(
    text="The real yield_filtered_array_stacks (array-like and event-wise "
         "routes), store_filtered_feature, the feature loop / length check / "
         "fast-path predicate of Export.hdf5 and the selection of Export.tsv "
         "run on top of the real RTDCWriter over the in-memory h5py "
         "stand-in. Event payloads are tokens src[i] with SYMBOLIC, strictly "
         "increasing selection indices i (k selected events straddling the "
         "export chunk size), so z3 proves 'stored sequence == source events "
         "at the selected indices, in order' as equalities of index terms; "
         "the dataset-level loop is run for every filter over 4 events, "
         "filtered or not, for hdf5/dict/hierarchy/tdms-like sources, with "
         "duplicate feature names and one shorter feature."
         ' Export onto a path that already holds an earlier export (override=True) is included.',
    note="Trusted: z3, symx, h5py stand-in, source/dataset stubs (an "
         "'event-wise' source stands for tdms/DCOR). np.savetxt formatting, "
         "fcs/avi export and real tdms readers are outside.",
    technique="symbolic execution of the real Python code objects + z3 (LIA) "
              "over symbolic selection indices, provenance tokens",
    ref="3/C02")

CLAIMS["C07"] = dict(
    text="The real BasinProxyFeature/BasinProxy access paths (int, slice "
         "with symbolic bounds, boolean mask, whole array, np.array; scalar "
         "and non-scalar; cache cold and warm) run on an origin of symbolic "
         "size with a basin map of SYMBOLIC indices; z3 proves "
         "referrer[q] == origin[map[q]] as equalities of index terms. The "
         "real RTDCWriter.store_basin is run against 0..3 existing basinmapN "
         "features with symbolic content (reuse only when equal, never "
         "overwrite). The basins branch of the real Export.hdf5 is run for "
         "every filter: the stored map equals the selected indices (identity "
         "basins) resp. the original symbolic map restricted to the selected "
         "events (mapped basins) - by induction the composed map of any "
         "export chain."
         " Exports of hierarchy children (depth 1..2): the stored basin map equals the root indices of the exported events; summaries offered by a mapped proxy must be those of the mapped events."
         ' Mapped basin features are also read with negative integer indices.'
         ' Upstream map values range up to 70000 (narrow integer casts wrap visibly).',
    note="Trusted: z3, symx, origin/dataset stubs, h5py stand-in. Path "
         "resolution, remote basins, identifier checks (C14) and the "
         "innate-over-basin lookup order are outside this check.",
    technique="symbolic execution of the real Python code objects + z3 (LIA) "
              "over symbolic index maps",
    ref="3/C07")

CLAIMS["C08"] = dict(
    text="The real rtdc_copy / h5ds_copy / basin_definition_copy / "
         "is_properly_compressed copy a source tree (built with the real "
         "RTDCWriter: scalar feature with symbolic values, image and trace "
         "tokens, logs, tables with attributes, 0..3 basin definitions incl. "
         "mapped and internal ones, optional empty / unknown features) whose "
         "per-dataset HDF5 chunk size and zstd level are SYMBOLIC, so both "
         "copy routes and the chunk-wise copy loop are explored; z3 proves "
         "the structural diff source/copy empty, the source untouched, "
         "summaries completed, copy(copy) == copy; variable-length logs with "
         "symbolic byte and character lengths are copied without truncation."
         " The real dclab-repack / dclab-compress task functions run with symbolic options over the in-memory files: only what an option strips may be missing."
         " Root attributes (incl. names with several ':') are compared as well.",
    note="Trusted: z3, symx, h5py stand-in (iter_chunks tiling, zstd filter "
         "report, h5o.copy = deep copy). dclab-tdms2rtdc is NOT covered "
         "(nptdms/imageio parsing is not encodable); real re-chunking / "
         "compression by libhdf5 and the command logs added by the CLI "
         "tasks are outside.",
    technique="symbolic execution of the real Python code objects over an "
              "in-memory HDF5 model + z3 (LIA/LRA), structural tree diff",
    ref="3/C08")

CLAIMS["C04"] = dict(
    text="The real RTDC_Hierarchy / HierarchyFilter / index mappers / "
         "Child* feature wrappers / Filter.update / set_temporary_feature run "
         "symbolically over a stub root dataset for bounded HISTORY "
         "SKELETONS (root filter, range filters and manual exclusions on any "
         "level, temporary features, root configuration change, refreshes); "
         "every operation argument is symbolic.  After every refresh z3 "
         "proves for every level: len(child) == #selected, every feature "
         "kind == parent restricted in order, manual array == complement of "
         "the ghost set of excluded ROOT events (incl. hidden ones coming "
         "back), child filter == manual & range."
         ' util.hashobj is a structural stand-in (nested lists of integers, boolean arrays, hashes).'
         ' Every refresh also observes the reported maximum of the temporary feature and converts a child scalar to float32 before reading it.',
    note="Trusted: z3, symx, numpy shim, root stub. Bounds: 3 (thorough 4) "
         "root events, depth 1..3 (thorough ..4), <= 9 (12) operations. "
         "Re-inclusion of excluded events and edits on a stale child are "
         "outside the claim.",
    technique="symbolic execution of the real Python code objects "
              "(path-forking, z3 LIA/LRA) over bounded symbolic histories + "
              "concrete replay with a plain-Python oracle",
    ref="3/C04")

CLAIMS["C13"] = dict(
    text="Real RTDCWriter (store_metadata, store_feature, "
         "write_image_grayscale, rectify_metadata) writes files with "
         "complete (also stale) metadata into the HDF5 model; 0, 1 or 2 "
         "corruptions with SYMBOLIC parameters (new feature length, event "
         "count, ROI size, index value, channel/laser/sample counts, laser "
         "power, set-up values; missing mandatory keys, unknown features, "
         "external link / virtual / external dataset) are applied; the real "
         "IntegrityChecker.check runs on a reader view; z3 proves on every "
         "path that the violation cues are exactly those an independent "
         "specification derives from the corrupted state, that the checker "
         "never crashes, and that the real rtdc_copy's output gets the same "
         "violations."
         " Dataset kinds include mask-only and fl3-only files."
         ' External data linked below a sub-group of /events is one of the corruptions.',
    note="Trusted: z3, symx, h5py stand-in, reader view (validated by "
         "replaying on real files with real h5py incl. external links). "
         "Only violations are specified (not alerts/info); tdms, ancillary "
         "features, CLI exit code mapping and h5repack are outside.",
    technique="symbolic execution of the real Python code objects "
              "(writer -> corruption -> checker) + z3 (LIA/LRA) against an "
              "independent specification; concrete replay on real HDF5",
    ref="3/C13")

CLAIMS["C12"] = dict(
    text="Real get_statistics / Statistics.get_feature, get_kde_scatter, "
         "get_kde_contour, get_kde_spacing, _apply_scale, ignore_nan_inf, "
         "kde_histogram / kde_gauss / kde_multivariate / kde_none, "
         "bin_width_doane / bin_num_doane and get_quantile_levels run "
         "symbolically; the numeric kernels underneath (spline, Gaussian "
         "KDE, product-kernel KDE, skew, percentile, histogram2d, interpn, "
         "log/sqrt) are uninterpreted functions with congruence.  Three "
         "worlds per path (filtered dataset / other values on the excluded "
         "events / dataset of the selected events only): z3 proves all "
         "results equal (non-interference + restriction), every statistic "
         "== its definition on the finite selected values, what reaches each "
         "kernel (valid selected events in the chosen scale, bin centres, "
         "default bins and bandwidths per axis), NaN at invalid positions, "
         "and that get_quantile_levels keeps the interpolation grid finite "
         "and strictly monotonic."
         " In get_quantile_levels +-inf is a third kind of value: neither NaN nor inf events reach the interpolation."
         ' For the Gaussian estimator z3 also proves that it is constructed from exactly the selected valid events (as a multiset).'
         ' Default bins of kde_histogram are proved to be max(5, Doane number) of the respective axis.',
    note="NOT decided (floating-point library code, not encodable): that "
         "the spline / Gaussian / product-kernel estimators and the "
         "percentile itself compute the reference values; "
         "_find_quantile_level's convergence. get_downsampled_scatter is "
         "C16, filtered tsv export C02. Bounds: 3 (thorough 4) events.",
    technique="symbolic execution of the real Python code objects with "
              "uninterpreted kernels (manual Ackermann congruence), z3 "
              "QF_UFLRA / nlsat; 2-safety (non-interference) formulation; "
              "concrete replay on the real estimators",
    ref="3/C12")

NOT_APPLICABLE = {
}

PENDING = "harness not built yet (construction in progress, see DESIGN.md section 6)"


def main():
    props = [json.loads(l) for l in (VERIF / "properties.jsonl").read_text()
             .splitlines() if l.strip()]
    checks, na = [], []
    for p in props:
        pid = p["id"]
        if pid in CLAIMS:
            c = CLAIMS[pid]
            checks.append({
                "property_id": pid,
                "quick_cmd": "./check %s --tier quick" % pid,
                "thorough_cmd": "./check %s --tier thorough" % pid,
                "evidence_file": "/verif/evidence/%s.json" % pid,
                "replay_cmd_template": "./check --replay {path}",
                "engine": "symx",
                "level_claimed": {"category": "other", "text": c["text"],
                                  "design_ref": c["ref"]},
                "level_note": c["note"],
                "technique": c["technique"],
            })
        else:
            na.append({"property_id": pid,
                       "reason": NOT_APPLICABLE.get(pid, PENDING)})
    try:
        commits = subprocess.run(
            ["git", "-C", "/repo", "log", "--format=%h %s", "0c06498..HEAD"],
            capture_output=True, text=True).stdout.strip().splitlines()
    except Exception:
        commits = []
    man = {
        "version": 1,
        "setup_cmd": "./setup.sh",
        "hooks": {
            "guard": "DC_ANALYSIS_DCLAB_VERIF",
            "enable": "no source hooks: the checks re-bind dclab's code "
                      "objects to symbolic shims inside the checker process; "
                      "the guard variable is reserved and unused",
            "baseline_off_cmd": "python3 /verif/tools/baseline.py /repo",
            "source_commits": [],
            "add_only": True,
        },
        "engines": [
            {"name": "symx", "path": "/verif/vf/symx.py",
             "serves_properties": sorted(CLAIMS),
             "kind_free_text": "path-forking symbolic executor for the real "
                               "Python code objects, z3 back end"},
        ],
        "checks": checks,
        "not_applicable": na,
        "notes": "fix: commits in /repo (unguarded repairs of genuine "
                 "defects): " + "; ".join(commits),
    }
    (VERIF / "MANIFEST.json").write_text(json.dumps(man, indent=1) + "\n")
    print("claimed:", [c["property_id"] for c in checks])


if __name__ == "__main__":
    main()
