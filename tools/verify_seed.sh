#!/bin/bash
# verify_seed.sh <ID> [--no-baseline]
# Confirms a seeded change produced by a sub-agent in /tmp/seed_out/<ID>:
#   demo passes on a fresh worktree of /repo HEAD, fails with the patch,
#   the pinned test suite still passes with the patch.
# On success copies patch.diff, demo.py, meta.json to /verif/seeded/<ID>/.
ID="$1"
SRC="/tmp/seed_out/$ID"
WT="/tmp/wt/verify_$ID"
[ -f "$SRC/patch.diff" ] || { echo "no patch for $ID"; exit 2; }
git -C /repo worktree remove --force "$WT" 2>/dev/null
/verif/tools/mk_worktree.sh "$WT" >/dev/null || exit 2
cleanup() { git -C /repo worktree remove --force "$WT" 2>/dev/null; }
trap cleanup EXIT
cd "$WT"
PYTHONPATH="$WT" /venv/bin/python "$SRC/demo.py" > "$SRC/verify_clean.log" 2>&1
RC_CLEAN=$?
git apply "$SRC/patch.diff" || { echo "$ID: patch does not apply to HEAD"; exit 2; }
PYTHONPATH="$WT" /venv/bin/python "$SRC/demo.py" > "$SRC/verify_patched.log" 2>&1
RC_PATCHED=$?
echo "$ID: demo clean rc=$RC_CLEAN patched rc=$RC_PATCHED"
tail -2 "$SRC/verify_patched.log"
BL="skipped"
if [ "$2" != "--no-baseline" ]; then
    BL=$(python3 /verif/tools/baseline.py "$WT" | head -1)
    echo "$ID: baseline with patch: $BL"
fi
if [ "$RC_CLEAN" = 0 ] && [ "$RC_PATCHED" != 0 ] && { [ "$BL" = "skipped" ] || echo "$BL" | grep -q "missing: 0"; }; then
    mkdir -p "/verif/seeded/$ID"
    cp "$SRC/patch.diff" "$SRC/demo.py" "/verif/seeded/$ID/"
    python3 - "$ID" "$RC_CLEAN" "$RC_PATCHED" "$BL" <<'EOF'
import json, sys, os
ID, rc0, rc1, bl = sys.argv[1:5]
src = "/tmp/seed_out/%s/meta.json" % ID
try:
    meta = json.load(open(src))
except Exception:
    meta = {}
meta["verified"] = {
    "by": "tools/verify_seed.sh in a fresh scratch worktree of /repo HEAD",
    "repo_head": os.popen("git -C /repo rev-parse --short HEAD").read().strip(),
    "demo_rc_unpatched": int(rc0), "demo_rc_patched": int(rc1),
    "baseline_with_patch": bl,
    "patched_output_tail": open("/tmp/seed_out/%s/verify_patched.log" % ID).read()[-600:],
}
json.dump(meta, open("/verif/seeded/%s/meta.json" % ID, "w"), indent=1)
EOF
    echo "$ID: CONFIRMED -> /verif/seeded/$ID"
else
    echo "$ID: NOT CONFIRMED"
    exit 1
fi
