#!/bin/bash
# check_seeds.sh [seed ...]: apply every seeded change (verif/seeded/<id>/
# patch.diff) to /repo in turn, run the check that is expected to catch it,
# and report DETECTED / MISSED.  /repo is restored after each seed; refuses
# to start when /repo has uncommitted changes.  Evidence files written by
# these runs must NOT be committed (run tools/run_all.sh afterwards).
cd "$(dirname "$0")/.."
if [ -n "$(git -C /repo status --short --untracked-files=no)" ]; then
    echo "refusing: /repo has uncommitted changes"; exit 2
fi
SEEDS="$@"
[ -z "$SEEDS" ] && SEEDS=$(ls -d seeded/*/ | xargs -n1 basename)
for s in $SEEDS; do
    pid=${s%%_*}
    chk=$pid
    [ -f seeded/$s/caught_by ] && chk=$(cat seeded/$s/caught_by)
    if ! git -C /repo apply /verif/seeded/$s/patch.diff 2>/dev/null; then
        echo "$s: PATCH DOES NOT APPLY"; continue
    fi
    res="MISSED"
    for c in $chk; do
        out=$(./check $c 2>&1); rc=$?
        if [ $rc -eq 1 ] && echo "$out" | grep -q "^VIOLATION property=$c"; then
            res="DETECTED by $c: $(echo "$out" | grep -m1 '^  what:' | cut -c1-160)"; break
        elif [ $rc -ne 0 ]; then
            res="MISSED (exit $rc: $(echo "$out" | grep -m1 'HARNESS-ERROR' | cut -c1-120))"
        fi
    done
    git -C /repo checkout -- .
    echo "$s: $res"
done
find replays -name "*.json" -delete 2>/dev/null
