#!/usr/bin/env python3
"""Run the repository's pinned test suite (guard OFF) and compare with
/root/.vp/BASELINE.json: every test in ``stable_pass`` must pass.

usage: baseline.py [repo_dir]   (default /repo)
"""
import json
import os
import subprocess
import sys
import tempfile
import xml.etree.ElementTree as ET

repo = sys.argv[1] if len(sys.argv) > 1 else "/repo"
base = json.load(open("/root/.vp/BASELINE.json"))
env = dict(os.environ)
env.pop("DC_ANALYSIS_DCLAB_VERIF", None)
with tempfile.TemporaryDirectory() as td:
    xml = os.path.join(td, "junit.xml")
    cmd = ["/venv/bin/python", "-m", "pytest", "-ra", "-q", "-p",
           "no:cacheprovider", "--timeout=900",
           "--continue-on-collection-errors", "--junitxml=" + xml]
    if "-n" in sys.argv:
        cmd += ["-x"]
    p = subprocess.run(cmd, cwd=repo, env=env, stdout=subprocess.PIPE,
                       stderr=subprocess.STDOUT, text=True)
    passed = set()
    for tc in ET.parse(xml).getroot().iter("testcase"):
        ok = not any(ch.tag in ("failure", "error", "skipped") for ch in tc)
        if ok:
            passed.add(tc.get("classname") + "::" + tc.get("name"))
missing = [t for t in base["stable_pass"] if t not in passed]
print("stable_pass: %d, passed now: %d, missing: %d" % (
    len(base["stable_pass"]), len(passed), len(missing)))
for t in missing[:40]:
    print("  NOT PASSING:", t)
sys.exit(1 if missing else 0)
