#!/bin/bash
# mk_worktree.sh <dir>: scratch git worktree of /repo HEAD incl. the ignored
# build outputs (compiled extensions, _version.py) so that it is importable.
set -e
D="$1"
git -C /repo worktree add --detach -q "$D" HEAD
cd /repo
for f in $(git status --short --ignored | awk '$1=="!!"{print $2}' | grep -E "\.so$|_version\.py$"); do
    cp "$f" "$D/$f"
done
echo "worktree ready: $D"
