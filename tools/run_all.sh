#!/bin/bash
# run_all.sh [tier]: run every claimed check on the CLEAN /repo tree and
# regenerate all evidence files (refuses to run with uncommitted /repo edits)
cd "$(dirname "$0")/.."
TIER="${1:-quick}"
if [ -n "$(git -C /repo status --short --untracked-files=no)" ]; then
    echo "refusing: /repo has uncommitted changes"; exit 2
fi
RC=0
for pid in $(python3 -c "import json; print(' '.join(c['property_id'] for c in json.load(open('MANIFEST.json'))['checks']))"); do
    /usr/bin/time -f "$pid wall=%es" ./check $pid --tier $TIER > /tmp/run_all_$pid.log 2>&1
    rc=$?
    tail -2 /tmp/run_all_$pid.log | cut -c1-220
    echo "$pid exit=$rc"
    [ $rc -ne 0 ] && RC=1
done
find replays -name "*.json" -delete 2>/dev/null
exit $RC
