#!/bin/bash
# Build the checker environment offline: an overlay venv on top of /venv
# (which holds dclab's own dependencies) plus z3-solver and crosshair-tool
# from the offline wheelhouse.  Idempotent; safe to call from every check.
set -e
HERE="$(cd "$(dirname "${BASH_SOURCE[0]}")" && pwd)"
VENV="$HERE/.venv"
STAMP="$VENV/.ok"
if [ -f "$STAMP" ] && "$VENV/bin/python" -c "import z3, crosshair, numpy, h5py" 2>/dev/null; then
    exit 0
fi
(
    flock 9
    if [ -f "$STAMP" ] && "$VENV/bin/python" -c "import z3, crosshair, numpy, h5py" 2>/dev/null; then
        exit 0
    fi
    rm -rf "$VENV"
    /venv/bin/python -m venv "$VENV"
    SP="$("$VENV/bin/python" -c 'import sysconfig; print(sysconfig.get_paths()["purelib"])')"
    printf "import site; site.addsitedir('/venv/lib/python3.12/site-packages')\n" > "$SP/zz_overlay.pth"
    PIP_NO_INDEX=1 "$VENV/bin/pip" install -q --no-index --find-links /opt/veriftools/wheels \
        z3-solver crosshair-tool >/dev/null
    "$VENV/bin/python" -c "import z3, crosshair, numpy, h5py; print('verif venv ok: z3', z3.get_version_string())"
    touch "$STAMP"
) 9>"$HERE/.venv.lock"
