"""C20 -- min/max/mean summaries of scalar features match the data.

Real code executed symbolically: RTDCWriter.write_ndarray (scalar branch),
H5ScalarEvent.min/max/mean/_fetch_ufunc_attr, ChildScalar.min/max/mean,
the summary completion loop of copier.rtdc_copy (with h5ds_copy).
"""
import itertools
import math
import os
import random
import tempfile

import numpy as np
import z3

from vf import symh5
from vf.common import real
from vf.dcsym import build_class, sym_writer, quiet
from vf.symnp import SArr, SymNP, nanreduce
from vf.symx import Engine, SBool, SFloat, SInt, rebind, srange, smin, smax

PID = "C20"
W = "dclab.rtdc_dataset.writer"
EV = "dclab.rtdc_dataset.fmt_hdf5.events"
HE = "dclab.rtdc_dataset.fmt_hierarchy.events"
CP = "dclab.rtdc_dataset.copier"
FUNCTIONS = [(W, "RTDCWriter.write_ndarray"),
             (EV, "H5ScalarEvent._fetch_ufunc_attr"),
             (EV, "H5ScalarEvent.min"), (EV, "H5ScalarEvent.max"),
             (EV, "H5ScalarEvent.mean"), (EV, "H5ScalarEvent.__array__"),
             (HE, "ChildScalar._fetch_ufunc_attr"),
             (HE, "ChildScalar.__array__"), (HE, "ChildScalar.min"),
             (HE, "ChildScalar.max"), (HE, "ChildScalar.mean"),
             (CP, "rtdc_copy"), (CP, "h5ds_copy"),
             (W, "RTDCWriter.store_feature")]
BOUNDS = {
    "quick": {"stored events m": "0..3", "appended events n": "1..3",
              "calls (composed)": "<= 3 calls of 1..2 events",
              "values": "reals or NaN (any pattern, incl. all-NaN)",
              "child": "parent of 3 events, symbolic filter; hierarchy of "
                       "depth 2 (root of 3 events, both filters symbolic) "
                       "over a root feature object that reports its own "
                       "summaries",
              "replace mode": "real store_feature(mode=replace) over a "
                              "writer-written feature, (m, n) in (2,1) (2,2) "
                              "(1,2)"},
    "thorough": {"stored events m": "0..4", "appended events n": "1..4",
                 "calls (composed)": "<= 4 calls of 1..2 events",
                 "values": "reals or NaN", "child": "parent of 4 events; depth 2 over a root of 4 "
                                      "events",
                 "replace mode": "as quick plus (3,2) (2,3)"},
}
OUTSIDE = ["floating-point rounding of the running mean (values are exact "
           "reals + NaN flag)", "+-inf values", "integer overflow",
           "libhdf5 storage", "more events than the bound"]
STUBS = ["numpy: nanmin/nanmax/nanmean/isnan/sum/asarray/array over symbolic "
         "elements (vf/symnp.py)", "h5py: vf/symh5.py (attrs, resize, slice "
         "assignment)"]
ASSUMPTIONS = ["inductive pre-state: stored attributes, when present, equal "
               "the NaN-ignoring min/max/mean of the stored data; the "
               "writer's private count cache, when populated, equals the "
               "number of non-NaN stored values"]
EXPLANATION = ("C20: one append step from an arbitrary consistent pre-state "
               "(covers append histories of any length), composed histories, "
               "copy completion and hierarchy children.")


def fresh_vals(eng, prefix, n, integer=False):
    if integer:
        return [eng.int("%s%d" % (prefix, i)) for i in range(n)]
    return [eng.float("%s%d" % (prefix, i)) for i in range(n)]


def fork_nans(vals):
    for v in vals:
        if isinstance(v, SFloat):
            bool(SBool(v.nan))


# ----------------------------------------------------- independent spec
def _lift(vals):
    return [SFloat.lift(v) for v in vals]


def minmax_ok(r, vals, kind):
    r = SFloat.lift(r)
    vals = _lift(vals)
    allnan = z3.And([v.nan for v in vals])
    if kind == "min":
        bound = z3.And([z3.Or(v.nan, r.v <= v.v) for v in vals])
    else:
        bound = z3.And([z3.Or(v.nan, r.v >= v.v) for v in vals])
    att = z3.Or([z3.And(z3.Not(v.nan), r.v == v.v) for v in vals])
    return z3.And(r.nan == allnan, z3.Implies(z3.Not(allnan),
                                              z3.And(bound, att)))


def mean_ok(r, vals):
    r = SFloat.lift(r)
    vals = _lift(vals)
    allnan = z3.And([v.nan for v in vals])
    cnt = z3.Sum([z3.If(v.nan, 0, 1) for v in vals])
    tot = z3.Sum([z3.If(v.nan, z3.RealVal(0), v.v) for v in vals])
    return z3.And(r.nan == allnan, z3.Implies(
        z3.Not(allnan), r.v * z3.ToReal(cnt) == tot))


def check_summary(eng, getter, vals, tag):
    for kind in ("min", "max", "mean"):
        try:
            r = getter(kind)
        except KeyError:
            eng.fail("%s:%s-missing" % (tag, kind))
            continue
        ok = mean_ok(r, vals) if kind == "mean" else minmax_ok(r, vals, kind)
        eng.prove(ok, "%s:%s" % (tag, kind))


def reader_for(ds):
    cls = build_class(EV, "H5ScalarEvent", np=SymNP())
    return cls(ds)


def make_writer(f):
    cls = sym_writer()
    hw = cls.__new__(cls)
    hw.mode = "append"
    hw.compression_kwargs = {}
    hw.h5file = f
    hw._group_sizes = {}
    # attributes a repaired writer may use (harmless otherwise)
    for k, v in _init_attrs().items():
        setattr(hw, k, v)
    return hw


def _init_attrs():
    """private dict attributes the real __init__ creates (discovered from the
    real constructor so that the stub object matches the current source)"""
    import dclab.rtdc_dataset.writer as wmod
    f = symh5.File("probe.rtdc", "w")
    cls = sym_writer()
    try:
        obj = cls(f)
    except Exception:
        return {}
    return {k: type(v)() for k, v in obj.__dict__.items()
            if isinstance(v, dict) and k.startswith("_") and
            k != "_group_sizes"}


def run_append(eng, m, n, attrs, cached, integer):
    f = symh5.File("a.rtdc", "w")
    g = f.require_group("events")
    old = fresh_vals(eng, "old", m, integer)
    new = fresh_vals(eng, "new", n, integer)
    fork_nans(old + new)
    hw = make_writer(f)
    dt = int if integer else float
    if m:
        ds = g.create_dataset("deform", data=SArr(old, dt), chunks=(10,),
                              maxshape=(None,))
        for k in attrs:
            ds.attrs[k] = nanreduce(old, k)
        if cached:
            cnt = SInt(z3.Sum([z3.If(SFloat.lift(v).nan, 0, 1) for v in old]))
            for k in list(hw.__dict__):
                if k.startswith("_valid") or k.startswith("_nan") or \
                        k.startswith("_num"):
                    getattr(hw, k)[ds.name] = cnt
    with quiet():
        hw.write_ndarray(g, "deform", SArr(new, dt))
    ds = g["deform"]
    allv = old + new
    eng.prove(z3.BoolVal(len(ds.data) == m + n), "length")
    for i, (x, y) in enumerate(zip(ds.data.elems, allv)):
        if x is symh5.UNSET:
            eng.fail("row %d never written" % i)
        else:
            eng.prove(SFloat.lift(x).same(y), "data")
    check_summary(eng, lambda k: ds.attrs[k], allv, "attrs")
    rd = reader_for(ds)
    with quiet():
        check_summary(eng, lambda k: getattr(rd, k)(), allv, "reader")
    # invariant of a private valid-count cache, if the writer keeps one
    cnt = z3.Sum([z3.If(SFloat.lift(v).nan, 0, 1) for v in allv])
    for k, d in hw.__dict__.items():
        if k.startswith("_valid") and isinstance(d, dict) and ds.name in d:
            c = d[ds.name]
            eng.prove((c.e if isinstance(c, SInt) else z3.IntVal(int(c)))
                      == cnt, "count-cache-invariant")
    return "ok"


def run_replace(eng, m, n):
    """a feature written by the writer and then rewritten with
    mode="replace" (real store_feature): the summaries describe the new data
    only"""
    f = symh5.File("a.rtdc", "w")
    g = f.require_group("events")
    old = fresh_vals(eng, "old", m)
    new = fresh_vals(eng, "new", n)
    fork_nans(old + new)
    hw = make_writer(f)
    with quiet():
        hw.write_ndarray(g, "deform", SArr(old, float))
        hw2 = make_writer(f)
        hw2.mode = "replace"
        hw2.store_feature("deform", SArr(new, float))
    ds = g["deform"]
    eng.prove(z3.BoolVal(len(ds.data) == n), "replace:length")
    for x, y in zip(ds.data.elems, new):
        if x is symh5.UNSET:
            eng.fail("replace: row never written")
        else:
            eng.prove(SFloat.lift(x).same(y), "replace:data")
    rd = reader_for(ds)
    with quiet():
        check_summary(eng, lambda k: getattr(rd, k)(), new, "replace-reader")
    return "ok"


def run_multi(eng, sizes, reopen, integer):
    f = symh5.File("a.rtdc", "w")
    g = f.require_group("events")
    hw = make_writer(f)
    allv = []
    for ci, n in enumerate(sizes):
        vals = fresh_vals(eng, "c%d_" % ci, n, integer)
        fork_nans(vals)
        if reopen and ci:
            hw = make_writer(f)
        with quiet():
            hw.write_ndarray(g, "deform", SArr(vals, int if integer
                                               else float))
        allv += vals
    ds = g["deform"]
    rd = reader_for(ds)
    with quiet():
        check_summary(eng, lambda k: getattr(rd, k)(), allv, "reader")
    return "ok"


def make_rootfeat(vals):
    N = len(vals)

    class RootFeat:
        """feature object with its own summaries (all root events)"""
        ndim = 1
        shape = (N,)
        dtype = np.dtype(float)

        def __array__(self, *a, **k):
            return SArr(vals, float)

        def __getitem__(self, idx):
            return SArr(vals, float)[idx]

        def __len__(self):
            return N

        def min(self):
            return nanreduce(vals, "min")

        def max(self):
            return nanreduce(vals, "max")

        def mean(self):
            return nanreduce(vals, "mean")
    return RootFeat()


def run_child(eng, N):
    vals = fresh_vals(eng, "p", N)
    fork_nans(vals)
    mask = [eng.bool("f%d" % i) for i in range(N)]

    class Filt:
        all = SArr(mask, bool)

    class Parent:
        filter = Filt()

        def __getitem__(self, feat):
            return make_rootfeat(vals)

    class Child:
        hparent = Parent()

        def __len__(self):
            return int(SymNP.sum(Filt.all))

        def get_root_parent(self):
            return self.hparent
    cls = build_class(HE, "ChildScalar", np=SymNP())
    cs = cls(Child(), "deform")
    arr = cs.__array__()     # forks on the mask bits
    if len(arr) == 0:
        return "empty"
    sel = [v for v, b in zip(vals, mask) if bool(b)]
    eng.prove(z3.BoolVal(len(arr) == len(sel)), "child-length")
    with quiet():
        check_summary(eng, lambda k: getattr(cs, k)(), sel, "child")
    return "ok"


def run_child2(eng, N):
    """hierarchy of depth 2 over a feature OBJECT of the root that reports
    (honest) summaries of all root events itself, like a file-backed
    feature: the summaries of the grandchild's feature must be those of
    the events that pass both filters."""
    vals = fresh_vals(eng, "p", N)
    fork_nans(vals)
    mask1 = [bool(eng.bool("f%d" % i)) for i in range(N)]
    n1 = sum(mask1)
    if n1 == 0:
        return "empty"
    mask2 = [eng.bool("g%d" % i) for i in range(n1)]
    snp = SymNP()

    class Filt1:
        all = SArr([z3.BoolVal(b) for b in mask1], bool)

    class Filt2:
        all = SArr(mask2, bool)

    class Root:
        filter = Filt1()

        def __getitem__(self, feat):
            return make_rootfeat(vals)

        def __len__(self):
            return N

        def get_root_parent(self):
            return self
    root = Root()
    cls = build_class(HE, "ChildScalar", np=snp)

    class Child1:
        hparent = root
        filter = Filt2()

        def __len__(self):
            return n1

        def get_root_parent(self):
            return root

        def __getitem__(self, feat):
            return cs1
    child1 = Child1()
    cs1 = cls(child1, "deform")

    class Child2:
        hparent = child1

        def __len__(self):
            return int(SymNP.sum(Filt2.all))

        def get_root_parent(self):
            return root
    cs2 = cls(Child2(), "deform")
    arr = cs2.__array__()     # forks on the second mask
    if len(arr) == 0:
        return "empty"
    sel1 = [v for v, b in zip(vals, mask1) if b]
    sel = [v for v, b in zip(sel1, mask2) if bool(b)]
    eng.prove(z3.BoolVal(len(arr) == len(sel)), "child2-length")
    with quiet():
        check_summary(eng, lambda k: getattr(cs2, k)(), sel, "child2")
        check_summary(eng, lambda k: getattr(cs1, k)(), sel1, "child1")
    return "ok"


def run_copy(eng, m, attrs, integer=False):
    """real rtdc_copy completes missing summaries"""
    vals = fresh_vals(eng, "old", m, integer)
    fork_nans(vals)
    src = symh5.File("src.rtdc", "w")
    g = src.require_group("events")
    ds = g.create_dataset("deform", data=SArr(vals, int if integer else
                                              float), chunks=(10,),
                          maxshape=(None,), compression=32015,
                          compression_opts=(1,), fletcher32=True)
    for k in attrs:
        ds.attrs[k] = nanreduce(vals, k)
    src.attrs["setup:channel width"] = 20.0
    src.mode = "r"
    dst = symh5.File("dst.rtdc", "w")
    snp = SymNP()
    ipc = rebind(real(CP, "is_properly_compressed"))
    h5c = rebind(real(CP, "h5ds_copy"), h5py=symh5, np=snp,
                 is_properly_compressed=ipc)
    h5c.__globals__["h5ds_copy"] = h5c
    rc = rebind(real(CP, "rtdc_copy"), h5py=symh5, np=snp, h5ds_copy=h5c)
    with quiet():
        rc(src, dst)
    d2 = dst["events/deform"]
    for i, (x, y) in enumerate(zip(d2.data.elems, vals)):
        eng.prove(SFloat.lift(x).same(y), "copy-data")
    check_summary(eng, lambda k: d2.attrs[k], vals, "copy-attrs")
    return "ok"


def run_reader(eng, m, attrs):
    """file written by other software: summaries present or not"""
    vals = fresh_vals(eng, "old", m)
    fork_nans(vals)
    f = symh5.File("a.rtdc", "w")
    ds = f.require_group("events").create_dataset(
        "deform", data=SArr(vals, float), chunks=(10,), maxshape=(None,))
    for k in attrs:
        ds.attrs[k] = nanreduce(vals, k)
    rd = reader_for(ds)
    with quiet():
        check_summary(eng, lambda k: getattr(rd, k)(), vals, "reader")
        # second call (cached) must agree
        check_summary(eng, lambda k: getattr(rd, k)(), vals, "reader-2nd")
    return "ok"


def run_case(name, params):
    eng = Engine(timeout_ms=30000)
    kind = params["kind"]
    if kind == "reader":
        eng.explore(lambda e: run_reader(e, params["m"], params["attrs"]))
        return eng.stats()
    if kind == "append":
        fn = lambda e: run_append(e, params["m"], params["n"],
                                  params["attrs"], params["cached"],
                                  params["integer"])
    elif kind == "multi":
        fn = lambda e: run_multi(e, params["sizes"], params["reopen"],
                                 params["integer"])
    elif kind == "replace":
        fn = lambda e: run_replace(e, params["m"], params["n"])
    elif kind == "child":
        fn = lambda e: run_child(e, params["N"])
    elif kind == "child2":
        fn = lambda e: run_child2(e, params["N"])
    elif kind == "copy":
        fn = lambda e: run_copy(e, params["m"], params["attrs"],
                                params.get("integer", False))
    eng.explore(fn)
    st = eng.stats()
    return st


ATTR_SETS = [(), ("min", "max", "mean"), ("min",), ("mean",), ("min", "max")]


def cases(tier, seed):
    out = []
    M, N, calls, NC = (3, 3, 3, 3) if tier == "quick" else (4, 4, 4, 4)
    for m in range(0, M + 1):
        for n in range(1, N + 1):
            for attrs in (ATTR_SETS if m else [()]):
                for cached in ([False, True] if m and "mean" in attrs
                               else [False]):
                    out.append(("append m=%d n=%d attrs=%s cached=%s" % (
                        m, n, "+".join(attrs), cached),
                        dict(kind="append", m=m, n=n, attrs=list(attrs),
                             cached=cached, integer=False)))
    out.append(("append-int m=2 n=2", dict(kind="append", m=2, n=2,
                                           attrs=["min", "max", "mean"],
                                           cached=False, integer=True)))
    for k in range(2, calls + 1):
        for sizes in itertools.product([1, 2], repeat=k):
            if sum(sizes) > (5 if tier == "quick" else 6):
                continue
            for reopen in (False, True):
                out.append(("multi %s reopen=%s" % (sizes, reopen),
                            dict(kind="multi", sizes=list(sizes),
                                 reopen=reopen, integer=False)))
    out.append(("child N=%d" % NC, dict(kind="child", N=NC)))
    out.append(("child2 N=%d" % NC, dict(kind="child2", N=NC)))
    for m, n in ((2, 1), (2, 2), (1, 2)) + (() if tier == "quick"
                                           else ((3, 2), (2, 3))):
        out.append(("replace m=%d n=%d" % (m, n),
                    dict(kind="replace", m=m, n=n)))
    for m in range(1, M + 1):
        for attrs in ATTR_SETS:
            out.append(("copy m=%d attrs=%s" % (m, "+".join(attrs)),
                        dict(kind="copy", m=m, attrs=list(attrs))))
    for attrs in ATTR_SETS:
        out.append(("copy-int m=2 attrs=%s" % "+".join(attrs),
                    dict(kind="copy", m=2, attrs=list(attrs), integer=True)))
    for m in range(1, M + 1):
        for attrs in ATTR_SETS:
            out.append(("reader m=%d attrs=%s" % (m, "+".join(attrs)),
                        dict(kind="reader", m=m, attrs=list(attrs))))
    random.Random(seed).shuffle(out)
    return out


# ------------------------------------------------------------------ replay
def _vals(values, prefix, n, integer=False):
    out = []
    for i in range(n):
        if integer:
            out.append(values.get("%s%d" % (prefix, i), 0))
        elif values.get("%s%d.nan" % (prefix, i)):
            out.append(float("nan"))
        else:
            out.append(float(values.get("%s%d.v" % (prefix, i), 0)))
    return out


def _close(a, b):
    a, b = float(a), float(b)
    if math.isnan(a) or math.isnan(b):
        return math.isnan(a) and math.isnan(b)
    return abs(a - b) <= 1e-9 * max(1.0, abs(a), abs(b))


def _expect(arr):
    arr = np.asarray(arr, dtype=float)
    with quiet():
        return {"min": np.nanmin(arr), "max": np.nanmax(arr),
                "mean": np.nanmean(arr)}


def concrete_appends(chunks_, attrs_first, reopen, dtype=float):
    """public-API history on a real file: write the first chunk (optionally
    strip some summary attributes with raw h5py to emulate a file produced by
    another writer), then append the remaining chunks; compare the summaries
    reported by the real reader with numpy's NaN-ignoring reductions."""
    import h5py
    RTDCWriter = real(W, "RTDCWriter")
    H5ScalarEvent = real(EV, "H5ScalarEvent")
    fails = []
    with tempfile.TemporaryDirectory(prefix="verif_c20_") as td, quiet():
        path = os.path.join(td, "t.rtdc")
        hw = RTDCWriter(path, mode="reset")
        for ci, ch in enumerate(chunks_):
            if ci and reopen:
                hw.close()
                hw = RTDCWriter(path, mode="append")
            hw.store_feature("deform", np.array(ch, dtype=dtype))
            if ci == 0 and attrs_first is not None:
                hw.h5file.flush()
                ds = hw.h5file["events/deform"]
                for k in ("min", "max", "mean"):
                    if k not in attrs_first and k in ds.attrs:
                        del ds.attrs[k]
        hw.h5file.flush()
        hw.close()
        with h5py.File(path, "r") as h5:
            ds = h5["events/deform"]
            data = ds[:]
            allv = [x for ch in chunks_ for x in ch]
            if not np.array_equal(np.asarray(data, dtype=float),
                                  np.asarray(allv, dtype=float),
                                  equal_nan=True):
                fails.append("stored data differ from written data")
            exp = _expect(allv)
            rd = H5ScalarEvent(ds)
            for k in ("min", "max", "mean"):
                got = getattr(rd, k)()
                if not _close(got, exp[k]):
                    fails.append("%s reported %r, NaN-ignoring %s of the "
                                 "data is %r (appends %r%s)" % (
                                     k, float(got), k, float(exp[k]),
                                     chunks_, ", writer re-opened" if reopen
                                     else ""))
    return fails


def concrete_replace(old, new):
    import h5py
    RTDCWriter = real(W, "RTDCWriter")
    H5ScalarEvent = real(EV, "H5ScalarEvent")
    fails = []
    with tempfile.TemporaryDirectory(prefix="verif_c20_") as td, quiet():
        path = os.path.join(td, "t.rtdc")
        with RTDCWriter(path, mode="reset") as hw:
            hw.store_feature("deform", np.array(old, dtype=float))
        with RTDCWriter(path, mode="replace") as hw:
            hw.store_feature("deform", np.array(new, dtype=float))
        with h5py.File(path, "r") as h5:
            ds = h5["events/deform"]
            if not np.array_equal(ds[:], np.asarray(new, dtype=float),
                                  equal_nan=True):
                fails.append("replace: stored data differ from written data")
            exp = _expect(new)
            rd = H5ScalarEvent(ds)
            for k in ("min", "max", "mean"):
                got = getattr(rd, k)()
                if not _close(got, exp[k]):
                    fails.append("replace: %s reported %r, NaN-ignoring %s "
                                 "of the data is %r (wrote %r, then replaced "
                                 "by %r)" % (k, float(got), k, float(exp[k]),
                                             old, new))
    return fails


def classify(msg):
    if msg.startswith("replace"):
        return "store_feature|replace-mode|stale-summary"
    if msg.startswith("mean"):
        return "write_ndarray|running-mean-weights-NaN-values"
    if msg.startswith("copy"):
        return "rtdc_copy|completed-summary-wrong"
    if msg.startswith("min") or msg.startswith("max"):
        return "write_ndarray|min-max-summary-wrong"
    if msg.startswith("grandchild") or msg.startswith("child"):
        return "ChildScalar|summary-differs-from-selected-events"
    return "other|" + msg[:50]


def replay(case, params, v):
    vals = v.get("values") or {}
    kind = params["kind"]
    if kind == "append":
        old = _vals(vals, "old", params["m"], params["integer"])
        new = _vals(vals, "new", params["n"], params["integer"])
        chunks_ = ([old] if old else []) + [new]
        fails = concrete_appends(
            chunks_, params["attrs"] if old else None,
            reopen=not params["cached"],
            dtype=int if params["integer"] else float)
    elif kind == "multi":
        chunks_ = [_vals(vals, "c%d_" % i, n, params["integer"])
                   for i, n in enumerate(params["sizes"])]
        fails = concrete_appends(chunks_, None, params["reopen"])
    elif kind == "replace":
        fails = concrete_replace(_vals(vals, "old", params["m"]),
                                 _vals(vals, "new", params["n"]))
    elif kind == "child":
        fails = concrete_child(_vals(vals, "p", params["N"]),
                               [bool(vals.get("f%d" % i))
                                for i in range(params["N"])])
    elif kind == "child2":
        m1 = [bool(vals.get("f%d" % i)) for i in range(params["N"])]
        fails = concrete_child2(_vals(vals, "p", params["N"]), m1,
                                [bool(vals.get("g%d" % i))
                                 for i in range(sum(m1))])
    elif kind == "copy":
        fails = concrete_copy(_vals(vals, "old", params["m"],
                                    params.get("integer", False)),
                              params["attrs"],
                              int if params.get("integer") else float)
    elif kind == "reader":
        fails = concrete_reader(_vals(vals, "old", params["m"]),
                                params["attrs"])
    if not fails:
        return {"reproduced": False, "key": "not-reproduced",
                "detail": "history passes on the real code: %r %r" % (
                    params, vals)}
    return {"reproduced": True, "key": classify(fails[0]),
            "detail": fails[0]}


def concrete_child(vals, mask):
    import dclab
    fails = []
    with quiet():
        ds = dclab.new_dataset({"deform": np.array(vals, dtype=float),
                                "area_um": np.arange(len(vals)) + 1.0})
        ds.filter.manual[:] = mask
        ds.apply_filter()
        ch = dclab.new_dataset(ds)
        if len(ch) == 0:
            return []
        exp = _expect(np.array(vals)[np.array(mask, dtype=bool)])
        for k in ("min", "max", "mean"):
            got = getattr(ch["deform"], k)()
            if not _close(got, exp[k]):
                fails.append("child %s %r != %r" % (k, got, exp[k]))
    return fails


def concrete_child2(vals, mask1, mask2):
    """root = file written by the real writer (file-backed feature objects
    with stored summaries), child filtered by mask1, grandchild by mask2"""
    import dclab
    RTDCWriter = real(W, "RTDCWriter")
    import dclab.rtdc_dataset.writer as Wm
    Wm.version = "0.62.7"   # untagged development version is unreadable
    fails = []
    with tempfile.TemporaryDirectory(prefix="verif_c20_") as td, quiet():
        path = os.path.join(td, "r.rtdc")
        with RTDCWriter(path, mode="reset") as hw:
            hw.store_metadata({"experiment": {"sample": "s", "run index": 1},
                               "imaging": {"pixel size": 0.34},
                               "setup": {"channel width": 20.0,
                                         "chip region": "channel",
                                         "flow rate": 0.04}})
            hw.store_feature("deform", np.array(vals, dtype=float))
            hw.store_feature("area_um", np.arange(len(vals)) + 1.0)
        with dclab.new_dataset(path) as ds:
            ds.filter.manual[:] = mask1
            ds.apply_filter()
            ch = dclab.new_dataset(ds)
            ch.filter.manual[:] = mask2
            ch.apply_filter()
            gc = dclab.new_dataset(ch)
            v1 = np.array(vals)[np.array(mask1, dtype=bool)]
            for name, obj, sel in (
                    ("grandchild", gc, v1[np.array(mask2, dtype=bool)]),
                    ("child", ch, v1)):
                if len(sel) == 0:
                    continue
                exp = _expect(sel)
                for k in ("min", "max", "mean"):
                    got = getattr(obj["deform"], k)()
                    if not _close(got, exp[k]):
                        fails.append("%s %s %r != %r" % (name, k, got,
                                                         exp[k]))
    return fails


def concrete_copy(vals, attrs, dtype=float):
    import h5py
    rtdc_copy = real(CP, "rtdc_copy")
    fails = []
    with tempfile.TemporaryDirectory(prefix="verif_c20_") as td, quiet():
        p1, p2 = os.path.join(td, "a.rtdc"), os.path.join(td, "b.rtdc")
        with h5py.File(p1, "w") as h:
            ds = h.require_group("events").create_dataset(
                "deform", data=np.array(vals, dtype=dtype))
            exp = _expect(vals)
            for k in attrs:
                ds.attrs[k] = exp[k]
        with h5py.File(p1, "r") as a, h5py.File(p2, "w") as b:
            rtdc_copy(a, b)
        with h5py.File(p2, "r") as b:
            ds = b["events/deform"]
            for k in ("min", "max", "mean"):
                if k not in ds.attrs:
                    fails.append("copy: %s missing" % k)
                elif not _close(ds.attrs[k], exp[k]):
                    fails.append("copy: %s %r != %r" % (k, ds.attrs[k],
                                                       exp[k]))
    return fails


def concrete_reader(vals, attrs):
    import h5py
    H5ScalarEvent = real(EV, "H5ScalarEvent")
    fails = []
    with tempfile.TemporaryDirectory(prefix="verif_c20_") as td, quiet():
        p1 = os.path.join(td, "a.rtdc")
        exp = _expect(vals)
        with h5py.File(p1, "w") as h:
            ds = h.require_group("events").create_dataset(
                "deform", data=np.array(vals, dtype=float))
            for k in attrs:
                ds.attrs[k] = exp[k]
        with h5py.File(p1, "r") as h:
            rd = H5ScalarEvent(h["events/deform"])
            for k in ("min", "max", "mean"):
                got = getattr(rd, k)()
                if not _close(got, exp[k]):
                    fails.append("reader: %s %r != %r" % (k, got, exp[k]))
    return fails


def validate(tier, seed):
    """real writer/reader on concrete histories (repo-test-like inputs and
    random NaN patterns) must agree with the symbolic verdict 'holds'."""
    rnd = random.Random(seed)
    mism, n = [], 0
    hist = [[[1.0, 2.0], [3.0]], [[0.5], [0.25, 4.0], [1.0]],
            [[-1.0, 7.5, 2.0]], [[3.0, 3.0], [3.0, 3.0]]]
    for _ in range(6 if tier == "quick" else 20):
        hist.append([[rnd.choice([float("nan"), rnd.uniform(-5, 5)])
                      for _ in range(rnd.randint(1, 3))]
                     for _ in range(rnd.randint(1, 3))])
    for h in hist:
        for reopen in (False, True):
            n += 1
            fails = concrete_appends(h, None, reopen)
            # symbolic verdict for the same pinned history
            eng = Engine()

            def run(eng, h=h, reopen=reopen):
                f = symh5.File("a.rtdc", "w")
                g = f.require_group("events")
                hw = make_writer(f)
                allv = []
                for ci, ch in enumerate(h):
                    if reopen and ci:
                        hw = make_writer(f)
                    with quiet():
                        hw.write_ndarray(g, "deform", SArr(
                            [SFloat.lift(x) for x in ch], float))
                    allv += [SFloat.lift(x) for x in ch]
                rd = reader_for(g["deform"])
                with quiet():
                    check_summary(eng, lambda k: getattr(rd, k)(), allv, "r")
            eng.explore(run)
            sym_bad = bool(eng.violations)
            if sym_bad != bool(fails):
                mism.append("history %r reopen=%s: symbolic %s vs real %s %s"
                            % (h, reopen, sym_bad, bool(fails), fails[:1]))
    return {"traces": n, "mismatches": mism}


CANARIES = [
    dict(name="min uses max ufunc on merge", module=W,
         qualname="RTDCWriter.write_ndarray",
         old='val = ufunc([val_a, val_b])', new='val = val_b'),
    dict(name="mean weight swapped", module=W,
         qualname="RTDCWriter.write_ndarray",
         old="mean_b * num_b", new="mean_b * num_a"),
    dict(name="reader ignores data when attr missing", module=EV,
         qualname="H5ScalarEvent._fetch_ufunc_attr",
         old="val = ufunc(self.__array__())",
         new="val = ufunc(self.__array__()[:1])"),
    dict(name="child summary from parent", module=HE,
         qualname="ChildScalar._fetch_ufunc_attr",
         old="val = ufunc(self.__array__())",
         new="val = ufunc(self.child.hparent[self.feat])"),
    dict(name="copy completes with wrong ufunc", module=CP,
         qualname="rtdc_copy",
         old='(np.nanmax, "max")', new='(np.nanmin, "max")'),
]
