"""C16 -- downsampling returns a reproducible subset of the requested size.

Real code executed symbolically: downsample_rand / downsample_grid /
populate_grid / valid (current text of dclab/downsampling.pyx, Cython
declarations stripped) and RTDCBase.get_downsampled_scatter / _apply_scale.

Two encodings: (a) cardinality abstraction of downsample_grid with UNBOUNDED
symbolic sizes (boolean arrays as (universe, size, #True)); (b) concrete
shapes N <= 4 with symbolic values / NaN flags / filter bits / request size
for the element-wise claims.
"""
import random

import numpy as np
import z3

from vf.common import real, REPO
from vf.dcsym import quiet
from vf.pyxstrip import load_pyx
from vf import symnp as _symnp
from vf.symnp import SArr, SymNP, _truth
from vf.symx import (Engine, SBool, SFloat, SInt, rebind, sabs, srange, toint,
                     tobool, NotModelled)

PID = "C16"
PYX = "dclab/downsampling.pyx"
CORE = "dclab.rtdc_dataset.core"
FUNCTIONS = [(CORE, "RTDCBase.get_downsampled_scatter"),
             (CORE, "RTDCBase._apply_scale")]
FILES = [PYX]
BOUNDS = {
    "quick": {"cardinality abstraction": "array size n, #invalid, request "
              "size, #grid-kept: unbounded mathematical integers",
              "element-wise": "N <= 3 events, request 0..N+2, any NaN "
              "pattern, both invalid-handling modes, linear/log scale, any "
              "filter"},
    "thorough": {"cardinality abstraction": "unbounded",
                 "element-wise": "N <= 4"},
}
OUTSIDE = ["uint32 wrap-around of the request size (>= 2**32)",
           "which events the RNG picks (np.random.choice is a stub)",
           "norm() with zero range (NaN grid cells, undefined cast)",
           "the 300x300 grid arithmetic (populate_grid/norm are stubbed by "
           "contract inside downsample_grid and checked separately on a "
           "small grid)", "the @Cache wrapper (C17)", "+-inf (NaN only)",
           "the compiled extension when out of date w.r.t. the .pyx"]
STUBS = ["np.random.choice(pool, size, replace=False): ValueError unless "
         "0 <= size <= len(pool); returns size distinct members (first-k "
         "and last-k variants are both explored)",
         "populate_grid inside downsample_grid: keeps an arbitrary subset of "
         "the valid events that contains the first one",
         "np.log(x): NaN/invalid iff x <= 0 or NaN, else an uninterpreted "
         "real", "a cast of a symbolic float to float32 / float16 "
         "(asarray / astype with dtype): overflow to an invalid value from "
         "the first magnitude that rounds to inf, exactly 0 up to half the "
         "smallest subnormal, otherwise a value within the relative "
         "rounding error of the same sign (vf/symnp.py, "
         "NARROW_FLOAT_CASTS)", "cardinality contracts of ones_like, a[mask], ~, |, where, "
         "sum, mask/index assignment (side conditions are proof "
         "obligations)"]
ASSUMPTIONS = ["request size 0 means 'no downsampling' (all eligible "
               "events)", "eligible = valid events, plus invalid ones when "
               "remove_invalid is False"]
EXPLANATION = "C16: count/subset/alignment of random and grid downsampling."


# ===================================================== (a) cardinalities
class Card:
    """boolean array over universe uni of symbolic size n with symbolic
    number of True entries"""

    def __init__(self, uni, n, card, sub=None):
        self.uni, self.n, self.card, self.sub = uni, toint(n), toint(card), sub

    size = property(lambda s: SInt(s.n))
    shape = property(lambda s: (SInt(s.n),))

    def __invert__(s):
        return Card(s.uni, s.n, s.n - s.card, ("not", s))

    def __eq__(s, o):
        return s is o

    def __hash__(s):
        return id(s)

    def __setitem__(s, k, v):
        E = Engine.cur
        if isinstance(k, Card):
            if k.uni != s.uni:
                raise NotModelled("mask from another universe")
            if v is False:
                E.prove(s.card == s.n, "abs: mask-assign False expects an "
                                       "all-True array")
                s.card = s.n - k.card
                s.sub = ("not", k)
            elif isinstance(v, Card):
                E.prove(z3.And(v.n == k.card, s.card == k.card),
                        "abs: keep[good]=keepdb shape")
                s.card = v.card
                s.sub = ("subset", k)
            else:
                raise NotModelled("mask assign %r" % (v,))
        elif isinstance(k, Idx):
            if v is False:
                E.prove(z3.BoolVal(k.src is s and k.of == "true"),
                        "abs: indices removed must come from the True set")
                s.card = s.card - k.k
            elif v is True:
                X = k.src   # indices are the True positions of X
                ok = k.of == "true" and X.uni == s.uni and (
                    X.sub == ("not", s) or s.sub == ("not", X) or
                    (s.sub is not None and s.sub[0] == "subset" and
                     s.sub[1].sub == ("not", X)))
                E.prove(z3.BoolVal(bool(ok)),
                        "abs: indices added must come from the False set")
                s.card = s.card + k.k
            else:
                raise NotModelled("index assign %r" % (v,))
        else:
            raise NotModelled("setitem %r" % (k,))


class Vals:
    def __init__(self, uni, n):
        self.uni, self.n = uni, toint(n)

    size = property(lambda s: SInt(s.n))
    shape = property(lambda s: (SInt(s.n),))

    def __getitem__(s, k):
        if not (isinstance(k, Card) and k.uni == s.uni):
            raise NotModelled("value index")
        v = Vals(("sel", s.uni, id(k)), k.card)
        v.mask = k
        return v


class Idx:
    def __init__(self, src, of, k):
        self.src, self.of, self.k = src, of, toint(k)


class _Chain:
    def __init__(s, c):
        s.c = c

    def __or__(s, o):
        return _Chain(s.c)

    def __invert__(s):
        return ~s.c


def run_card(eng):
    n, nbad, samples, k = [eng.int(x) for x in
                           ["n", "nbad", "samples", "kgrid"]]
    eng.assume((n >= 0) & (nbad >= 0) & (nbad <= n) & (samples >= 0))
    a, b = Vals("ev", n), Vals("ev", n)
    bad = Card("ev", n.e, nbad.e)

    class NPX:
        uint32 = staticmethod(lambda x: x)
        uint8 = "u8"

        class random:
            class RandomState:
                def __init__(self, seed):
                    pass

                def get_state(self):
                    return "st"

            @staticmethod
            def set_state(s):
                pass

            @staticmethod
            def choice(pool, size, replace):
                size = toint(size)
                Engine.cur.prove(z3.And(size >= 0, size <= pool.k),
                                 "choice: 0 <= size <= population "
                                 "(else numpy raises ValueError)")
                return Idx(pool.src, pool.of, size)

        @staticmethod
        def ones_like(a, dtype=None):
            return Card(a.uni, a.n, a.n)

        @staticmethod
        def zeros_like(a, dtype=None):
            return Card(a.uni, a.n, 0)

        isnan = staticmethod(lambda x: _Chain(bad))
        isinf = staticmethod(lambda x: _Chain(bad))

        @staticmethod
        def ones(shape, dtype=None):
            return "grid"

        @staticmethod
        def array(x, dtype=None):
            return x

        @staticmethod
        def sum(c):
            return SInt(c.card)

        @staticmethod
        def where(c):
            return [Idx(c, "true", c.card)]

    def populate_grid_stub(x_discrete, y_discrete, toproc, keepd):
        eng.assume((k >= 1) & (k <= SInt(keepd.n)))
        keepd.card = k.e

    class NormV:
        def __mul__(s, o):
            return s

    ns, py = load_pyx(REPO / PYX, extra_globals={"__package__": "dclab"},
                      name="dclab.downsampling_pyx")
    code = py.replace(
        "bad = np.isnan(a) | np.isinf(a) | np.isnan(b) | np.isinf(b)",
        "bad = _unwrap(np.isnan(a) | np.isinf(a) | np.isnan(b) | np.isinf(b))")
    if code == py:
        raise NotModelled("downsample_grid: construction of `bad` changed; "
                          "the cardinality abstraction must be adapted")
    g = {"__name__": "dclab.downsampling_pyx", "__package__": "dclab"}
    exec(compile(code, "downsampling_pyx", "exec"), g)
    g.update(np=NPX, Cache=lambda f: f, abs=sabs,
             _unwrap=lambda x: x.c if isinstance(x, _Chain) else x,
             populate_grid=populate_grid_stub, norm=lambda a: NormV())
    fn = g["downsample_grid"]
    fn = getattr(fn, "func", fn)
    fn = rebind(fn, **{kk: g[kk] for kk in ("np", "abs", "_unwrap",
                                            "populate_grid", "norm")})
    rem_inv = bool(eng.bool("remove_invalid"))
    asd, bsd, keep = fn(a, b, samples, remove_invalid=rem_inv, ret_idx=True)
    ngood = n.e - nbad.e
    elig = ngood if rem_inv else n.e
    want = z3.If(z3.And(samples.e > 0, samples.e <= elig), samples.e, elig)
    eng.prove(keep.card == want, "count")
    eng.prove(asd.n == keep.card, "returned-size == mask count")
    return "ok"


# ================================================ (b) concrete small shapes
class SymRandom:
    def __init__(self, variant):
        self.variant = variant

    class RandomState:
        def __init__(self, seed=None):
            pass

        def get_state(self):
            return "state47"

    def set_state(self, s):
        pass

    def choice(self, pool, size=None, replace=True):
        pool = list(pool)
        size = Engine.cur.concretize(size) if isinstance(size, SInt) \
            else int(size)
        if size < 0:
            raise ValueError("negative dimensions are not allowed")
        if size > len(pool):
            raise ValueError("Cannot take a larger sample than population "
                             "when 'replace=False'")
        sel = pool[:size] if self.variant == "first" else \
            pool[len(pool) - size:]
        return SArr(sel, int)


def sym_np(variant, log_stub=None):
    over = dict(random=SymRandom(variant))
    if log_stub:
        over["log"] = log_stub
    return SymNP(**over)


def pyx_module(npx, stub_grid=True):
    ns, py = load_pyx(REPO / PYX, extra_globals={"__package__": "dclab"},
                      name="dclab.downsampling_pyx")
    out = dict(ns)
    out.update(np=npx, abs=sabs, range=srange, Cache=lambda f: f)

    def populate_grid_stub(x_discrete, y_discrete, toproc, keepd):
        eng = Engine.cur
        for i in range(len(keepd)):
            if i == 0:
                keepd.elems[i] = True
            else:
                cnt = eng.__dict__.setdefault("_pg", [0])
                cnt[0] += 1
                keepd.elems[i] = eng.bool("grid_keep%d_%d" % (cnt[0], i))

    class NormV:
        def __init__(s, n):
            s.n = n

        def __mul__(s, o):
            return s

        def __symarray__(s):
            return SArr([0] * s.n, float)
    if stub_grid:
        out["populate_grid"] = populate_grid_stub
        out["norm"] = lambda a: NormV(len(a))
    res = {}
    for name in ("downsample_rand", "downsample_grid", "populate_grid",
                 "valid", "norm"):
        f = out[name]
        f = getattr(f, "func", f)
        if hasattr(f, "__code__") and f.__globals__ is ns:
            res[name] = rebind(f, **{k: v for k, v in out.items()
                                     if k in ("np", "abs", "range",
                                              "populate_grid", "norm")})
        else:
            res[name] = f
    # let re-bound functions see each other
    for f in res.values():
        if hasattr(f, "__globals__"):
            for k2, v2 in res.items():
                if f.__globals__.get(k2) is not v2 and k2 in (
                        "populate_grid", "norm", "valid"):
                    f.__globals__[k2] = v2
    return res


def _isbad(v):
    return tobool(SBool(v.nan)) if isinstance(v, SFloat) else z3.BoolVal(False)


def _mask_terms(mask):
    return [tobool(m) if isinstance(m, (SBool, bool)) else
            z3.BoolVal(bool(m)) for m in mask]


def check_result(eng, vals_a, vals_b, mask, ra, rb, samples, remove_invalid,
                 bads, tag):
    N = len(vals_a)
    eng.prove(z3.BoolVal(len(mask) == N), tag + ":mask-length")
    mt = _mask_terms(list(mask))
    cnt = z3.Sum([z3.If(m, 1, 0) for m in mt]) if mt else z3.IntVal(0)
    nbad = z3.Sum([z3.If(b, 1, 0) for b in bads]) if bads else z3.IntVal(0)
    elig = (N - nbad) if remove_invalid else z3.IntVal(N)
    s = toint(samples)
    want = z3.If(z3.And(s > 0, s <= elig), s, elig)
    eng.prove(cnt == want, tag + ":count")
    if remove_invalid:
        eng.prove(z3.And([z3.Implies(m, z3.Not(b))
                          for m, b in zip(mt, bads)] or [True]),
                  tag + ":invalid-event-selected")
    # returned arrays == a[mask], b[mask]  (fork on the mask bits)
    sel = [i for i, m in enumerate(list(mask)) if _truth(m)]
    for arr, vals, nm in ((ra, vals_a, "a"), (rb, vals_b, "b")):
        if arr is None:
            continue
        eng.prove(z3.BoolVal(len(arr) == len(sel)), tag + ":returned-length")
        for got, i in zip(list(arr), sel):
            exp = vals[i]
            same = SFloat.lift(got).same(exp) if isinstance(
                exp, SFloat) else z3.BoolVal(got is exp or got == exp)
            eng.prove(same, tag + ":returned-values-are-input[mask]")


def run_rand(eng, N, remove_invalid, variant):
    vals = [eng.float("a%d" % i) for i in range(N)]
    samples = eng.int("samples")
    eng.assume((samples >= 0) & (samples <= N + 2))
    mod = pyx_module(sym_np(variant))
    a = SArr(vals, float)
    dsa, idx = mod["downsample_rand"](a, samples,
                                      remove_invalid=remove_invalid,
                                      ret_idx=True)
    bads = [_isbad(v) for v in vals]
    check_result(eng, vals, vals, idx, dsa, None, samples, remove_invalid,
                 bads, "rand")
    eng.prove(z3.And([a.elems[i].same(vals[i]) for i in range(N)] or [True]),
              "rand:input-unmodified")
    # reproducibility: a second call gives the same mask
    dsa2, idx2 = mod["downsample_rand"](a, samples,
                                        remove_invalid=remove_invalid,
                                        ret_idx=True)
    eng.prove(z3.And([x == y for x, y in zip(_mask_terms(list(idx)),
                                            _mask_terms(list(idx2)))]
                     or [True]), "rand:reproducible")
    return "ok"


def run_grid(eng, N, remove_invalid, variant):
    va = [eng.float("a%d" % i) for i in range(N)]
    vb = [eng.float("b%d" % i) for i in range(N)]
    samples = eng.int("samples")
    eng.assume((samples >= 0) & (samples <= N + 2))
    mod = pyx_module(sym_np(variant))
    a, b = SArr(va, float), SArr(vb, float)
    asd, bsd, keep = mod["downsample_grid"](a, b, samples,
                                            remove_invalid=remove_invalid,
                                            ret_idx=True)
    bads = [z3.Or(_isbad(x), _isbad(y)) for x, y in zip(va, vb)]
    check_result(eng, va, vb, keep, asd, bsd, samples, remove_invalid, bads,
                 "grid")
    return "ok"


def run_populate(eng, N):
    """the real populate_grid loop on a 2x2 grid with symbolic cells"""
    mod = pyx_module(SymNP(), stub_grid=False)
    xs = [eng.int("cx%d" % i) for i in range(N)]
    ys = [eng.int("cy%d" % i) for i in range(N)]
    for v in xs + ys:
        eng.assume((v >= 0) & (v <= 1))

    class Grid:
        def __init__(s):
            s.d = {}

        def __getitem__(s, k):
            return s.d.get((int(k[0]), int(k[1])), 1)

        def __setitem__(s, k, v):
            s.d[(int(k[0]), int(k[1]))] = v
    keepd = SArr([0] * N, np.uint8)
    mod["populate_grid"](x_discrete=SArr(xs, np.uint32),
                         y_discrete=SArr(ys, np.uint32), toproc=Grid(),
                         keepd=keepd)
    for i in range(N):
        first = z3.And([z3.Not(z3.And(xs[j].e == xs[i].e, ys[j].e == ys[i].e))
                        for j in range(i)] or [True])
        got = keepd.elems[i]
        eng.prove(z3.BoolVal(bool(got)) == first,
                  "populate_grid:first-of-cell-kept")
    return "ok"


def run_scatter(eng, N, remove_invalid, xscale, yscale, variant):
    vx = [eng.float("x%d" % i) for i in range(N)]
    vy = [eng.float("y%d" % i) for i in range(N)]
    fbits = [eng.bool("f%d" % i) for i in range(N)]
    ds_req = eng.int("downsample")
    eng.assume((ds_req >= 0) & (ds_req <= N + 2))
    logn = [0]

    def log_stub(a):
        out = []
        for v in list(a):
            v = SFloat.lift(v)
            logn[0] += 1
            out.append(SFloat(z3.Or(v.nan, v.v <= 0),
                              z3.Real("log%d" % logn[0])))
        return SArr(out, float)
    npx = sym_np(variant, log_stub)
    mod = pyx_module(npx)
    # a cast to a narrower float type overflows / underflows / rounds
    _symnp.NARROW_FLOAT_CASTS = True

    class DS:
        pass
    dsmod = DS()
    dsmod.downsample_grid = mod["downsample_grid"]
    dsmod.valid = mod["valid"]
    dsmod.downsample_rand = mod["downsample_rand"]
    g = dict(np=npx, downsampling=dsmod, int=lambda x: x if isinstance(
        x, SInt) else int(x))
    apply_scale = rebind(real(CORE, "RTDCBase._apply_scale"), **g)

    class RB:
        _apply_scale = staticmethod(apply_scale)
    g["RTDCBase"] = RB
    gds = rebind(real(CORE, "RTDCBase.get_downsampled_scatter"), **g)

    class Filt:
        all = SArr(fbits, bool)

    class Dataset:
        filter = Filt()

        def __getitem__(self, k):
            return SArr(vx if k == "area_um" else vy, float)

        def __len__(self):
            return N
    with quiet():
        xr, yr, mask = gds(Dataset(), xax="area_um", yax="deform",
                           downsample=ds_req, xscale=xscale, yscale=yscale,
                           remove_invalid=remove_invalid, ret_mask=True)
    # specification
    def invalid(v, scale):
        return z3.Or(v.nan, v.v <= 0) if scale == "log" else v.nan
    mt = _mask_terms(list(mask))
    eng.prove(z3.BoolVal(len(mt) == N), "scatter:mask-length")
    ft = [tobool(b) for b in fbits]
    eng.prove(z3.And([z3.Implies(m, f) for m, f in zip(mt, ft)] or [True]),
              "scatter:mask-subset-of-filter")
    bad = [z3.Or(invalid(a, xscale), invalid(b, yscale))
           for a, b in zip(vx, vy)]
    nfilt = z3.Sum([z3.If(f, 1, 0) for f in ft]) if ft else z3.IntVal(0)
    ngood = z3.Sum([z3.If(z3.And(f, z3.Not(b)), 1, 0)
                    for f, b in zip(ft, bad)]) if ft else z3.IntVal(0)
    elig = ngood if remove_invalid else nfilt
    s = toint(ds_req)
    want = z3.If(z3.And(s > 0, s <= elig), s, elig)
    cnt = z3.Sum([z3.If(m, 1, 0) for m in mt]) if mt else z3.IntVal(0)
    eng.prove(cnt == want, "scatter:count")
    if remove_invalid:
        eng.prove(z3.And([z3.Implies(m, z3.Not(b)) for m, b in zip(mt, bad)]
                         or [True]), "scatter:invalid-event-selected")
    sel = [i for i, m in enumerate(list(mask)) if _truth(m)]
    for arr, vals in ((xr, vx), (yr, vy)):
        eng.prove(z3.BoolVal(len(arr) == len(sel)), "scatter:returned-length")
        for got, i in zip(list(arr), sel):
            eng.prove(SFloat.lift(got).same(vals[i]),
                      "scatter:returned-values-are-the-masked-events")
    return "ok"


def run_case(name, params):
    eng = Engine(timeout_ms=20000)
    k = params["kind"]
    if k == "card":
        eng.explore(run_card)
    elif k == "rand":
        eng.explore(lambda e: run_rand(e, params["N"], params["ri"],
                                       params["variant"]))
    elif k == "grid":
        eng.explore(lambda e: run_grid(e, params["N"], params["ri"],
                                       params["variant"]))
    elif k == "populate":
        eng.explore(lambda e: run_populate(e, params["N"]))
    elif k == "scatter":
        eng.explore(lambda e: run_scatter(e, params["N"], params["ri"],
                                          params["xs"], params["ys"],
                                          params["variant"]))
    return eng.stats()


def cases(tier, seed):
    out = [("card (unbounded sizes)", dict(kind="card"))]
    NM = 3 if tier == "quick" else 4
    variants = ["first"] if tier == "quick" else ["first", "last"]
    for N in range(0, NM + 1):
        for ri in (False, True):
            for var in variants:
                out.append(("rand N=%d remove_invalid=%s %s" % (N, ri, var),
                            dict(kind="rand", N=N, ri=ri, variant=var)))
                out.append(("grid N=%d remove_invalid=%s %s" % (N, ri, var),
                            dict(kind="grid", N=N, ri=ri, variant=var)))
    out.append(("populate N=3", dict(kind="populate", N=3)))
    NS = 3
    for N in range(1, NS + 1):
        for ri in (False, True):
            for xs, ys in (("linear", "linear"), ("log", "linear"),
                           ("linear", "log")):
                if tier == "quick" and N == 3 and xs != ys:
                    continue
                out.append(("scatter N=%d ri=%s %s/%s" % (N, ri, xs, ys),
                            dict(kind="scatter", N=N, ri=ri, xs=xs, ys=ys,
                                 variant="first")))
    random.Random(seed).shuffle(out)
    return out


# ------------------------------------------------------------------ replay
def _fv(vals, name):
    if vals.get(name + ".nan"):
        return float("nan")
    return float(vals.get(name + ".v", 0))


def _spec_count(n_elig, samples):
    return samples if 0 < samples <= n_elig else n_elig


def concrete_grid(a, b, samples, ri, use_source):
    """-> list of failures of the spec on the given implementation"""
    a, b = np.array(a, dtype=float), np.array(b, dtype=float)
    if use_source:
        ns, _ = load_pyx(REPO / PYX, extra_globals={"__package__": "dclab"},
                         name="dclab.downsampling_pyx")
        fn = ns["downsample_grid"]
    else:
        import dclab.downsampling as D
        fn = D.downsample_grid
    bad = np.isnan(a) | np.isnan(b) | np.isinf(a) | np.isinf(b)
    elig = int(np.sum(~bad)) if ri else len(a)
    try:
        with quiet():
            asd, bsd, keep = fn(a, b, samples, remove_invalid=ri,
                                ret_idx=True)
    except Exception as e:
        return ["downsample_grid(a=%r, b=%r, samples=%d, remove_invalid=%s) "
                "raised %r" % (a.tolist(), b.tolist(), samples, ri, e)]
    f = []
    if int(np.sum(keep)) != _spec_count(elig, samples):
        f.append("downsample_grid(n=%d, invalid=%d, samples=%d, "
                 "remove_invalid=%s) returned %d events, expected %d" % (
                     len(a), int(np.sum(bad)), samples, ri,
                     int(np.sum(keep)), _spec_count(elig, samples)))
    if not np.array_equal(asd, a[keep], equal_nan=True) or \
            not np.array_equal(bsd, b[keep], equal_nan=True):
        f.append("returned arrays differ from input[mask]")
    if ri and np.any(keep & bad):
        f.append("invalid event selected although remove_invalid=True")
    return f


def concrete_rand(a, samples, ri, use_source):
    a = np.array(a, dtype=float)
    if use_source:
        ns, _ = load_pyx(REPO / PYX, extra_globals={"__package__": "dclab"},
                         name="dclab.downsampling_pyx")
        fn = ns["downsample_rand"]
    else:
        import dclab.downsampling as D
        fn = D.downsample_rand
    bad = np.isnan(a) | np.isinf(a)
    elig = int(np.sum(~bad)) if ri else len(a)
    try:
        with quiet():
            dsa, idx = fn(a, samples, remove_invalid=ri, ret_idx=True)
    except Exception as e:
        return ["downsample_rand(a=%r, samples=%d, remove_invalid=%s) raised "
                "%r" % (a.tolist(), samples, ri, e)]
    f = []
    if int(np.sum(idx)) != _spec_count(elig, samples):
        f.append("downsample_rand(n=%d, invalid=%d, samples=%d, "
                 "remove_invalid=%s) returned %d events, expected %d" % (
                     len(a), int(np.sum(bad)), samples, ri, int(np.sum(idx)),
                     _spec_count(elig, samples)))
    if not np.array_equal(dsa, a[idx], equal_nan=True):
        f.append("returned array differs from input[mask]")
    return f


def concrete_scatter(x, y, fbits, downsample, ri, xs, ys):
    import dclab
    x, y = np.array(x, dtype=float), np.array(y, dtype=float)
    with quiet():
        ds = dclab.new_dataset({"area_um": x, "deform": y})
        ds.filter.manual[:] = np.array(fbits, dtype=bool)
        ds.apply_filter()
        try:
            xr, yr, mask = ds.get_downsampled_scatter(
                xax="area_um", yax="deform", downsample=downsample,
                xscale=xs, yscale=ys, remove_invalid=ri, ret_mask=True)
        except Exception as e:
            return ["get_downsampled_scatter(downsample=%d, remove_invalid="
                    "%s, %s/%s) on %d filtered events raised %r" % (
                        downsample, ri, xs, ys, int(np.sum(fbits)), e)]
    f = []
    filt = np.array(fbits, dtype=bool)

    def inval(v, sc):
        return np.isnan(v) | ((v <= 0) if sc == "log" else False) | \
            np.isinf(v)
    bad = inval(x, xs) | inval(y, ys)
    elig = int(np.sum(filt & ~bad)) if ri else int(np.sum(filt))
    if len(mask) != len(x):
        f.append("mask length %d != %d" % (len(mask), len(x)))
        return f
    if int(np.sum(mask)) != _spec_count(elig, downsample):
        f.append("get_downsampled_scatter(downsample=%d, remove_invalid=%s, "
                 "%s/%s): %d events, expected %d" % (
                     downsample, ri, xs, ys, int(np.sum(mask)),
                     _spec_count(elig, downsample)))
    if np.any(mask & ~filt):
        f.append("mask selects an event excluded by the filter")
    if ri and np.any(mask & bad):
        f.append("invalid event returned although remove_invalid=True")
    if not np.array_equal(xr, x[mask], equal_nan=True) or \
            not np.array_equal(yr, y[mask], equal_nan=True):
        f.append("returned data differ from the masked events")
    return f


def classify(msg):
    if "raised ValueError" in msg and "downsample_grid" in msg:
        return "downsample_grid|samples>len(a)&remove_invalid=False|ValueError"
    if "raised ValueError" in msg and "get_downsampled_scatter" in msg:
        return ("get_downsampled_scatter|downsample>filtered-events&"
                "remove_invalid=False|ValueError")
    if "raised" in msg:
        return "exception|" + msg.split("raised")[1][:40].strip()
    if "expected" in msg:
        return msg.split("(")[0] + "|wrong-count"
    return "other|" + msg[:60]


def replay(case, params, v):
    vals = v.get("values") or {}
    k = params["kind"]
    if k == "card":
        n, nbad = max(0, vals.get("n", 0)), max(0, vals.get("nbad", 0))
        n = min(n, 2000)
        nbad = min(nbad, n)
        samples = min(max(0, vals.get("samples", 0)), 5000)
        ri = bool(vals.get("remove_invalid", False))
        rnd = np.random.RandomState(1)
        a = rnd.rand(n)
        b = rnd.rand(n)
        a[:nbad] = np.nan
        fails = concrete_grid(a, b, samples, ri, use_source=True)
        fails_so = concrete_grid(a, b, samples, ri, use_source=False)
    elif k == "grid":
        N = params["N"]
        a = [_fv(vals, "a%d" % i) for i in range(N)]
        b = [_fv(vals, "b%d" % i) for i in range(N)]
        fails = concrete_grid(a, b, vals.get("samples", 0), params["ri"],
                              use_source=True)
        fails_so = concrete_grid(a, b, vals.get("samples", 0), params["ri"],
                                 use_source=False)
    elif k == "rand":
        N = params["N"]
        a = [_fv(vals, "a%d" % i) for i in range(N)]
        fails = concrete_rand(a, vals.get("samples", 0), params["ri"], True)
        fails_so = concrete_rand(a, vals.get("samples", 0), params["ri"],
                                 False)
    elif k == "scatter":
        N = params["N"]
        x = [_fv(vals, "x%d" % i) for i in range(N)]
        y = [_fv(vals, "y%d" % i) for i in range(N)]
        fb = [bool(vals.get("f%d" % i, False)) for i in range(N)]
        fails = concrete_scatter(x, y, fb, vals.get("downsample", 0),
                                 params["ri"], params["xs"], params["ys"])
        fails_so = fails
    else:
        return {"reproduced": False, "key": "no-replay",
                "detail": "populate_grid abstract case: %r" % (v,)}
    if not fails:
        return {"reproduced": False, "key": "not-reproduced",
                "detail": "spec holds on the current source for %r %r "
                          "(compiled extension: %r)" % (params, vals,
                                                        fails_so[:1])}
    return {"reproduced": True, "key": classify(fails[0]),
            "detail": fails[0] + (" [compiled extension agrees]" if fails_so
                                  else " [compiled extension passes: "
                                       "source/binary drift]")}


def validate(tier, seed):
    """stripped .pyx vs compiled extension on concrete vectors (translator
    validation; includes the repo's own test inputs)"""
    import dclab.downsampling as D
    ns, _ = load_pyx(REPO / PYX, extra_globals={"__package__": "dclab"},
                     name="dclab.downsampling_pyx")
    rnd = np.random.RandomState(seed + 7)
    n, mism = 0, []
    for size, samples, ri in [(100, 10, False), (100, 10, True),
                              (50, 50, False), (200, 0, True), (7, 3, False),
                              (1000, 100, True), (300, 299, False)]:
        a = rnd.rand(size)
        b = rnd.rand(size)
        a[::7] = np.nan
        for nm in ("downsample_grid", "downsample_rand"):
            n += 1
            try:
                if nm == "downsample_grid":
                    r1 = ns[nm](a, b, samples, remove_invalid=ri,
                                ret_idx=True)[-1]
                    r2 = D.downsample_grid(a, b, samples, remove_invalid=ri,
                                           ret_idx=True)[-1]
                else:
                    r1 = ns[nm](a, samples, remove_invalid=ri,
                                ret_idx=True)[-1]
                    r2 = D.downsample_rand(a, samples, remove_invalid=ri,
                                           ret_idx=True)[-1]
                if not np.array_equal(r1, r2):
                    print("NOTE: source/binary drift in %s(size=%d, samples="
                          "%d, remove_invalid=%s)" % (nm, size, samples, ri))
            except Exception as e:
                mism.append("%s raised %r" % (nm, e))
    return {"traces": n, "mismatches": mism}


CANARIES = [
    dict(name="scatter returns scaled data", module=CORE,
         qualname="RTDCBase.get_downsampled_scatter",
         old="return x[idx], y[idx], mask", new="return xs[idx], ys[idx], mask"),
    dict(name="scatter mask ignores filter", module=CORE,
         qualname="RTDCBase.get_downsampled_scatter",
         old="mids = np.where(self.filter.all)[0]",
         new="mids = np.arange(len(idx))"),
    dict(name="downsample on unscaled data", module=CORE,
         qualname="RTDCBase.get_downsampled_scatter",
         old="downsampling.downsample_grid(xs, ys,",
         new="downsampling.downsample_grid(x, y,"),
]
