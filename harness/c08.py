"""C08 -- compress / repack / condense preserve dataset content.

Real code executed: copier.rtdc_copy / h5ds_copy / basin_definition_copy /
is_properly_compressed, with the source file built by the real RTDCWriter,
all over the in-memory h5py stand-in.  Symbolic: the HDF5 chunk size and the
compression level of every feature dataset (they decide the copy route and
the chunk-wise copy loop), the scalar values, the byte and character lengths
of variable-length log lines.  Content equality is a structural diff of the
two trees (provenance tokens / z3 terms).
"""
import copy
import itertools
import json
import random

import numpy as np
import z3

from vf import symh5
from vf.common import real
from vf.dcsym import shadow, sym_writer, quiet
from vf.symnp import SArr, SymNP, Tok
from vf.symx import (Engine, SBool, SInt, SReal, smax, toint, toreal,
                     unformat, srange)

from harness.c01 import LBytes, TextDS, TextGroup, slen

PID = "C08"
CP = "dclab.rtdc_dataset.copier"
W = "dclab.rtdc_dataset.writer"
FUNCTIONS = [(CP, "rtdc_copy"), (CP, "h5ds_copy"),
             (CP, "basin_definition_copy"), (CP, "is_properly_compressed"),
             (W, "RTDCWriter.store_basin"), (W, "RTDCWriter.store_table"),
             (W, "RTDCWriter.store_log")]
BOUNDS = {
    "quick": {"features": "deform (scalar, 3 symbolic values), image (3 "
              "tokens), trace group, one empty scalar feature (optional)",
              "layout": "chunk size symbolic 1..5 (incl. larger than the "
              "data), zstd level symbolic 0..9 (below/above the threshold 5) "
              "or uncompressed/contiguous",
              "logs": "0..2 logs, fixed-length and variable-length (symbolic "
              "byte length 0..300 >= character length), empty log",
              "tables": "with and without attributes",
              "basins": "0..3 definitions (file / internal with basin_events "
              "/ mapped)", "options": "include_logs, include_basins, "
              "features all/scalar"},
    "thorough": {"layout": "chunk size 1..8"},
}
OUTSIDE = ["dclab-tdms2rtdc (nptdms / imageio file parsing: not encodable)",
           "re-chunking / compression performed by libhdf5, h5o.copy "
           "internals (stub: deep copy)", "the command log that compress / "
           "condense add", "scalar features that condense computes or takes "
           "from basins (C06, C07)"]
STUBS = ["h5py stand-in incl. iter_chunks, create plist (zstd filter), "
         "h5o.copy = deep copy", "variable-length string datasets with "
         "symbolic byte / character lengths"]
ASSUMPTIONS = ["structural equivalence: every feature / log / table / basin "
               "definition present with equal payload and attributes; "
               "summary attributes may be added to scalar features"]
EXPLANATION = "C08: structural diff of source and copy over symbolic layouts."


def copier_ns(npx, extra=None):
    Wr = sym_writer(np=npx)
    g = dict(h5py=symh5, np=npx, RTDCWriter=Wr, range=srange, len=slen,
             max=smax)
    if extra:
        g.update(extra)
    ns = shadow(CP, **g)
    return ns, Wr


def build_source(eng, p):
    """source tree; returns (file, expectation helpers)"""
    npx = SymNP()
    f = symh5.File("src.rtdc", "w")
    Wr = sym_writer(np=npx)
    hw = Wr.__new__(Wr)
    hw.mode, hw.compression_kwargs, hw.h5file = "append", {}, f
    hw._group_sizes, hw.owns_path, hw.path = {}, False, "src.rtdc"
    from harness.c20 import _init_attrs
    for kk, vv in _init_attrs().items():
        setattr(hw, kk, vv)
    N = 3
    ev = f.require_group("events")
    # --- scalar feature with symbolic layout
    vals = [eng.real("d%d" % i) for i in range(N)]
    c1 = eng.int("chunk_deform")
    z1 = eng.int("zstd_deform")
    eng.assume((c1 >= 1) & (c1 <= p["cmax"]) & (z1 >= 0) & (z1 <= 9))
    ds = symh5.Dataset(ev, "deform", SArr(vals, float), chunks=(c1,),
                       maxshape=(None,), zstd=z1)
    if p["summaries"]:
        ds.attrs["min"] = SReal(z3.Real("min_attr"))
    ev.members["deform"] = ds
    # --- image with symbolic layout
    c2 = eng.int("chunk_image")
    z2 = eng.int("zstd_image")
    eng.assume((c2 >= 1) & (c2 <= p["cmax"]) & (z2 >= 0) & (z2 <= 9))
    img = symh5.Dataset(ev, "image", SArr([Tok("img", i, (4, 4))
                                           for i in range(N)], np.uint8,
                                          (4, 4)),
                        chunks=(c2, 4, 4), maxshape=(None, 4, 4), zstd=z2)
    img.attrs["CLASS"] = np.bytes_("IMAGE")
    ev.members["image"] = img
    # --- trace group (contiguous, uncompressed)
    tg = ev.require_group("trace")
    tr = symh5.Dataset(tg, "fl1_raw", SArr([Tok("tr", i, (8,))
                                            for i in range(N)], np.int16,
                                           (8,)), chunks=None)
    tg.members["fl1_raw"] = tr
    if p["empty_feature"]:
        ev.create_dataset("area_um", data=np.zeros(0), chunks=(1,),
                          maxshape=(None,))
    if p["unknown_feature"]:
        ev.create_dataset("peter", data=np.arange(3.), chunks=(3,))
    f.attrs["setup:channel width"] = 20.0
    f.attrs["experiment:event count"] = N
    f.attrs["user:gate:lower"] = 1.5       # user keys may contain colons
    with quiet():
        # --- logs
        if p["logs"] >= 1:
            hw.store_log("fixed-log", ["line one", "line two"])
        if p["logs"] >= 2:
            f["logs"].create_dataset("empty-log", data=np.zeros(
                0, dtype="S100"), chunks=(1,), maxshape=(None,))
        # --- tables
        if p["tables"]:
            hw.store_table("tab", np.rec.array(
                [(1., 3.), (2., 4.)], dtype=[("a", float), ("b", float)]))
            if p["tables"] == "attrs":
                f["tables"]["tab"].attrs["hello"] = "world"
        # --- basins
        for bi in range(p["basins"]):
            kind = ["file", "mapped", "internal"][bi % 3]
            if kind == "file":
                # optionally with an explicit feature list that names a
                # feature stored in this file and one only the basin has
                hw.store_basin("b%d" % bi, "file", "hdf5",
                               ["/d/o%d.rtdc" % bi], verify=False,
                               basin_feats=(["aspect", "deform"]
                                            if p.get("basin_feats")
                                            else None))
            elif kind == "mapped":
                hw.store_basin("b%d" % bi, "file", "hdf5",
                               ["/d/m%d.rtdc" % bi], verify=False,
                               basin_map=np.array([0, 2, 1],
                                                  dtype=np.uint64))
            else:
                hw.store_basin("b%d" % bi, "internal", "h5dataset",
                               ["basin_events"], basin_feats=["userdef1"],
                               basin_map=np.array([0, 0, 1],
                                                  dtype=np.uint64),
                               internal_data={"userdef1":
                                              np.array([5., 6.])},
                               verify=False)
    f.mode = "r"
    return f, vals


def sym_equal(a, b):
    """payload equality for the tree diff (tokens by identity, symbolic
    numbers by z3, numpy by value)"""
    if isinstance(a, SArr) or isinstance(b, SArr):
        la, lb = list(a), list(b)
        if len(la) != len(lb):
            return False
        conds = []
        for x, y in zip(la, lb):
            if isinstance(x, Tok) or isinstance(y, Tok):
                if not (isinstance(x, Tok) and x == y):
                    return False
            elif x is symh5.UNSET or y is symh5.UNSET:
                return False
            else:
                conds.append(toreal(x) == toreal(y))
        return z3.And(conds) if conds else True
    return symh5._data_equal(a, b)


def diff(eng, a, b, path="", ignore=()):
    out = []
    if path == "":
        # attributes of the file itself (the metadata)
        for ak, av in a.attrs.items():
            if ak not in b.attrs:
                out.append("attr-missing /@%s" % ak)
            elif not isinstance(av, SReal) and not isinstance(
                    b.attrs[ak], SReal) and not symh5._val_equal(
                        av, b.attrs[ak]) and ak != "setup:software version":
                out.append("attr-differs /@%s" % ak)
    for k in a.keys():
        pth = path + "/" + k
        if pth in ignore:
            continue
        if k not in b.members:
            out.append("missing %s" % pth)
            continue
        x, y = a.members[k], b.members[k]
        if isinstance(x, symh5.Group) != isinstance(y, symh5.Group):
            out.append("kind %s" % pth)
        elif isinstance(x, symh5.Group):
            out += diff(eng, x, y, pth, ignore)
        else:
            if tuple(x.shape) != tuple(y.shape):
                out.append("shape %s %s!=%s" % (pth, x.shape, y.shape))
            else:
                r = sym_equal(x.data, y.data)
                if r is False:
                    out.append("data %s" % pth)
                elif r is not True:
                    if eng.prove(r, "copied payload of %s equals the "
                                 "source" % pth) is False:
                        out.append("data %s (symbolic)" % pth)
        for ak, av in x.attrs.items():
            if ak not in y.attrs:
                out.append("attr-missing %s@%s" % (pth, ak))
            else:
                bv = y.attrs[ak]
                if isinstance(av, SReal) or isinstance(bv, SReal):
                    eng.prove(toreal(av) == toreal(bv),
                              "attribute %s@%s unchanged" % (pth, ak))
                elif not symh5._val_equal(av, bv):
                    out.append("attr-differs %s@%s" % (pth, ak))
    return out


def snapshot(node):
    """structure + payload identity snapshot of a tree (for 'unchanged')"""
    if isinstance(node, symh5.Group):
        return ("G", sorted(node.attrs.keys()),
                {k: snapshot(v) for k, v in node.members.items()})
    d = node.data
    if isinstance(d, SArr):
        return ("D", sorted(node.attrs.keys()), [id(x) if isinstance(
            x, Tok) else repr(x) for x in d.elems])
    return ("D", sorted(node.attrs.keys()), np.array(d).tobytes())


def run_table_ds(eng, p):
    """the route of Export.hdf5(tables=True): the real store_table is handed
    the source table as an HDF5 dataset; its columns and its HDF5 attributes
    must arrive in the output file"""
    src, vals = build_source(eng, p)
    npx = SymNP()
    Wr = sym_writer(np=npx, h5py=symh5)
    dst = symh5.File("dst.rtdc", "w")
    hw = Wr.__new__(Wr)
    hw.mode, hw.compression_kwargs, hw.h5file = "append", {}, dst
    hw._group_sizes, hw.owns_path, hw.path = {}, False, "dst.rtdc"
    from harness.c20 import _init_attrs
    for kk, vv in _init_attrs().items():
        setattr(hw, kk, vv)
    tab = src["tables"]["tab"]
    with quiet():
        hw.store_table("tab", tab)
    eng.reach()
    out = dst["tables"]["tab"]
    missing = [k for k in tab.attrs.keys() if k not in out.attrs or
               out.attrs[k] != tab.attrs[k]]
    eng.prove(z3.BoolVal(not missing),
              "store_table(h5 dataset): table attributes carried over",
              info={"missing": missing})
    eng.prove(z3.BoolVal(sorted(out.dtype.names) == sorted(tab.dtype.names)),
              "store_table(h5 dataset): columns carried over")
    return "ok"


def run_tree(eng, p):
    src, vals = build_source(eng, p)
    before = snapshot(src)
    npx = SymNP()
    ns, Wr = copier_ns(npx)
    dst = symh5.File("dst.rtdc", "w")
    with quiet():
        ns["rtdc_copy"](src, dst, features=p["features"],
                        include_basins=p["include_basins"],
                        include_logs=p["include_logs"], include_tables=True,
                        meta_prefix="")
    eng.reach()
    ignore = set()
    if not p["include_logs"]:
        ignore.add("/logs")
    if not p["include_basins"]:
        ignore |= {"/basins", "/basin_events", "/events/basinmap0",
                   "/events/basinmap1"}
    if p["features"] == "scalar":
        ignore |= {"/events/image", "/events/trace"}
    ignore.add("/events/peter")          # unknown features are not copied
    ignore.add("/logs/empty-log")        # empty datasets are ignored
    if p["empty_feature"]:
        ignore.add("/events/area_um")
    d = diff(eng, src, dst, "", ignore)
    eng.prove(z3.BoolVal(not d), "copy is structurally equal to the source",
              info={"differences": d[:6]})
    eng.prove(z3.BoolVal(snapshot(src) == before),
              "the source file is not modified")
    for k in ("min", "max", "mean"):
        eng.prove(z3.BoolVal(k in dst["events"]["deform"].attrs),
                  "summary %s present in the copy" % k)
    # copying the copy changes nothing
    dst.mode = "r"
    dst2 = symh5.File("dst2.rtdc", "w")
    with quiet():
        ns["rtdc_copy"](dst, dst2, features="all", include_basins=True,
                        include_logs=True, include_tables=True)
    d2 = diff(eng, dst, dst2, "", {"/logs/empty-log"}) + \
        diff(eng, dst2, dst, "", {"/logs/empty-log"})
    eng.prove(z3.BoolVal(not d2), "copy of the copy is identical",
              info={"differences": d2[:6]})
    return "ok"


# ----------------------------------------------- CLI task option wiring
def run_cli(eng, p):
    """the real dclab-repack / dclab-compress task functions (options
    symbolic) over the in-memory files: what the options say is what is
    copied -- everything else is preserved"""
    src, vals = build_source(eng, dict(p, logs=1, tables="attrs", basins=1,
                                       summaries=False, empty_feature=False,
                                       unknown_feature=False, cmax=3))
    npx = SymNP()
    cns, Wr = copier_ns(npx)
    files = {"/d/in.rtdc": src}

    class FP:
        def __init__(self, s):
            self.s = str(s)
            self.suffix = ".rtdc"
            self.name = self.s.rsplit("/", 1)[-1]

        def rename(self, o):
            files[o.s] = files.pop(self.s)

        def __str__(self):
            return self.s

        def __fspath__(self):
            return self.s

    class h5shim:
        Group, Dataset, h5o = symh5.Group, symh5.Dataset, symh5.h5o

        @staticmethod
        def File(path, mode="r", **kw):
            key = str(path)
            if mode == "w" or key not in files:
                files[key] = symh5.File(key, "w")
            fobj = files[key]
            fobj.closed = False
            fobj.mode = "r" if mode == "r" else "a"
            return fobj

    class common_shim:
        @staticmethod
        def setup_task_paths(pin, pout, allowed_input_suffixes=None):
            return FP(pin), FP(pout), FP(str(pout) + "~")

        @staticmethod
        def get_command_log(paths, custom_dict=None):
            return ["command log"]

        @staticmethod
        def assemble_warnings(w):
            return ["warnings"]
    task = p["task"]
    opts = {}
    if task == "repack":
        opts = dict(strip_basins=bool(eng.branch(eng.bool("strip_basins").e)),
                    strip_logs=bool(eng.branch(eng.bool("strip_logs").e)))

    class util_shim:
        @staticmethod
        def hashfile(path, **kw):
            return "md5"
    Wr2 = sym_writer(np=npx, h5py=h5shim)
    tns = shadow("dclab.cli.task_" + task, h5py=h5shim, common=common_shim,
                 rtdc_copy=cns["rtdc_copy"], RTDCWriter=Wr2, util=util_shim)
    with quiet():
        tns[task](path_in="/d/in.rtdc", path_out="/d/out.rtdc", **opts)
    eng.prove(z3.BoolVal("/d/out.rtdc" in files and "/d/out.rtdc~" not in
                         files), "task: result renamed to the output path")
    out = files.get("/d/out.rtdc")
    if out is None:
        return "no output"
    out.closed = False
    ignore = {"/logs/dclab-compress"}
    if opts.get("strip_logs"):
        ignore.add("/logs")
    if opts.get("strip_basins"):
        ignore |= {"/basins", "/basin_events", "/events/basinmap0"}
    src.closed = False
    d = diff(eng, src, out, "", ignore)
    eng.prove(z3.BoolVal(not d), "task output keeps everything the options "
              "do not strip", info={"differences": d[:6], "options": opts})
    if opts.get("strip_logs"):
        eng.prove(z3.BoolVal("logs" not in out or not list(out["logs"])),
                  "--strip-logs: no logs in the output")
    if opts.get("strip_basins"):
        eng.prove(z3.BoolVal("basins" not in out or not list(out["basins"])),
                  "--strip-basins: no basins in the output")
    return "ok"


# ------------------------------------------- variable-length string logs
class VLine:
    """variable-length string entry: byte length and character length"""

    def __init__(self, tok, nbytes, nchars):
        self.tok, self.nbytes, self.nchars = tok, nbytes, nchars

    def __slen__(self):
        return self.nbytes          # h5py yields bytes objects


class VStr:
    def __init__(self, v):
        self.v = v

    def __slen__(self):
        return self.v.nchars


class VArr:
    def __init__(self, items):
        self.items = items

    def astype(self, dtype):
        w = unformat(str(dtype)[1:])
        return [LBytes(v.tok, SInt(z3.If(toint(v.nbytes) > toint(w),
                                         toint(w), toint(v.nbytes))))
                for v in self.items]

    def __iter__(self):
        return iter(self.items)

    def __len__(self):
        return len(self.items)


class VarLenDS(symh5.Dataset):
    def __init__(self, parent, name, lines):
        symh5.Node.__init__(self, parent, name)
        self.lines = lines
        self.chunks = None
        self.maxshape = None
        self.zstd = None

    @property
    def shape(self):
        return (len(self.lines),)

    @property
    def dtype(self):
        class DT:
            kind = "O"
        return DT()

    def __iter__(self):
        return iter(self.lines)

    def __len__(self):
        return len(self.lines)

    def __getitem__(self, k):
        assert k == slice(None)
        return VArr(self.lines)

    def asstr(self):
        ds = self

        class A:
            def __getitem__(self, k):
                return [VStr(v) for v in ds.lines]
        return A()


def run_varlog(eng, p):
    n = p["n"]
    src = symh5.File("src.rtdc", "w")
    lg = src.require_group("logs")
    lines = []
    for i in range(n):
        nb = eng.int("bytes%d" % i)
        nc = eng.int("chars%d" % i)
        eng.assume((nc >= 0) & (nb >= nc) & (nb <= 300) & (nb <= 4 * nc))
        lines.append(VLine(Tok("line", i), nb, nc))
    lg.members["varlog"] = VarLenDS(lg, "varlog", lines)
    src.mode = "r"
    npx = SymNP()
    ns, Wr = copier_ns(npx)
    dst = symh5.File("dst.rtdc", "w")
    tg = TextGroup(dst, "logs")
    dst.members["logs"] = tg

    class TextDS2(TextDS):
        def __setitem__(self, k, v):
            if isinstance(k, slice):
                for i, lb in enumerate(v):
                    TextDS.__setitem__(self, i, lb)
            else:
                TextDS.__setitem__(self, k, v)

    def create_dataset(name, shape=None, dtype=None, **kw):
        width = unformat(str(dtype)[1:])
        d = TextDS2(tg, name, width, shape[0])
        tg.members[name] = d
        return d
    tg.create_dataset = create_dataset
    with quiet():
        ns["rtdc_copy"](src, dst, features="none", include_logs=True)
    ds = dst["logs"]["varlog"]
    eng.prove(z3.BoolVal(len(ds.rows) == n and all(
        r is not None and r[0] == Tok("line", i)
        for i, r in enumerate(ds.rows))), "log: every line copied in order")
    if len(ds.rows) == n and all(r is not None for r in ds.rows):
        eng.prove(z3.And([toint(r[1]) == toint(l.nbytes)
                          for r, l in zip(ds.rows, lines)]),
                  "log: every line copied with all of its bytes (no "
                  "truncation)")
    return "ok"


def run_case(name, params):
    eng = Engine(timeout_ms=20000)
    fn = {"tree": run_tree, "varlog": run_varlog, "cli": run_cli,
          "table-ds": run_table_ds}[
        params["kind"]]
    eng.explore(lambda e: fn(e, params))
    return eng.stats()


def cases(tier, seed):
    out = []
    cmax = 5 if tier == "quick" else 8
    base = dict(kind="tree", cmax=cmax, summaries=False, empty_feature=False,
                unknown_feature=False, logs=1, tables="attrs", basins=1,
                features="all", include_basins=True, include_logs=True)
    variants = [
        {}, {"summaries": True}, {"empty_feature": True},
        {"unknown_feature": True}, {"logs": 0}, {"logs": 2},
        {"tables": False}, {"tables": "plain"}, {"basins": 0},
        {"basins": 2}, {"basins": 3}, {"features": "scalar"},
        {"include_basins": False, "basins": 3}, {"include_logs": False},
        {"features": "scalar", "basins": 3},
        {"basins": 1, "basin_feats": True},
        {"features": "scalar", "basins": 3, "basin_feats": True},
    ]
    for v in variants:
        pp = dict(base)
        pp.update(v)
        out.append(("tree %s" % (v or "base"), pp))
    out.append(("store_table from an HDF5 dataset",
                dict(base, kind="table-ds")))
    for n in (1, 2):
        out.append(("varlog n=%d" % n, dict(kind="varlog", n=n)))
    for task in ("repack", "compress"):
        out.append(("cli %s options" % task, dict(kind="cli", task=task)))
    random.Random(seed).shuffle(out)
    return out


# ------------------------------------------------------------------ replay
def replay(case, params, v):
    import os
    import tempfile
    import h5py
    import dclab.rtdc_dataset.writer as Wm
    vals = v.get("values") or {}
    p = params
    rtdc_copy = real(CP, "rtdc_copy")
    fails = []
    with tempfile.TemporaryDirectory(prefix="verif_c08_") as td, quiet():
        ps, pd = os.path.join(td, "s.rtdc"), os.path.join(td, "d.rtdc")
        if p["kind"] == "table-ds":
            RTDCWriter = real(W, "RTDCWriter")
            with h5py.File(ps, "w") as h:
                t = h.require_group("tables").create_dataset(
                    "tab", data=np.rec.array(
                        [(1., 3.), (2., 4.)],
                        dtype=[("a", float), ("b", float)]))
                t.attrs["hello"] = "world"
                t.attrs["COLOR_a"] = "#ff0000"
            with h5py.File(ps, "r") as h, \
                    RTDCWriter(pd, mode="reset") as hw:
                hw.store_table("tab", h["tables/tab"])
            with h5py.File(ps, "r") as a, h5py.File(pd, "r") as b:
                ta, tb = a["tables/tab"], b["tables/tab"]
                for k in ta.attrs:
                    if k not in tb.attrs or tb.attrs[k] != ta.attrs[k]:
                        fails.append("store_table(<HDF5 dataset>): table "
                                     "attribute %r is not carried over" % k)
                if ta.dtype.names != tb.dtype.names or not all(
                        np.array_equal(ta[n][:], tb[n][:])
                        for n in ta.dtype.names):
                    fails.append("store_table(<HDF5 dataset>): columns "
                                 "differ")
            if not fails:
                return {"reproduced": False, "key": "not-reproduced",
                        "detail": "table attributes arrive"}
            return {"reproduced": True,
                    "key": "store_table|h5-dataset|attributes-lost",
                    "detail": fails[0]}
        if p["kind"] == "cli":
            import dclab.cli as cli
            import dclab.rtdc_dataset.writer as Wm
            Wm.version = "0.62.7"
            with Wm.RTDCWriter(ps, mode="reset") as hw:
                hw.store_feature("deform", np.linspace(.1, .2, 3))
                hw.store_feature("image", np.arange(48).reshape(
                    3, 4, 4).astype(np.uint8))
                hw.store_metadata({"setup": {"channel width": 20.0},
                                   "experiment": {"event count": 3}})
                hw.store_log("fixed-log", ["line one", "line two"])
                hw.store_table("tab", np.rec.array(
                    [(1., 3.), (2., 4.)], dtype=[("a", float),
                                                 ("b", float)]))
                hw.store_basin("b0", "file", "hdf5", ["/d/o0.rtdc"],
                               verify=False)
                hw.h5file.attrs["user:gate:lower"] = 1.5
            opts = {}
            if p["task"] == "repack":
                opts = dict(strip_basins=bool(vals.get("strip_basins",
                                                       False)),
                            strip_logs=bool(vals.get("strip_logs", False)))
            getattr(cli, p["task"])(path_in=ps, path_out=pd, **opts)
            with h5py.File(ps, "r") as a, h5py.File(pd, "r") as b:
                for ak in ("user:gate:lower", "setup:channel width"):
                    if ak not in b.attrs or b.attrs[ak] != a.attrs[ak]:
                        fails.append("dclab-%s: root attribute %r of the "
                                     "input is missing in the output" % (
                                         p["task"], ak))
                for grp, strip in (("tables", False),
                                   ("logs", opts.get("strip_logs")),
                                   ("basins", opts.get("strip_basins")),
                                   ("events", False)):
                    have = grp in b and len(b[grp]) > 0
                    if strip and have and grp != "logs":
                        fails.append("%s present although stripped" % grp)
                    if not strip and not have:
                        fails.append("dclab-%s %r: group /%s of the input "
                                     "is missing in the output" % (
                                         p["task"], opts, grp))
            if not fails:
                return {"reproduced": False, "key": "not-reproduced",
                        "detail": "task output complete on the real code"}
            return {"reproduced": True,
                    "key": "cli|%s|content-dropped" % p["task"],
                    "detail": fails[0]}
        if p["kind"] == "varlog":
            n = p["n"]
            lines = []
            for i in range(n):
                nb = int(vals.get("bytes%d" % i, 5))
                nc = int(vals.get("chars%d" % i, 5))
                extra = max(0, nb - nc)
                chars = []
                for _ in range(nc):       # 1- to 4-byte characters
                    e = min(3, extra)
                    extra -= e
                    chars.append(["a", "\u00b5", "\u20ac",
                                  "\U0001F600"][e])
                lines.append("".join(chars))
            with h5py.File(ps, "w") as h:
                h.require_group("logs").create_dataset(
                    "varlog", data=np.array(lines, dtype=object),
                    dtype=h5py.string_dtype())
                h.require_group("events").create_dataset(
                    "deform", data=np.linspace(.1, .2, 3))
            with h5py.File(ps, "r") as a, h5py.File(pd, "w") as b:
                rtdc_copy(a, b)
            with h5py.File(pd, "r") as b:
                got = [x.decode("utf-8", errors="replace")
                       for x in b["logs/varlog"][:]]
            if got != lines:
                j = [i for i in range(n) if i >= len(got)
                     or got[i] != lines[i]][0]
                fails.append("variable-length log line of %d characters / "
                             "%d bytes is copied as %d characters" % (
                                 len(lines[j]), len(lines[j].encode()),
                                 len(got[j]) if j < len(got) else 0))
            key = "h5ds_copy|variable-length-log|truncated"
        else:
            c1 = int(vals.get("chunk_deform", 3))
            c2 = int(vals.get("chunk_image", 3))
            z1, z2 = int(vals.get("zstd_deform", 0)), int(
                vals.get("zstd_image", 0))
            import hdf5plugin
            with h5py.File(ps, "w") as h:
                ev = h.require_group("events")
                kw1 = hdf5plugin.Zstd(clevel=z1) if z1 else {}
                kw2 = hdf5plugin.Zstd(clevel=z2) if z2 else {}
                ev.create_dataset("deform", data=np.linspace(.1, .2, 3),
                                  chunks=(c1,), maxshape=(None,), **kw1)
                ev.create_dataset("image", data=np.arange(48, dtype=np.uint8)
                                  .reshape(3, 4, 4), chunks=(c2, 4, 4),
                                  maxshape=(None, 4, 4), **kw2)
                ev.require_group("trace").create_dataset(
                    "fl1_raw", data=np.arange(24, dtype=np.int16)
                    .reshape(3, 8))
                if p["empty_feature"]:
                    ev.create_dataset("area_um", data=np.zeros(0),
                                      chunks=(1,), maxshape=(None,))
                h.attrs["setup:channel width"] = 20.0
                h.attrs["user:gate:lower"] = 1.5
            with Wm.RTDCWriter(ps, mode="append") as hw:
                if p["logs"]:
                    hw.store_log("fixed-log", ["line one", "line two"])
                if p["tables"]:
                    hw.store_table("tab", {"a": [1., 2.], "b": [3., 4.]})
                for bi in range(p["basins"]):
                    kw = {}
                    if bi % 3 == 1:
                        kw["basin_map"] = np.array([0, 2, 1],
                                                   dtype=np.uint64)
                    if bi % 3 == 2:
                        hw.store_basin("b%d" % bi, "internal", "h5dataset",
                                       ["basin_events"],
                                       basin_feats=["userdef1"],
                                       basin_map=np.array([0, 0, 1],
                                                          dtype=np.uint64),
                                       internal_data={"userdef1":
                                                      np.array([5., 6.])},
                                       verify=False)
                    else:
                        if bi % 3 == 0 and p.get("basin_feats"):
                            kw["basin_feats"] = ["aspect", "deform"]
                        hw.store_basin("b%d" % bi, "file", "hdf5",
                                       ["/d/o%d.rtdc" % bi], verify=False,
                                       **kw)
            if p["tables"] == "attrs":
                with h5py.File(ps, "a") as h:
                    h["tables/tab"].attrs["hello"] = "world"
            try:
                with h5py.File(ps, "r") as a, h5py.File(pd, "w") as b:
                    rtdc_copy(a, b, features=p["features"],
                              include_basins=p["include_basins"],
                              include_logs=p["include_logs"])
            except Exception as e:
                fails.append("rtdc_copy raised %r (basins=%d, empty feature="
                             "%s)" % (e, p["basins"], p["empty_feature"]))
            if not fails:
                with h5py.File(ps, "r") as a, h5py.File(pd, "r") as b:
                    for ak in a.attrs:
                        if ak not in b.attrs or not np.all(
                                a.attrs[ak] == b.attrs[ak]):
                            fails.append("root attribute %r not copied"
                                         % ak)

                    def walk(x, y, pth):
                        for k in x:
                            q = pth + "/" + k
                            if q.startswith("/logs") and \
                                    not p["include_logs"]:
                                continue
                            if (q.startswith("/basin") or "basinmap" in q) \
                                    and not p["include_basins"]:
                                continue
                            if p["features"] == "scalar" and q in (
                                    "/events/image", "/events/trace"):
                                continue
                            if q == "/events/area_um":
                                continue
                            if k not in y:
                                fails.append("missing %s" % q)
                                continue
                            if isinstance(x[k], h5py.Group):
                                walk(x[k], y[k], q)
                            else:
                                if x[k].shape != y[k].shape or not np.all(
                                        x[k][...] == y[k][...]):
                                    fails.append("data %s" % q)
                            for ak in x[k].attrs:
                                if ak not in y[k].attrs:
                                    fails.append("attribute %s@%s not "
                                                 "copied" % (q, ak))
                    walk(a, b, "")
            key = "rtdc_copy|" + (fails[0][:50] if fails else "")
            if fails and "name already exists" in fails[0]:
                key = "basin_definition_copy|several-basins|name-already-" \
                      "exists"
            elif fails and "tables" in fails[0]:
                key = "rtdc_copy|table-attributes-not-copied"
            elif fails and p["empty_feature"] and "raised" in fails[0]:
                key = "rtdc_copy|empty-scalar-feature|AttributeError"
    if not fails:
        return {"reproduced": False, "key": "not-reproduced",
                "detail": "copy equals source on the real code (%r)" % (p,)}
    return {"reproduced": True, "key": key, "detail": fails[0]}


CANARIES = [
    dict(name="chunk-wise copy skips the last chunk", module=CP,
         qualname="h5ds_copy",
         old="                for chunk in src.iter_chunks():\n"
             "                    dst[chunk] = src[chunk]",
         new="                for chunk in list(src.iter_chunks())[:-1]:\n"
             "                    dst[chunk] = src[chunk]"),
    dict(name="dataset attributes not copied", module=CP,
         qualname="h5ds_copy",
         old="            for key in src.attrs:\n"
             "                dst.attrs[key] = src.attrs[key]",
         new="            pass"),
    dict(name="logs copied without the last one", module=CP,
         qualname="rtdc_copy",
         old='        for l_key in src_h5file["logs"]:',
         new='        for l_key in list(src_h5file["logs"])[:-1]:'),
]
