"""C19 -- HTTPFile range cache: bytes returned == bytes of the resource.

Real code executed symbolically: HTTPFile.read / read_range_cached /
get_cache_chunk / seek / tell (dclab/http_utils.py).  The remote resource is
an abstract blob; data are *provenance segments* (src, lo, hi), so "the bytes
are right" is linear integer arithmetic over offsets.
"""
import os
import random

import z3

from vf.symx import (Engine, SBool, SInt, rebind, smin, smax, srange, toint,
                     unformat)
from vf.common import real
from vf.dcsym import quiet

PID = "C19"
M = "dclab.http_utils"
FUNCTIONS = [(M, "HTTPFile.read"), (M, "HTTPFile.read_range_cached"),
             (M, "HTTPFile.get_cache_chunk"), (M, "HTTPFile.seek"),
             (M, "HTTPFile.tell"), (M, "HTTPFile.download_range"),
             (M, "HTTPFile.__init__"), (M, "HTTPFile._parse_header"),
             (M, "HTTPFile.length"), (M, "HTTPFile.etag")]
BOUNDS = {
    "quick": {"chunk_size": "1..3", "keep_chunks": "1..3", "length": "0..8",
              "ops": "1 op from an arbitrary valid cache pre-state "
                     "(inductive step) + sequences of <= 2 ops from an empty "
                     "cache", "read size": "-1..length+2",
              "two file objects of one url": "real __init__, chunk sizes "
              "(2,3) and (3,2), length 0..5, seek + read on each",
              "header": "size of the resource given as a decimal text of "
              "1..4 symbolic digits in content-length / content-range"},
    "thorough": {"chunk_size": "1..4", "keep_chunks": "1..4",
                 "length": "0..12",
                 "ops": "inductive step + sequences of <= 3 ops",
                 "read size": "-1..length+3",
                 "two file objects of one url": "chunk sizes (2,3) (3,2) "
                 "(1,3) (2,2), length 0..7",
                 "header": "size text of 1..7 symbolic digits"},
}
OUTSIDE = ["HTTP transport, retries, ETag values other than a quoted "
           "token", "servers that violate RFC 7233 (e.g. content-length of "
           "the whole resource on a 206 reply)", "h5py on top of the file object "
           "(dataset-level equality follows from byte equality + h5py)",
           "chunk_size > 4, keep_chunks > 4 (the code has no constants that "
           "depend on them)", "negative positions", "keep_chunks == 0",
           "thread interleavings"]
STUBS = ["requests session = RFC 7233 server fed by the Range header text "
         "that the real download_range formats (symbolic ints travel through "
         "the text as placeholders): valid range -> blob[first:min(last+1,L)]"
         "; last < first (syntactically invalid) -> whole blob (Range header "
         "ignored, 200); first >= L -> 416 error body (foreign bytes)", "np.int64 = identity on mathematical ints",
         "header case: the same server also sends content-length (size of "
         "the body), content-range `bytes a-b/<size>` on 206 and a quoted "
         "etag; `int()` on a text with symbolic characters = decimal value "
         "if all characters are digits (blanks around ignored), ValueError "
         "otherwise"]
ASSUMPTIONS = ["bytes are modelled by provenance (offset segments), i.e. the "
               "check is about which offsets are returned",
               "a read at position p with size n must return "
               "blob[p:min(p+n,L)] (all remaining bytes for n < 0), "
               "file-object semantics"]
EXPLANATION = ("C19: HTTPFile methods re-bound to symbolic ints; cache "
               "pre-state arbitrary (subset of valid chunks, FIFO order "
               "arbitrary among the explored orders).")

FOREIGN = "foreign"


class Blob:
    """concatenation of segments (src, lo, hi); lo <= hi symbolic ints"""

    def __init__(self, segs):
        self.segs = segs

    def _len(self):
        t = z3.IntVal(0)
        for _, lo, hi in self.segs:
            t = t + (hi - lo)
        return t

    def __len__(self):
        return Engine.cur.concretize(SInt(self._len()))

    def __radd__(self, o):
        assert o == b""
        return self

    def __add__(self, o):
        if isinstance(o, bytes):
            assert o == b""
            return self
        return Blob(self.segs + o.segs)

    __iadd__ = __add__

    def __getitem__(self, sl):
        assert isinstance(sl, slice) and sl.step is None
        assert len(self.segs) == 1
        src, lo, hi = self.segs[0]
        n = hi - lo

        def norm(a, dflt):
            if a is None:
                return dflt
            a = toint(a)
            return z3.If(a < 0, z3.If(n + a < 0, 0, n + a),
                         z3.If(a > n, n, a))
        a = norm(sl.start, z3.IntVal(0))
        b = norm(sl.stop, n)
        b = z3.If(b < a, a, b)
        return Blob([(src, lo + a, lo + b)])


class npshim:
    @staticmethod
    def int64(x):
        return x


def make_file(L, cs, keep):
    ns = dict(np=npshim, range=srange, min=smin, max=smax, os=os)
    cls_ns = {}
    for name in ["read", "read_range_cached", "get_cache_chunk", "seek",
                 "tell"]:
        cls_ns[name] = rebind(real(M, "HTTPFile." + name), **ns)

    cls_ns["download_range"] = rebind(real(M, "HTTPFile.download_range"),
                                      **ns)
    cls_ns["length"] = property(lambda self: self._len)
    cls = type("HTTPFile_sym", (object,), cls_ns)
    f = cls()
    f._chunk_size = cs
    f._keep_chunks = keep
    f._len = L
    f._pos = 0
    f.cache = {}
    f.url = "http://verif.invalid/x.rtdc"
    f.session = SymServer(L)
    return f


class SymResp:
    def __init__(self, content, status):
        self.content = content
        self.status_code = status
        self.headers = {}
        self.reason = ""


class SymServer:
    """RFC 7233 range server over the abstract blob; the Range header text
    produced by the real download_range is parsed back (unformat)"""

    def __init__(self, L):
        self.L = L
        self.requests = []

    def get(self, url, headers=None, **kw):
        Le = toint(self.L)
        whole = Blob([("blob", z3.IntVal(0), Le)])
        if not headers or "Range" not in headers:
            return SymResp(whole, 200)
        unit, spec = headers["Range"].split("=", 1)
        a, b = spec.split("-", 1)
        if unit != "bytes":
            return SymResp(whole, 200)
        first, last = toint(unformat(a)), toint(unformat(b))
        self.requests.append((first, last))
        if Engine.cur.branch(last < first):
            return SymResp(whole, 200)                   # header ignored
        if Engine.cur.branch(first >= Le):
            return SymResp(Blob([(FOREIGN, z3.IntVal(0), z3.IntVal(7))]),
                           416)
        hi = z3.If(last + 1 > Le, Le, last + 1)
        return SymResp(Blob([("blob", first, hi)]), 206)

    def close(self):
        pass


def bytes_ok(data, p, e):
    """z3 Bool: data == blob[p:e]  (empty if e <= p)"""
    segs = data.segs if isinstance(data, Blob) else []
    if not isinstance(data, Blob):
        assert data == b""
    e = z3.If(e < p, p, e)
    total = z3.IntVal(0)
    conds = []
    for src, lo, hi in segs:
        nonempty = hi - lo > 0
        if src != "blob":
            conds.append(z3.Not(nonempty))
        else:
            conds.append(z3.Implies(nonempty, lo == p + total))
        total = total + (hi - lo)
    conds.append(total == e - p)
    return z3.And(conds)


def do_op(eng, f, kind, i, L, lim):
    """apply one operation with symbolic arguments; prove its spec"""
    Le = toint(L)
    p = toint(f._pos)
    if kind == "read":
        size = eng.int("size%d" % i)
        eng.assume((size >= -1) & (size <= lim))
        data = f.read(size)
        se = toint(size)
        end = z3.If(se < 0, Le, z3.If(p + se > Le, Le, p + se))
        eng.prove(bytes_ok(data, p, end), "bytes",
                  info=lambda ev: {"op": i})
        newp = toint(f._pos)
        eng.prove(z3.If(z3.And(se >= 0, p + se <= Le), newp == p + se,
                        newp >= Le), "position-after-read")
    elif kind.startswith("seek"):
        off = eng.int("off%d" % i)
        wh = {"seek_set": os.SEEK_SET, "seek_cur": os.SEEK_CUR,
              "seek_end": os.SEEK_END}[kind]
        base = {"seek_set": z3.IntVal(0), "seek_cur": p, "seek_end": Le}[kind]
        eng.assume(SInt(base + toint(off)) >= 0)
        eng.assume(SInt(base + toint(off)) <= L + 2)
        f.seek(off, wh)
        eng.prove(toint(f.tell()) == base + toint(off), "seek/tell")
    eng.prove(z3.IntVal(len(f.cache)) <= toint(f._keep_chunks), "cache-bound")
    # every cached chunk holds the right bytes (invariant for induction)
    cs = toint(f._chunk_size)
    for k, ch in f.cache.items():
        lo = k * cs
        hi = z3.If((k + 1) * cs > Le, Le, (k + 1) * cs)
        eng.prove(z3.Implies(lo < Le, bytes_ok(ch, lo, hi)),
                  "cache-content")


def run_two(eng, p):
    """two file objects for the SAME url in one process, created by the real
    __init__ with different chunk sizes: what the second one returns does
    not depend on what the first one did"""
    from vf.dcsym import shadow
    L = eng.int("L")
    eng.assume((L >= 0) & (L <= p["Lmax"]))

    class SessionCache:
        def get_session(self, url):
            return SymServer(L)
    ns = shadow(M, np=npshim, range=srange, min=smin, max=smax, os=os,
                session_cache=SessionCache())
    for k_, v_ in list(ns.items()):       # module-level state: private
        if isinstance(v_, (set, dict, list)) and not k_.startswith("__"):
            ns[k_] = type(v_)()
    files = []
    for cs in (p["cs"], p["cs2"]):
        f = ns["HTTPFile"]("http://verif.invalid/x.rtdc", chunk_size=cs,
                           keep_chunks=p["keep"])
        f._len, f._etag = L, "etag"
        files.append(f)
    i = 0
    for f in files:
        for kind in ("seek_set", "read"):
            do_op(eng, f, kind, i, L, p["Lmax"] + p["over"])
            i += 1
    return "ok"


# ------------------------------------------------------------ header parsing
def _sint_text(x, *a):
    """`int()` on a string with symbolic characters (decimal digits, blanks
    around them ignored, anything else is a ValueError like in Python)"""
    from vf.symx import SStr, sint
    if not isinstance(x, SStr):
        return sint(x, *a)
    items = x.strip().items
    if not items:
        raise ValueError("invalid literal for int(): ''")
    val = z3.IntVal(0)
    for c in items:
        if isinstance(c, str):
            if not c.isdigit():
                raise ValueError("invalid literal for int(): %r" % (x,))
            code = z3.IntVal(ord(c))
        else:
            code = toint(c)
            if not bool(SBool(z3.And(code >= 48, code <= 57))):
                raise ValueError("invalid literal for int()")
        val = val * 10 + (code - 48)
    return SInt(val)


class HeaderServer(SymServer):
    """as SymServer, plus the RFC 7233 response headers: `content-length`
    (size of the body sent), `content-range` for partial content, `etag`;
    the total size is the decimal text `digits` (symbolic digit values)"""

    def __init__(self, L, digits):
        SymServer.__init__(self, L)
        self.digits = digits

    def get(self, url, headers=None, **kw):
        from vf.symx import SStr
        resp = SymServer.get(self, url, headers=headers, **kw)
        total = SStr.digits(self.digits)
        resp.headers = {"etag": '"abcdef123456"'}
        if resp.status_code == 206:
            first, last = self.requests[-1]
            first, last = z3.simplify(first), z3.simplify(last)
            assert z3.is_int_value(first) and z3.is_int_value(last), \
                "header case: only concrete ranges are served"
            Le = toint(self.L)
            # the harness only serves ranges inside the resource here
            Engine.cur.assume(SBool(last < Le))
            resp.headers["content-range"] = SStr.lift(
                "bytes %d-%d/" % (first.as_long(), last.as_long())) + total
            resp.headers["content-length"] = str(
                last.as_long() - first.as_long() + 1)
        elif resp.status_code == 200:
            resp.headers["content-length"] = total
        return resp


def run_header(eng, p):
    """the real `_parse_header` / `length` / `etag` / seek(SEEK_END) / read
    on a file object created by the real `__init__`, the size of the resource
    being a decimal text of `k` symbolic digits in the response headers"""
    from vf.dcsym import shadow
    k = p["digits"]
    ds = [eng.int("d%d" % i) for i in range(k)]
    for i, d in enumerate(ds):
        eng.assume((d >= (1 if (i == 0 and k > 1) else 0)) & (d <= 9))
    Le = z3.IntVal(0)
    for d in ds:
        Le = Le * 10 + toint(d)
    L = eng.int("L")
    eng.assume(SBool(toint(L) == Le))

    class SessionCache:
        def get_session(self, url):
            return HeaderServer(L, ds)
    ns = shadow(M, np=npshim, range=srange, min=smin, max=smax, os=os,
                int=_sint_text, session_cache=SessionCache())
    for k_, v_ in list(ns.items()):
        if isinstance(v_, (set, dict, list)) and not k_.startswith("__"):
            ns[k_] = type(v_)()
    f = ns["HTTPFile"]("http://verif.invalid/x.rtdc", chunk_size=p["cs"],
                       keep_chunks=2)
    with quiet():
        got = f.length
        eng.prove(toint(got) == toint(L),
                  "header: length == size of the resource")
        eng.prove(z3.BoolVal(f.etag == "abcdef123456"), "header: etag")
        f.seek(0, os.SEEK_END)
        eng.prove(toint(f.tell()) == toint(L),
                  "header: position after seek(0, SEEK_END) == size")
    return "ok"


def run_case(name, params):
    if params.get("header"):
        eng = Engine(timeout_ms=20000)
        eng.explore(lambda e: run_header(e, params))
        return eng.stats()
    if params.get("two"):
        eng = Engine(timeout_ms=20000)
        eng.explore(lambda e: run_two(e, params))
        return eng.stats()
    cs, keep, Lmax = params["cs"], params["keep"], params["Lmax"]
    ops = params["ops"]
    pre = params.get("pre")  # tuple of cached chunk indices (insertion order)
    eng = Engine(timeout_ms=20000)

    def run(eng):
        L = eng.int("L")
        eng.assume((L >= 0) & (L <= Lmax))
        f = make_file(L, cs, keep)
        Le = toint(L)
        if pre is not None:
            # arbitrary valid pre-state: these chunks are cached & correct
            for k in pre:
                eng.assume(SInt(Le) > k * cs)
                hi = z3.If((k + 1) * cs > Le, Le, (k + 1) * cs)
                f.cache[k] = Blob([("blob", z3.IntVal(k * cs), hi)])
            pos = eng.int("pos")
            eng.assume((pos >= 0) & (pos <= L + 1))
            f._pos = pos
        for i, kind in enumerate(ops):
            do_op(eng, f, kind, i, L, Lmax + params["over"])
        return "ok"
    eng.explore(run)
    return eng.stats()


def cases(tier, seed):
    import itertools
    out = []
    if tier == "quick":
        CS, KEEP, Lmax, over, seqlen = [1, 2, 3], [1, 2, 3], 8, 2, 2
    else:
        CS, KEEP, Lmax, over, seqlen = [1, 2, 3, 4], [1, 2, 3, 4], 12, 3, 3
    kinds = ["read", "seek_set", "seek_cur", "seek_end"]
    for cs in CS:
        for keep in KEEP:
            # inductive step: arbitrary cache pre-state (<= keep chunks),
            # all insertion orders of every subset of chunk indices 0..3
            maxidx = min(3, (Lmax - 1) // cs)     # chunk must exist
            for r in range(0, keep + 1):
                for sub in itertools.permutations(range(maxidx + 1), r):
                    out.append(("step cs=%d keep=%d pre=%s" % (cs, keep, sub),
                                dict(cs=cs, keep=keep, Lmax=Lmax, over=over,
                                     ops=["read"], pre=list(sub))))
            # composed sequences from the empty cache
            for n in range(1, seqlen + 1):
                for seq in itertools.product(kinds, repeat=n):
                    if "read" not in seq or seq[-1] != "read":
                        continue
                    out.append(("seq cs=%d keep=%d %s" % (cs, keep,
                                                         ",".join(seq)),
                                dict(cs=cs, keep=keep,
                                     Lmax=min(Lmax, 3 * cs + 1), over=over,
                                     ops=list(seq), pre=None)))
    for cs, cs2 in ((2, 3), (3, 2)) if tier == "quick" else (
            (2, 3), (3, 2), (1, 3), (2, 2)):
        out.append(("two file objects of one url cs=%d,%d" % (cs, cs2),
                    dict(two=True, cs=cs, cs2=cs2, keep=2,
                         Lmax=5 if tier == "quick" else 7, over=2,
                         ops=["seek_set", "read", "seek_set", "read"],
                         pre=None)))
    for k in (1, 2, 3, 4) if tier == "quick" else (1, 2, 3, 4, 5, 6, 7):
        out.append(("header: size text of %d digits" % k,
                    dict(header=True, digits=k, cs=3)))
    random.Random(seed).shuffle(out)
    return out


# ------------------------------------------------------------------ replay
class _Resp:
    def __init__(self, status, content, headers):
        self.status_code = status
        self.content = content
        self.headers = headers
        self.reason = ""


class RFCServer:
    """in-memory RFC 7233 compliant range server (replaces requests session)"""

    def __init__(self, blob):
        self.blob = blob
        self.log = []

    def get(self, url, headers=None, stream=False, timeout=None, **kw):
        L = len(self.blob)
        hdr = {"content-length": str(L), "etag": '"abcdef123456"'}
        if not headers or "Range" not in headers:
            return _Resp(200, self.blob, hdr)
        spec = headers["Range"].split("=")[1]
        a, b = spec.split("-", 1)
        self.log.append(spec)
        try:
            first, last = int(a), int(b)
        except ValueError:
            return _Resp(200, self.blob, hdr)
        if last < first:
            return _Resp(200, self.blob, hdr)
        if first >= L:
            return _Resp(416, b"<416!!>", hdr)
        part = self.blob[first:last + 1]
        hdr = dict(hdr)
        hdr["content-length"] = str(len(part))
        hdr["content-range"] = "bytes %d-%d/%d" % (
            first, first + len(part) - 1, L)
        return _Resp(206, part, hdr)

    def close(self):
        pass


def concrete_run(cs, keep, L, pre, pos, oplist):
    """run the real, unmodified HTTPFile on a concrete scenario.
    returns list of failure descriptions (empty = property held)"""
    HTTPFile = real(M, "HTTPFile")
    blob = bytes((7 * i + 3) % 251 for i in range(L))
    f = HTTPFile("http://verif.invalid/x.rtdc", chunk_size=cs,
                 keep_chunks=keep)
    f.session = RFCServer(blob)
    fails = []
    if pre is not None:
        for k in pre:
            f.cache[k] = blob[k * cs:(k + 1) * cs]
        f._pos = pos
    for kind, arg in oplist:
        p = f._pos
        try:
            if kind == "read":
                data = f.read(arg)
                exp = blob[p:] if arg < 0 else blob[p:p + arg]
                if data != exp:
                    fails.append("read(%d) at pos %d of %d bytes (chunk_size="
                                 "%d, keep_chunks=%d) returned %d bytes, "
                                 "expected %d" % (arg, p, L, cs, keep,
                                                  len(data), len(exp)))
                    break
                if arg >= 0 and p + arg <= L and f.tell() != p + arg:
                    fails.append("position after read")
                    break
            else:
                wh = {"seek_set": os.SEEK_SET, "seek_cur": os.SEEK_CUR,
                      "seek_end": os.SEEK_END}[kind]
                f.seek(arg, wh)
        except Exception as e:
            fails.append("%s(%s) at pos %s raised %r (length=%d chunk_size=%d"
                         " keep_chunks=%d)" % (kind, arg, p, e, L, cs, keep))
            break
        if len(f.cache) > keep:
            fails.append("cache holds %d chunks > keep_chunks=%d" % (
                len(f.cache), keep))
            break
    return fails


def _scenario(params, values):
    ops = []
    for i, kind in enumerate(params["ops"]):
        if kind == "read":
            if "size%d" % i not in values:
                break
            ops.append((kind, values["size%d" % i]))
        else:
            if "off%d" % i not in values:
                break
            ops.append((kind, values["off%d" % i]))
    return dict(cs=params["cs"], keep=params["keep"], L=values["L"],
                pre=params.get("pre"), pos=values.get("pos", 0), oplist=ops)


def _overshoots(msg, sc):
    import re
    m = re.match(r"read\((-?\d+)\) at pos (\d+) of (\d+) bytes", msg)
    return bool(m) and int(m.group(2)) + int(m.group(1)) > int(m.group(3))


def classify(msg, sc):
    if "KeyError" in msg:
        return "get_cache_chunk|keep_chunks-evicts-requested-chunk|KeyError"
    if "returned" in msg:
        ops = sc["oplist"]
        p = sc["pos"]
        over = any(k == "read" and a > 0 for k, a in ops) and \
            "read(-1)" not in msg and _overshoots(msg, sc)
        if "read(-1)" in msg:
            return "read|size<0|wrong-bytes"
        return "read|past-end-of-resource|wrong-bytes" if over else \
            "read|within-resource|wrong-bytes"
    if "cache holds" in msg:
        return "get_cache_chunk|cache-bound-exceeded"
    return "other|" + msg[:60]


def replay(case, params, v):
    vals = v.get("values") or {}
    if "L" not in vals:
        return {"reproduced": False, "key": "no-model", "detail": str(v)}
    if params.get("header"):
        return replay_header(params, vals)
    if params.get("two"):
        return replay_two(params, vals)
    sc = _scenario(params, vals)
    fails = concrete_run(**sc)
    if not fails:
        return {"reproduced": False, "key": "not-reproduced",
                "detail": "scenario %r passes on the real code" % (sc,)}
    return {"reproduced": True, "key": classify(fails[0], sc),
            "detail": fails[0] + " | scenario=%r" % (sc,)}


def replay_header(p, vals):
    HTTPFile = real(M, "HTTPFile")
    L = int(vals["L"])
    blob = bytes((7 * i + 3) % 251 for i in range(L))
    f = HTTPFile("http://verif.invalid/x.rtdc", chunk_size=max(p["cs"], 64),
                 keep_chunks=2)
    f.session = RFCServer(blob)
    fails = []
    with quiet():
        try:
            if f.length != L:
                fails.append("HTTPFile.length is %r for a resource of %d "
                             "bytes" % (f.length, L))
            if f.etag != "abcdef123456":
                fails.append("etag %r" % (f.etag,))
            f.seek(0, os.SEEK_END)
            if f.tell() != L:
                fails.append("position %r after seek(0, SEEK_END) on %d "
                             "bytes" % (f.tell(), L))
            f.seek(0)
            data = f.read()
            if data != blob:
                fails.append("read() returned %d bytes of a resource of %d "
                             "bytes" % (len(data), L))
        except Exception as e:
            fails.append("header parsing raised %r (size %d)" % (e, L))
    if not fails:
        return {"reproduced": False, "key": "not-reproduced",
                "detail": "size %d is parsed correctly" % L}
    return {"reproduced": True, "key": "_parse_header|wrong-length",
            "detail": fails[0]}


def replay_two(p, vals):
    HTTPFile = real(M, "HTTPFile")
    L = int(vals["L"])
    blob = bytes((7 * i + 3) % 251 for i in range(L))
    fails = []
    i = 0
    for cs in (p["cs"], p["cs2"]):
        f = HTTPFile("http://verif.invalid/x.rtdc", chunk_size=cs,
                     keep_chunks=p["keep"])
        f.session = RFCServer(blob)
        f._len, f._etag = L, "etag"
        off = int(vals.get("off%d" % i, 0))
        size = int(vals.get("size%d" % (i + 1), 1))
        i += 2
        try:
            f.seek(off)
            data = f.read(size)
        except Exception as e:
            fails.append("file object with chunk_size=%d: seek(%d); read(%d) "
                         "raised %r" % (cs, off, size, e))
            break
        exp = blob[off:] if size < 0 else blob[off:off + size]
        if data != exp:
            fails.append("second file object of the same url (chunk_size=%d "
                         "after one with chunk_size=%d): seek(%d); read(%d) "
                         "on %d bytes returned %r, expected %r" % (
                             cs, p["cs"], off, size, L, data, exp))
            break
    if not fails:
        return {"reproduced": False, "key": "not-reproduced",
                "detail": "both file objects return the right bytes"}
    return {"reproduced": True,
            "key": "HTTPFile|two-objects-one-url|wrong-bytes",
            "detail": fails[0]}


def validate(tier, seed):
    """the unmodified HTTPFile on concrete scenarios vs. the same scenarios
    pushed through the symbolic shim (all variables pinned)"""
    rnd = random.Random(seed + 1)
    mism = []
    n = 0
    for _ in range(40 if tier == "quick" else 150):
        cs = rnd.randint(1, 4)
        keep = rnd.randint(2, 4)
        L = rnd.randint(0, 12)
        ops, pins = [], {"L": L}
        for i in range(rnd.randint(1, 3)):
            if rnd.random() < 0.6:
                ops.append("read")
                pins["size%d" % i] = rnd.choice([-1, 1, 2, 3, cs, 2 * cs, L])\
                    or 1
            else:
                ops.append("seek_set")
                pins["off%d" % i] = rnd.randint(0, L + 1)
        params = dict(cs=cs, keep=keep, Lmax=12, over=12, ops=ops, pre=None)
        eng = Engine()

        def run(eng):
            L_ = eng.int("L")
            eng.assume(L_ == pins["L"])
            f = make_file(L_, cs, keep)
            for i, kind in enumerate(ops):
                if kind == "read":
                    z = eng.int("size%d" % i)
                    eng.assume(z == pins["size%d" % i])
                    pp = toint(f._pos)
                    d = f.read(z)
                    Le = toint(L_)
                    se = toint(z)
                    end = z3.If(se < 0, Le, z3.If(pp + se > Le, Le, pp + se))
                    eng.prove(bytes_ok(d, pp, end), "bytes")
                else:
                    z = eng.int("off%d" % i)
                    eng.assume(z == pins["off%d" % i])
                    f.seek(z, os.SEEK_SET)
            return "ok"
        eng.explore(run)
        sym_bad = bool(eng.violations)
        sc = _scenario(params, pins)
        real_bad = bool([m for m in concrete_run(**sc)
                         if "cache holds" not in m])
        n += 1
        if sym_bad != real_bad:
            mism.append("scenario %r: symbolic says %s, real code says %s" % (
                sc, sym_bad, real_bad))
    return {"traces": n, "mismatches": mism}


CANARIES = [
    dict(name="chunk_stop off by one", module=M,
         qualname="HTTPFile.read_range_cached",
         old="stop // self._chunk_size + 1", new="stop // self._chunk_size"),
    dict(name="chunk boundary >= -> >", module=M,
         qualname="HTTPFile.read_range_cached",
         old="chunk_start + toread >= self._chunk_size",
         new="chunk_start + toread > self._chunk_size"),
    dict(name="no eviction", module=M, qualname="HTTPFile.get_cache_chunk",
         old="if len(self.cache) > self._keep_chunks:",
         new="if len(self.cache) > self._keep_chunks + 1:"),
    dict(name="seek_end sign", module=M, qualname="HTTPFile.seek",
         old="self._pos = self.length + offset",
         new="self._pos = self.length - offset"),
]
