"""C11 -- metadata values are type-normalised and survive storage unchanged.

Two engines, both solver based:
(a) symx: the real converters of definitions/meta_parse.py (shadow module,
    builtins float/int/bool routed to symbolic versions) on symbolic numeric
    values, for EVERY key of the metadata tables (the key -> converter table
    is enumerated, the value is symbolic): result type, idempotence, and
    ConfigurationDict.__setitem__/update/constructor agreement.
(b) CrossHair (z3-backed symbolic execution of CPython code) for the
    string-valued part: converters on short symbolic strings, key handling
    of ConfigurationDict, text and HDF5-attribute key round trips
    (harness/ch/c11_conds.py calls the real dclab functions).
"""
import importlib
import os
import random
import re
import subprocess
import sys
import time

import numpy as np
import z3

from vf.common import real, VERIF, REPO
from vf.dcsym import shadow, quiet
from vf.symx import (Engine, SBool, SFloat, SInt, SReal, NotModelled, ite,
                     tobool, toint, toreal)

PID = "C11"
MP = "dclab.definitions.meta_parse"
CF = "dclab.rtdc_dataset.config"
FUNCTIONS = [(MP, "fbool"), (MP, "fint"), (MP, "fintlist"),
             (MP, "fboolorfloat"), (MP, "lcstr"), (MP, "f1dfloatduple"),
             (CF, "ConfigurationDict.__setitem__"),
             (CF, "ConfigurationDict.update"), (CF, "ConfigurationDict._k"),
             (CF, "verify_section_key"), (CF, "keyval_str2typ"),
             (CF, "keyval_typ2str"), (CF, "Configuration.tostring"),
             ("dclab.rtdc_dataset.fmt_hdf5.base", "RTDC_HDF5.parse_config")]
FILES = ["dclab/definitions/meta_const.py", "dclab/definitions/meta_logic.py"]
BOUNDS = {
    "quick": {"numeric values": "arbitrary ints, reals, bools (symbolic) for "
              "every key of every section", "lists": "<= 3 ints",
              "strings (CrossHair)": "printable ASCII, length <= 3..5, "
              "per-condition budget 40 s"},
    "thorough": {"strings (CrossHair)": "per-condition budget 240 s"},
}
OUTSIDE = ["numpy scalar/array value representations and h5py's attribute "
           "type changes (C boundary: CrossHair realises, symx has no model)",
           "float formatting precision of '{:.12f}'", "strings longer than "
           "the bound", "NaN/inf values", "bytes values"]
STUBS = ["builtins float/int/bool on symbolic numbers: float = identity on "
         "reals, int = truncation toward zero, bool = (x != 0)"]
ASSUMPTIONS = ["CrossHair verdict 'Confirmed over all paths' is taken as "
               "'holds within the stated input bound'; 'Not confirmed' is "
               "reported as undecided (never as success)"]
EXPLANATION = ("C11: converters on symbolic numbers for all keys (symx) + "
               "CrossHair conditions for string handling.")
ALLOW_UNKNOWN = True      # CrossHair time-outs are reported, not fatal


# ----------------------------------------------------------- (a) symx part
def sfloat(x):
    if isinstance(x, (SReal, SFloat)):
        return x
    if isinstance(x, SInt):
        return SReal(z3.ToReal(x.e))
    if isinstance(x, SBool):
        return SReal(z3.If(x.e, z3.RealVal(1), z3.RealVal(0)))
    return float(x)


def sint(x):
    if isinstance(x, SInt):
        return x
    if isinstance(x, SBool):
        return SInt(z3.If(x.e, 1, 0))
    if isinstance(x, SReal):
        e = x.e
        return SInt(z3.If(e >= 0, z3.ToInt(e), -z3.ToInt(-e)))
    return int(x)


def sbool(x):
    if isinstance(x, SBool):
        return x
    if isinstance(x, SInt):
        return SBool(x.e != 0)
    if isinstance(x, SReal):
        return SBool(x.e != 0)
    return bool(x)


class _ShimMeta(type):
    def __instancecheck__(cls, x):
        return isinstance(x, cls._real) or isinstance(x, cls._sym)

    def __call__(cls, *a):
        return cls._conv(*a)


def _shim_type(name, realt, symt, conv):
    return _ShimMeta(name, (), {"_real": realt, "_sym": symt,
                                "_conv": staticmethod(conv)})


FLOAT_T = _shim_type("float", (float,), (SReal, SFloat), sfloat)
INT_T = _shim_type("int", (int,), (SInt,), sint)
BOOL_T = _shim_type("bool", (bool,), (SBool,), sbool)


def conv_table():
    import dclab.definitions as dfn
    out = []
    keys = [(sec, key) for sec in sorted(dfn.config_keys)
            for key in sorted(dfn.config_keys[sec])]
    # pattern keys of the online_filter section
    for feat in ("deform", "area_um", "fl1_max"):
        for suffix in ("soft limit", "min", "max"):
            keys.append(("online_filter", "%s %s" % (feat, suffix)))
    keys.append(("online_filter", "area_um,deform soft limit"))
    for sec, key in keys:
        f = dfn.get_config_value_func(sec, key)
        t = dfn.get_config_value_type(sec, key)
        out.append((sec, key, f.__name__, t))
    return out


def doc_type_ok(r, t):
    """symbolic result r is an instance of the documented type t"""
    import numbers
    if t is None:
        return True
    ts = t if isinstance(t, tuple) else (t,)
    for tt in ts:
        if tt in (bool, np.bool_) and isinstance(r, (SBool, bool, np.bool_)):
            return True
        if tt is numbers.Integral and isinstance(r, (SInt, int)) and \
                not isinstance(r, (bool, SBool)):
            return True
        if tt in (numbers.Number, float) and isinstance(
                r, (SReal, SInt, int, float)) and not isinstance(r, SBool):
            return True
        if tt is numbers.Number and isinstance(r, (SBool, bool)):
            return True
        if isinstance(tt, type) and not isinstance(
                r, (SBool, SInt, SReal)) and isinstance(r, tt):
            return True
    return False


def sym_value(eng, kind):
    if kind == "int":
        return eng.int("v")
    if kind == "real":
        return eng.real("v")
    if kind == "bool":
        return eng.bool("v")
    raise ValueError(kind)


def same(a, b):
    if isinstance(a, (SBool, bool)) and isinstance(b, (SBool, bool)):
        return tobool(a) == tobool(b)
    if isinstance(a, (SInt, int)) and isinstance(b, (SInt, int)) and \
            not isinstance(a, bool) and not isinstance(b, bool):
        return toint(a) == toint(b)
    if isinstance(a, (SReal, SInt, int, float)) and \
            isinstance(b, (SReal, SInt, int, float)):
        return toreal(a) == toreal(b)
    return z3.BoolVal(type(a) is type(b) and a == b)


def kind_ok(r, fname):
    """result has the documented type of the converter"""
    if fname == "fbool":
        return isinstance(r, (SBool, bool, np.bool_))
    if fname == "fint":
        return isinstance(r, (SInt, int)) and not isinstance(r, bool)
    if fname == "float":
        return isinstance(r, (SReal, float, SInt, int))
    if fname == "fboolorfloat":
        return isinstance(r, (SBool, bool, SReal, float))
    return True


def run_conv(eng, p):
    """all keys that use converter p['func'], symbolic value of p['vkind']"""
    ns = shadow(MP, float=FLOAT_T, int=INT_T, bool=BOOL_T)
    fname = p["func"]
    f = sfloat if fname == "float" else ns.get(fname, lambda x: x)
    import dclab.definitions as dfn0
    p = dict(p, types={"%s:%s" % (sec, key):
                       dfn0.get_config_value_type(sec, key)
                       for sec, key in p["keys"]})
    v = sym_value(eng, p["vkind"])
    try:
        r = f(v)
    except ValueError:
        eng.reach()
        return "rejected"
    eng.prove(z3.BoolVal(kind_ok(r, fname)),
              "%s(%s) has the documented type" % (fname, p["vkind"]))
    r2 = f(r)
    eng.prove(same(r, r2), "%s is idempotent" % fname)
    # the dictionary routes agree for every key with this converter
    import dclab.definitions as dfn
    cfgns = shadow(CF)
    real_get = dfn.get_config_value_func

    def get_func(sec, key):
        g = real_get(sec, key)
        return sfloat if g is float else ns.get(g.__name__, g)
    dfn_shim = type("dfn", (), {})()
    for k in dir(dfn):
        if not k.startswith("__"):
            setattr(dfn_shim, k, getattr(dfn, k))
    dfn_shim.get_config_value_func = get_func
    dfn_shim.get_config_value_type = lambda s, k: None
    cfgns2 = shadow(CF, dfn=dfn_shim)
    CD = cfgns2["ConfigurationDict"]
    for sec, key in p["keys"]:
        with quiet():
            d1 = CD(section=sec)
            d1[key] = v
            d2 = CD(section=sec)
            d2.update({key.upper(): v})
            d3 = CD(sec, {key.title(): v})
        for d in (d1, d2, d3):
            eng.prove(z3.BoolVal(key in d and list(d.keys()) == [key]),
                      "value stored under the lower-case key",
                      info={"section": sec, "key": key,
                            "keys": list(d.keys())})
        eng.prove(z3.And(same(d1[key], r), same(d2[key], r),
                         same(d3[key], r)),
                  "item / update / constructor routes store %s(value)" %
                  fname)
        eng.prove(z3.BoolVal(doc_type_ok(d1[key], p["types"].get(
            "%s:%s" % (sec, key)))),
            "stored value has the documented type of the key",
            info={"section": sec, "key": key})
    return "ok"


def run_cfgfile(eng, p):
    """the real load_from_file on a configuration text whose section header
    and key have SYMBOLIC letter case and whose (str-typed) value is a
    string of symbolic digits: the value must arrive unchanged under the
    lower-case section / key"""
    from vf.symx import SStr
    sec, key, nd = p["sec"], p["key"], p["nd"]
    hbits = [bool(eng.branch(eng.bool("H%d" % i).e)) for i in range(len(sec))]
    kbit = bool(eng.branch(eng.bool("K0").e))
    digits = [eng.int("d%d" % i) for i in range(nd)]
    for d in digits:
        eng.assume((d >= 48) & (d <= 57))
    header = "[" + "".join(c.upper() if b else c
                           for c, b in zip(sec, hbits)) + "]\n"
    kname = (key[0].upper() if kbit else key[0]) + key[1:]
    line = SStr(list(kname + " = ") + list(digits) + ["\n"])
    lines = ["# comment\n", header, line, "\n"]
    if sec != "user":
        # a key that dclab does not define for this section
        lines.insert(3, "bogus key = 5\n")

    class Path:
        def __init__(self, nm):
            pass

        def resolve(self):
            return self

        def open(self, *a, **k):
            return self

        def __enter__(self):
            return self

        def __exit__(self, *a):
            return False

        def readlines(self):
            return list(lines)

    class pathlib_shim:
        pass
    pathlib_shim.Path = Path

    class _StrMeta(type):
        def __instancecheck__(cls, x):
            return isinstance(x, (str, SStr))

        def __call__(cls, x=""):
            return x if isinstance(x, SStr) else str(x)
    STR_T = _StrMeta("str", (), {})
    import dclab.definitions as dfn
    real_get = dfn.get_config_value_func

    def get_func(sec_, key_):
        g = real_get(sec_, key_)
        if g is str:
            return STR_T
        return g
    dfn_shim = type("dfn", (), {})()
    for k in dir(dfn):
        if not k.startswith("__"):
            setattr(dfn_shim, k, getattr(dfn, k))
    dfn_shim.get_config_value_func = get_func
    ns = shadow(CF, dfn=dfn_shim, pathlib=pathlib_shim, str=STR_T)
    with quiet():
        cfg = ns["load_from_file"]("mem.cfg")
    eng.prove(z3.BoolVal(list(cfg.keys()) == [sec]),
              "config file: section stored under its lower-case name",
              info={"sections": list(cfg.keys())})
    # the same file through Configuration(files=[...]): undefined keys of a
    # defined section are not taken over, values are type-normalised
    with quiet():
        conf = ns["Configuration"](files=["mem.cfg"])
    eng.prove(z3.BoolVal(sec in conf and "bogus key" not in conf[sec]),
              "Configuration(files=...): keys that are not defined for the "
              "section are rejected", info={"keys": list(conf[sec].keys())
                                           if sec in conf else None})
    if sec in conf and key in conf[sec]:
        gotc = conf[sec][key]
        eng.prove(SStr.lift(gotc).eq(SStr(list(digits))) if isinstance(
            gotc, (SStr, str)) else z3.BoolVal(False),
            "Configuration(files=...): str-typed value stored unchanged")
    if sec in cfg:
        d = cfg[sec]
        eng.prove(z3.BoolVal([k for k in d.keys() if k != "bogus key"] ==
                             [key]),
                  "config file: key stored under its lower-case name",
                  info={"keys": list(d.keys())})
        if key in d:
            got = d[key]
            ok = isinstance(got, (SStr, str))
            eng.prove(z3.BoolVal(ok), "config file: str-typed value stays "
                      "a string", info={"type": type(got).__name__})
            if ok:
                eng.prove(SStr.lift(got).eq(SStr(list(digits))),
                          "config file: str-typed value is stored unchanged")
    return "ok"


def run_seqmeta(eng, p):
    """sequence-valued [user] metadata written by the real store_metadata and
    read by the real parse_config keeps its length (also length 1)"""
    from vf import symh5
    from vf.dcsym import build_class
    from vf.symx import rebind
    from dclab.rtdc_dataset.fmt_hdf5 import base as h5base
    n = p["n"]
    Wr = build_class("dclab.rtdc_dataset.writer", "RTDCWriter", h5py=symh5)
    parse = rebind(real("dclab.rtdc_dataset.fmt_hdf5.base",
                        "RTDC_HDF5.parse_config"), h5py=symh5)
    f = symh5.File("a.rtdc", "w")
    val = np.arange(3, 3 + n) if p["vtype"] == "int" else \
        np.linspace(0.25, 0.75, n)
    with quiet():
        hw = Wr(f)
        hw.store_metadata({"user": {"gate ids": val if p["as"] == "array"
                                    else val.tolist()}})
        cfg = parse(f)
    got = cfg["user"].get("gate ids")
    eng.prove(z3.BoolVal(got is not None and np.shape(got) == (n,)),
              "sequence-valued user metadata keeps its shape",
              info={"stored": val.tolist(), "read": repr(got)})
    if got is not None and np.shape(got) == (n,):
        eng.prove(z3.BoolVal(bool(np.all(np.asarray(got) == val))),
                  "sequence-valued user metadata keeps its values")
    return "ok"


def run_rectify(eng, p):
    """metadata written explicitly survives the writer's automatic
    completion on close (real store_metadata + rectify_metadata): the
    fluorescence channel count is only derived when it was not given"""
    from vf import symh5
    from vf.dcsym import build_class
    from vf.symnp import SArr
    Wr = build_class("dclab.rtdc_dataset.writer", "RTDCWriter", h5py=symh5)
    f = symh5.File("a.rtdc", "w")
    given = bool(eng.bool("count_given"))
    cnt = eng.int("count")
    eng.assume((cnt >= 1) & (cnt <= 3))
    present = [bool(eng.bool("has_fl%d_max" % k)) for k in (1, 2, 3)]
    with quiet():
        hw = Wr(f)
        ev = f.require_group("events")
        ev.create_dataset("deform", data=SArr([0.1, 0.2], float))
        for k, h in zip((1, 2, 3), present):
            if h:
                ev.create_dataset("fl%d_max" % k, data=SArr([1., 2.], float))
        if given:
            hw.store_metadata({"fluorescence": {"channel count": cnt}})
        hw.rectify_metadata()
    key = "fluorescence:channel count"
    if given:
        eng.prove(z3.BoolVal(key in f.attrs) if key not in f.attrs else
                  toint(f.attrs[key]) == cnt.e,
                  "an explicitly stored channel count is kept by "
                  "rectify_metadata",
                  info={"flN_max features present": present})
    elif any(present):
        eng.prove(z3.BoolVal(key in f.attrs and
                             int(f.attrs[key]) == sum(present)),
                  "a missing channel count is derived from the flN_max "
                  "features")
    eng.prove(z3.BoolVal(int(f.attrs["experiment:event count"]) == 2),
              "event count == stored events")
    return "ok"


def run_fintlist(eng, p):
    ns = shadow(MP, float=FLOAT_T, int=INT_T, bool=BOOL_T)
    n = p["n"]
    vals = [eng.int("v%d" % i) for i in range(n)]
    r = ns["fintlist"](list(vals))
    eng.prove(z3.BoolVal(isinstance(r, list) and len(r) == n),
              "fintlist keeps every list element")
    if len(r) == n:
        eng.prove(z3.And([toint(a) == b.e for a, b in zip(r, vals)]
                         or [True]), "fintlist keeps the values")
    r2 = ns["fintlist"](r)
    eng.prove(z3.BoolVal(len(r2) == len(r)), "fintlist is idempotent")
    return "ok"


# ------------------------------------------------------ (b) CrossHair part
CONDS = VERIF / "harness" / "ch" / "c11_conds.py"


def ch_conditions():
    src = CONDS.read_text().split("\n")
    out = []
    for i, ln in enumerate(src):
        m = re.match(r"def (_[a-z0-9_]+)\(", ln)
        if m:
            body = []
            for ln2 in src[i + 1:]:
                if ln2.startswith("def ") or ln2.startswith("class "):
                    break
                body.append(ln2)
            if "post:" in "\n".join(body):
                out.append((m.group(1), i + 1))
    return out


def run_crosshair(name, line, budget):
    t0 = time.time()
    env = dict(os.environ, PYTHONPATH=str(VERIF) + ":" + str(REPO),
               PYTHONHASHSEED="0")
    cmd = [sys.executable, "-m", "crosshair", "check", "--report_all",
           "--per_condition_timeout", str(budget),
           "%s:%d" % (CONDS, line + 2)]
    try:
        pr = subprocess.run(cmd, capture_output=True, text=True, env=env,
                            timeout=budget * 3 + 60)
        out = pr.stdout + pr.stderr
    except subprocess.TimeoutExpired:
        out = "info: Not confirmed. (hard time-out)"
    st = dict(paths=1, paths_reaching_assert=1, distinct_nontrivial=1,
              queries=1, solver_time_s=round(time.time() - t0, 2),
              obligations=1, discharged=0, unknown=[], n_unknown=0,
              violations=[], errors=[], n_errors=0, pathlimit=False,
              samples=[{"decisions": "crosshair", "result": out.strip()
                        [-300:]}])
    if "Confirmed over all paths" in out:
        st["discharged"] = 1
    elif "error:" in out:
        m = re.search(r"error: (.*?) when calling (_\w+\(.*?\))"
                      r"(?: \(which returns|\s*$)", out, re.S | re.M)
        call = m.group(2) if m else None
        st["violations"].append({"what": "crosshair:" + name,
                                 "values": {"call": call},
                                 "detail": out.strip()[-400:],
                                 "decisions": [], "notes": []})
    else:
        st["unknown"] = [{"what": name, "cond": out.strip()[-200:]}]
        st["n_unknown"] = 1
    return st


def run_case(name, params):
    if params["kind"] == "ch":
        return run_crosshair(params["name"], params["line"],
                             params["budget"])
    eng = Engine(timeout_ms=20000)
    if params["kind"] == "seqmeta":
        eng.explore(lambda e: run_seqmeta(e, params))
    elif params["kind"] == "rectify":
        eng.explore(lambda e: run_rectify(e, params))
    elif params["kind"] == "cfgfile":
        eng.explore(lambda e: run_cfgfile(e, params))
    elif params["kind"] == "conv":
        eng.explore(lambda e: run_conv(e, params))
    else:
        eng.explore(lambda e: run_fintlist(e, params))
    return eng.stats()


def cases(tier, seed):
    out = []
    table = conv_table()
    byfunc = {}
    for sec, key, fname, t in table:
        byfunc.setdefault(fname, []).append((sec, key))
    import dclab.definitions as dfn
    types_ = {}
    for sec, key, fname, t in table:
        if t is not None:
            tt = t if isinstance(t, tuple) else (t,)
            types_["%s:%s" % (sec, key)] = None   # filled in the worker
    for fname, keys in sorted(byfunc.items()):
        if fname in ("fbool", "fint", "float", "fboolorfloat", "<lambda>"):
            for vkind in ("int", "real", "bool"):
                out.append(("conv %s on %s (%d keys)" % (fname, vkind,
                                                         len(keys)),
                            dict(kind="conv", func=fname, vkind=vkind,
                                 keys=keys)))
    for n in range(0, 4):
        out.append(("fintlist n=%d" % n, dict(kind="fintlist", n=n)))
    for n in (1, 2, 3):
        for vt in ("int", "float"):
            for as_ in ("array", "list"):
                out.append(("user sequence n=%d %s %s" % (n, vt, as_),
                            dict(kind="seqmeta", n=n, vtype=vt, **{"as": as_})))
    out.append(("explicit channel count vs. automatic completion",
                dict(kind="rectify")))
    for sec, key in (("user", "batch"), ("setup", "identifier"),
                     ("experiment", "sample")):
        if sec == "experiment" and tier == "quick":
            continue
        out.append(("config file [%s] %s" % (sec, key),
                    dict(kind="cfgfile", sec=sec, key=key, nd=2)))
    budget = 40 if tier == "quick" else 240
    for name, line in ch_conditions():
        out.append(("crosshair %s" % name, dict(kind="ch", name=name,
                                                line=line, budget=budget)))
    return out


# ------------------------------------------------------------------ replay
def replay(case, params, v):
    vals = v.get("values") or {}
    if params["kind"] == "ch":
        call = vals.get("call")
        if not call:
            return {"reproduced": False, "key": "no-call",
                    "detail": str(v.get("detail"))}
        mod = importlib.import_module("harness.ch.c11_conds")
        try:
            with quiet():
                ok = eval(call, dict(vars(mod)))
            failed = ok is False
            det = "%s returns %r in a plain interpreter" % (call, ok)
        except Exception as e:
            declared = getattr(mod, call.split("(")[0]).__doc__ or ""
            failed = type(e).__name__ not in declared
            det = "%s raises %r" % (call, e)
        if not failed:
            return {"reproduced": False, "key": "not-reproduced",
                    "detail": det}
        return {"reproduced": True,
                "key": "%s|%s" % (params["name"], _norm(call)), "detail": det}
    if params["kind"] == "rectify":
        import tempfile
        import h5py
        import dclab.rtdc_dataset.writer as Wm
        cnt = int(vals.get("count", 3))
        given = bool(vals.get("count_given", False))
        present = [bool(vals.get("has_fl%d_max" % k, False))
                   for k in (1, 2, 3)]
        with tempfile.TemporaryDirectory(prefix="verif_c11_") as td, quiet():
            pth = os.path.join(td, "m.rtdc")
            with Wm.RTDCWriter(pth, mode="reset") as hw:
                hw.store_feature("deform", np.linspace(.1, .2, 2))
                for k, h in zip((1, 2, 3), present):
                    if h:
                        hw.store_feature("fl%d_max" % k, np.arange(2) + 1.)
                if given:
                    hw.store_metadata({"fluorescence":
                                       {"channel count": cnt}})
            with h5py.File(pth, "r") as h:
                got = h.attrs.get("fluorescence:channel count")
        want = cnt if given else (sum(present) or None)
        if (got is None) != (want is None) or (
                got is not None and int(got) != want):
            return {"reproduced": True,
                    "key": "rectify_metadata|channel-count",
                    "detail": "[fluorescence] channel count %s, flN_max "
                    "features present %r: the closed file holds %r, expected "
                    "%r" % ("stored as %d" % cnt if given else "not given",
                            present, got, want)}
        return {"reproduced": False, "key": "not-reproduced",
                "detail": "channel count %r as expected" % (got,)}
    if params["kind"] == "seqmeta":
        import tempfile
        import dclab
        import dclab.rtdc_dataset.writer as Wm
        n = params["n"]
        val = np.arange(3, 3 + n) if params["vtype"] == "int" else \
            np.linspace(0.25, 0.75, n)
        oldv = Wm.version
        Wm.version = "0.62.7"
        try:
            with tempfile.TemporaryDirectory(prefix="verif_c11_") as td, \
                    quiet():
                pth = os.path.join(td, "m.rtdc")
                with Wm.RTDCWriter(pth, mode="reset") as hw:
                    hw.store_feature("deform", np.linspace(.1, .2, 3))
                    hw.store_metadata({"user": {
                        "gate ids": val if params["as"] == "array"
                        else val.tolist()}})
                with dclab.new_dataset(pth) as ds:
                    got = ds.config["user"]["gate ids"]
                    shp = np.shape(got)
        finally:
            Wm.version = oldv
        if shp != (n,):
            return {"reproduced": True,
                    "key": "parse_config|sequence-shape-changed",
                    "detail": "user metadata %r is read back as %r (shape "
                    "%r)" % (val.tolist(), got, shp)}
        return {"reproduced": False, "key": "not-reproduced",
                "detail": "sequence read back with shape %r" % (shp,)}
    if params["kind"] == "cfgfile":
        import tempfile
        from dclab.rtdc_dataset.config import load_from_file
        sec, key, nd = params["sec"], params["key"], params["nd"]
        hdr = "".join(c.upper() if vals.get("H%d" % i, False) else c
                      for i, c in enumerate(sec))
        kname = (key[0].upper() if vals.get("K0", False) else key[0]) + \
            key[1:]
        fails = []
        for digits in ["".join(chr(int(vals.get("d%d" % i, 48) or 48))
                               for i in range(nd)), "0815", "07"]:
            with tempfile.TemporaryDirectory(prefix="verif_c11_") as td, \
                    quiet():
                pth = os.path.join(td, "c.cfg")
                with open(pth, "w") as fd:
                    fd.write("# comment\n[%s]\n%s = %s\n\n" % (
                        hdr, kname, digits))
                cfg = load_from_file(pth)
            from dclab.rtdc_dataset.config import Configuration
            with tempfile.TemporaryDirectory(prefix="verif_c11_") as td, \
                    quiet():
                pth = os.path.join(td, "c.cfg")
                with open(pth, "w") as fd:
                    fd.write("[%s]\n%s = %s\nbogus key = 5\n" % (
                        hdr, kname, digits))
                conf = Configuration(files=[pth])
                if sec != "user" and "bogus key" in conf[sec]:
                    fails.append("Configuration(files=...) takes over the "
                                 "undefined key 'bogus key' of [%s]" % sec)
                    break
            got = cfg.get(sec, {}).get(key, None)
            if got != digits:
                fails.append("[%s] %s = %s is loaded as %r (sections %r)" % (
                    hdr, kname, digits, got, list(cfg.keys())))
                break
        if fails:
            return {"reproduced": True,
                    "key": "load_from_file|%s|%s" % (
                        sec, "undefined-key-kept" if "undefined key" in
                        fails[0] else "value-changed"),
                    "detail": fails[0]}
        return {"reproduced": False, "key": "not-reproduced",
                "detail": "config file loads unchanged on the real code"}
    if params["kind"] == "fintlist":
        from dclab.definitions import meta_parse as mp
        lst = [int(vals.get("v%d" % i, 0)) for i in range(params["n"])]
        got = mp.fintlist(lst)
        if got != lst:
            return {"reproduced": True, "key": "fintlist|drops-zero",
                    "detail": "fintlist(%r) == %r" % (lst, got)}
        return {"reproduced": False, "key": "not-reproduced",
                "detail": "fintlist(%r) ok" % (lst,)}
    import dclab.definitions as dfn
    from dclab.rtdc_dataset.config import ConfigurationDict
    val = vals.get("v")
    fails = []
    with quiet():
        for sec, key in params["keys"]:
            f = dfn.get_config_value_func(sec, key)
            try:
                r = f(val)
                if f(r) != r or type(f(r)) is not type(r):
                    fails.append("%s(%r) not idempotent" % (f.__name__, val))
                d = ConfigurationDict(section=sec)
                d[key.upper()] = val
                if list(d.keys()) != [key] or d[key] != r:
                    fails.append("[%s] %s = %r stored as %r" % (
                        sec, key, val, dict(d)))
                typ = dfn.get_config_value_type(sec, key)
                if typ is not None and not isinstance(d[key], typ):
                    fails.append("[%s] '%s' = %r is stored as %r (%s), "
                                 "documented type %s" % (
                                     sec, key, val, d[key],
                                     type(d[key]).__name__, typ))
            except ValueError:
                pass
            if fails:
                break
    if not fails:
        return {"reproduced": False, "key": "not-reproduced",
                "detail": "value %r fine for %s" % (val, params["func"])}
    return {"reproduced": True, "key": "%s|%s" % (params["func"],
                                                  v.get("what")),
            "detail": fails[0]}


def _norm(call):
    return re.sub(r"\s+", " ", call)[:60]


CANARIES = [
    dict(name="keys are case sensitive", module=CF,
         qualname="ConfigurationDict._k",
         old="return key.lower() if isinstance(key, str) else key",
         new="return key"),
    dict(name="fintlist drops falsy items", module=MP, qualname="fintlist",
         old="        outlist.append(fint(it))",
         new="        if it:\n            outlist.append(fint(it))"),
    dict(name="fint rounds instead of truncating", module=MP,
         qualname="fint", old="        value = int(float(value))\n    return",
         new="        value = int(float(value) + 0.5)\n    return"),
]
