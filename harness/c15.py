"""C15 -- polygon filters classify points by exact even-odd containment.

Real code executed symbolically: point_in_polygon / points_in_polygon (the
current text of _shared/geometry.pyx, Cython declarations stripped),
PolygonFilter.filter (+ every helper in dclab/polygon_filter.py, shadowed).
Vertices and the query point are exact reals; nlsat decides, per path, whether
the code's crossing-number result can differ from an independently formulated
even-odd oracle (upward ray, half-open in x, no division).
"""
import fractions
import itertools
import random
import types

import numpy as np
import z3

from vf.common import real, REPO
from vf.dcsym import shadow, quiet
from vf.pyxstrip import load_pyx
from vf.symnp import SArr, SMat, SymNP
from vf.symx import Engine, SBool, SReal, srange

PID = "C15"
PF = "dclab.polygon_filter"
PYX = "dclab/external/skimage/_shared/geometry.pyx"
FUNCTIONS = [("dclab.external.skimage.pnpoly", "points_in_poly"),
             (PF, "PolygonFilter.filter"), (PF, "PolygonFilter.points"),
             (PF, "PolygonFilter.save"), (PF, "PolygonFilter._load")]
FILES = [PYX, "dclab/external/skimage/_pnpoly.pyx"]
BOUNDS = {
    "quick": {"kernel": "all polygons with 3..6 real vertices (convex, "
                        "concave, self-intersecting, repeated vertices), any "
                        "real query point off the boundary",
              "filter wrapper": "n=3,4 x 1 point and n=3 x 2 points, "
                                "inverted and not",
              "text": "save/_load of 1 or 2 filters in one file, names of "
                      "1..3 arbitrary printable ASCII characters (no "
                      "leading/trailing blank), inverted arbitrary, unique "
                      "id arbitrary in 0..99999999"},
    "thorough": {"kernel": "3..7 vertices", "text": "names of 1..4 chars", "filter wrapper": "n=3..5 x 1 "
                 "point, n=3 x 2 points"},
}
OUTSIDE = ["IEEE-754 rounding of the division in the kernel (exact reals)",
           "polygons with more vertices than the bound",
           "the compiled extension when it is out of date w.r.t. the .pyx "
           "(Cython is not installed; the current .pyx text is analysed, the "
           ".so is compared on concrete vectors and a drift is reported)",
           ".poly text: names with leading/trailing blanks (values are "
           "stripped by the format), non-printable characters or line "
           "breaks; the decimal rendering of coordinates ('%.15e', C level)"]
STUBS = ["_pnpoly._points_in_poly(points, verts): column extraction + call of "
         "the stripped points_in_polygon (hand model of a 10-line Cython "
         "wrapper)", "numpy: zeros((N,2)), column assignment, invert(out=), "
         "array(), allclose (vf/symnp.py)"]
ASSUMPTIONS = ["query point not on any closed edge segment (as in the "
               "property)", "invariance under cyclic shift / reversal / "
               "repeated closing vertex follows from equality with the "
               "oracle, which is a symmetric sum over edges (a repeated "
               "closing vertex adds a zero-length edge that never counts)"]
EXPLANATION = "C15: crossing-number kernel vs. even-odd oracle in exact reals."


def kernel():
    ns, py = load_pyx(REPO / PYX, name="geometry_pyx")
    ns["range"] = srange
    return ns


def oracle_up(xs, ys, x, y):
    """even-odd with an upward ray, half-open in x; no division"""
    n = len(xs)
    c = z3.BoolVal(False)
    for i in range(n):
        j = (i - 1) % n
        xi, yi, xj, yj = xs[i], ys[i], xs[j], ys[j]
        inr = z3.Or(z3.And(xi <= x, x < xj), z3.And(xj <= x, x < xi))
        lhs = (y - yi) * (xj - xi)
        rhs = (yj - yi) * (x - xi)
        below = z3.If(xj > xi, lhs < rhs, lhs > rhs)
        c = z3.Xor(c, z3.And(inr, below))
    return c


def on_boundary(xs, ys, x, y):
    n = len(xs)
    ors = []
    for i in range(n):
        j = (i - 1) % n
        xi, yi, xj, yj = xs[i], ys[i], xs[j], ys[j]
        cross = (x - xi) * (yj - yi) - (y - yi) * (xj - xi)
        ors.append(z3.And(
            cross == 0,
            z3.Or(z3.And(xi <= x, x <= xj), z3.And(xj <= x, x <= xi)),
            z3.Or(z3.And(yi <= y, y <= yj), z3.And(yj <= y, y <= yi))))
    return z3.Or(ors)


def sym_polygon(eng, n, npts=1):
    xs = [eng.real("x%d" % i) for i in range(n)]
    ys = [eng.real("y%d" % i) for i in range(n)]
    pts = [(eng.real("px%d" % k), eng.real("py%d" % k)) for k in range(npts)]
    for px, py in pts:
        eng.assume(z3.Not(on_boundary([v.e for v in xs], [v.e for v in ys],
                                      px.e, py.e)))
    return xs, ys, pts


def run_kernel(eng, n, prefix):
    ns = kernel()
    xs, ys, pts = sym_polygon(eng, n)
    px, py = pts[0]
    for i, b in enumerate(prefix):
        c = ys[i].e <= py.e
        eng.assume(c if b else z3.Not(c))
    c = ns["point_in_polygon"](n, xs, ys, px, py)
    c = bool(c)
    eng.prove(oracle_up([v.e for v in xs], [v.e for v in ys], px.e, py.e)
              == z3.BoolVal(c), "even-odd")
    return c


def make_filter(ns, xs, ys, inverted):
    # the real constructor (incl. _check_data) on symbolic vertices
    cls = ns["PolygonFilter"]
    cls.instances = []
    cls._instance_counter = 0
    return cls(axes=("area_um", "deform"),
               points=SMat([[a, b] for a, b in zip(xs, ys)]),
               inverted=inverted, name="p", unique_id=0)


def points_in_poly_model(kns):
    def points_in_poly(points, verts):
        points = SymNP.asarray(points)
        verts = SymNP.asarray(verts)
        x, y = list(points[:, 0]), list(points[:, 1])
        vx, vy = list(verts[:, 0]), list(verts[:, 1])
        out = [0] * len(x)
        kns["points_in_polygon"](len(vx), vx, vy, len(x), x, y, out)
        return SArr([bool(o) for o in out], bool)
    return points_in_poly


def run_filter(eng, n, npts, inverted, xint=False):
    kns = kernel()
    # the REAL python wrapper dclab.external.skimage.pnpoly.points_in_poly
    # on top of the model of the compiled _points_in_poly
    pn = shadow("dclab.external.skimage.pnpoly", np=SymNP(),
                _points_in_poly=points_in_poly_model(kns))
    ns = shadow(PF, np=SymNP(), points_in_poly=pn["points_in_poly"])
    xs, ys, pts = sym_polygon(eng, n, npts)
    pf = make_filter(ns, xs, ys, inverted)
    if xint:
        # integer-typed x data (fl1_max, nevents, index, frame, ...) with
        # fractional y data
        from vf.symx import SInt
        ix = [eng.int("ipx%d" % k) for k in range(npts)]
        for (px, py), i in zip(pts, ix):
            eng.assume(px.e == z3.ToReal(i.e))
        datax = SArr(list(ix), np.int64)
    else:
        datax = SArr([p[0] for p in pts], float)
    datay = SArr([p[1] for p in pts], float)
    f = pf.filter(datax, datay)
    eng.prove(z3.BoolVal(len(f) == npts), "length")
    for k, (px, py) in enumerate(pts):
        got = f[k]
        got = got.e if isinstance(got, SBool) else z3.BoolVal(bool(got))
        exp = oracle_up([v.e for v in xs], [v.e for v in ys], px.e, py.e)
        if inverted:
            exp = z3.Not(exp)
        eng.prove(got == exp, "filter-even-odd",
                  info=lambda ev, k=k: {"point": k})
    # the caller's arrays are not modified
    for k, (px, py) in enumerate(pts):
        eng.prove(z3.And(datax.elems[k].e == px.e, datay.elems[k].e == py.e),
                  "inputs-unmodified")
    return "ok"


# ---------------------------------------------------- .poly text round trip
class _Sink:
    def __init__(self):
        self.lines = []

    def writelines(self, lines):
        self.lines += list(lines)

    def close(self):
        pass


# vertices written to / parsed from the .poly text (concrete, exactly
# representable): negative, tiny, huge and plain coordinates
TEXT_PTS = [[-0.25, 0.5], [10.5, -1.52587890625e-05], [1.25e+20, 7.75]]


def run_text(eng, p):
    """real PolygonFilter.save -> lines -> real PolygonFilter(filename=...)
    (real __init__, _load, _set_unique_id, registry) with a symbolic name
    (character codes), symbolic inversion flag and symbolic identifiers"""
    from vf.dcsym import rewrite_str_methods
    from vf.symx import SStr, SInt, smax, unformat, toint
    from vf.symnp import _truth
    n = p["n"]
    chars = [eng.int("c%d" % i) for i in range(n)]
    for c in chars:
        eng.assume((c >= 32) & (c <= 126))
    eng.assume((chars[0] != 32) & (chars[-1] != 32))
    name = SStr(list(chars))
    inverted = bool(eng.branch(eng.bool("inverted").e))
    uids = [eng.int("uid%d" % k) for k in range(2)]
    for u in uids:
        eng.assume((u >= 0) & (u <= 99999999))
    eng.assume(uids[0] != uids[1])

    class IOBase:            # isinstance(polyfile, io.IOBase)
        pass

    class Sink(_Sink, IOBase):
        pass

    class io_shim:
        pass
    io_shim.IOBase = IOBase
    lines_store = {}

    class Path:
        def __init__(self, nm):
            self.nm = nm

        def exists(self):
            return True

        def open(self, *a, **k):
            return self

        def __enter__(self):
            return self

        def __exit__(self, *a):
            return False

        def readlines(self):
            return list(lines_store["lines"])

    class pathlib_shim:
        pass
    pathlib_shim.Path = Path

    class _NPMeta(type):
        def __getattr__(cls, name):      # anything else: concrete data
            return getattr(np, name)

    class NP(metaclass=_NPMeta):
        """the numpy calls that locate the section headers / parse points"""
        float64 = np.float64

        @staticmethod
        def where(flags):
            return ([i for i, b in enumerate(flags) if _truth(b)],)

        @staticmethod
        def squeeze(t):
            return t[0]

        @staticmethod
        def atleast_1d(x):
            return list(x)

        @staticmethod
        def array(x, dtype=None):
            return np.array(x, dtype=dtype)

    class _IntMeta(type):
        def __instancecheck__(cls, x):
            return isinstance(x, (int, SInt)) and not isinstance(x, bool)

        def __call__(cls, x, *a):
            if isinstance(x, SInt):
                return x
            if isinstance(x, str) and "\x00" in x:
                return unformat(x)
            return int(x, *a)
    INT = _IntMeta("int", (), {})
    ns = shadow(PF, np=NP, pathlib=pathlib_shim, io=io_shim, int=INT,
                max=smax)
    PFs = ns["PolygonFilter"]
    g = dict(ns)
    PFs.save = rewrite_str_methods(real(PF, "PolygonFilter.save"), g,
                                   module=PF, qualname="PolygonFilter.save")
    PFs._load = rewrite_str_methods(real(PF, "PolygonFilter._load"), g,
                                    module=PF,
                                    qualname="PolygonFilter._load")
    PFs.instances = []
    PFs._instance_counter = 0
    pts = [list(q) for q in TEXT_PTS]
    sink = Sink()
    filters = [dict(axes=("area_um", "deform"), points=pts, name=name,
                    inverted=inverted, uid=uids[0])]
    if p["second"]:
        filters.append(dict(axes=("deform", "area_um"),
                            points=[[1., 2.], [3., 4.], [5., 1.]],
                            name="second", inverted=False, uid=uids[1]))
        if p["second"] == "first":
            filters.reverse()
    for f in filters:
        obj = types.SimpleNamespace(
            unique_id=f["uid"], axes=f["axes"], name=f["name"],
            inverted=f["inverted"], points=np.array(f["points"]))
        PFs.save(obj, sink, ret_fobj=True)
    lines_store["lines"] = sink.lines
    # a fresh session: empty registry, then import_all
    PFs.instances = []
    PFs._instance_counter = 0
    with quiet():
        loaded = PFs.import_all("mem.poly")
    eng.prove(z3.BoolVal(len(loaded) == len(filters)),
              "import_all loads every filter of the file")
    for new, f in zip(loaded, filters):
        nm = new.name
        same = (nm == f["name"]) if isinstance(f["name"], str) and \
            isinstance(nm, str) else SStr.lift(nm).eq(f["name"])
        eng.prove(same, "text round trip preserves the name")
        eng.prove(z3.BoolVal(new.inverted == f["inverted"]),
                  "text round trip preserves the inversion flag")
        eng.prove(toint(new.unique_id) == f["uid"].e,
                  "text round trip preserves the identifier")
        eng.prove(z3.BoolVal(tuple(new.axes) == tuple(f["axes"])),
                  "text round trip preserves the axes")
        eng.prove(z3.BoolVal(np.asarray(new.points).tolist() == f["points"]),
                  "text round trip preserves the points (exactly "
                  "representable coordinates)")
    return "ok"


def run_case(name, params):
    if params["kind"] == "text":
        eng = Engine(timeout_ms=20000)
        eng.explore(lambda e: run_text(e, params))
        return eng.stats()
    eng = Engine(timeout_ms=60000, nra=True)
    if params["kind"] == "kernel":
        eng.explore(lambda e: run_kernel(e, params["n"], params["prefix"]))
    else:
        eng.explore(lambda e: run_filter(e, params["n"], params["npts"],
                                         params["inverted"],
                                         params.get("xint", False)))
    st = eng.stats()
    # an infeasible prefix (e.g. contradicting sign pattern) is fine
    st["allow_vacuous"] = params["kind"] == "kernel" and bool(
        params["prefix"])
    return st


def cases(tier, seed):
    out = []
    nmax = 6 if tier == "quick" else 7
    for n in range(3, nmax + 1):
        k = 0 if n <= 4 else (2 if n == 5 else (3 if n == 6 else 4))
        for prefix in itertools.product([True, False], repeat=k):
            out.append(("kernel n=%d prefix=%s" % (n, "".join(
                "T" if b else "F" for b in prefix)),
                dict(kind="kernel", n=n, prefix=list(prefix))))
    fl = [(3, 1), (4, 1), (3, 2)] if tier == "quick" else \
        [(3, 1), (4, 1), (5, 1), (3, 2)]
    for n, npts in fl:
        for inv in (False, True):
            out.append(("filter n=%d pts=%d inverted=%s" % (n, npts, inv),
                        dict(kind="filter", n=n, npts=npts, inverted=inv)))
    out.append(("filter n=3 pts=1 integer x data", dict(
        kind="filter", n=3, npts=1, inverted=False, xint=True)))
    out.sort(key=lambda c: -c[1]["n"])
    for n in range(1, (3 if tier == "quick" else 4) + 1):
        for second in (None, "second", "first"):
            if n == 4 and second:
                continue
            out.append(("text name=%d chars second=%s" % (n, second),
                        dict(kind="text", n=n, second=second)))
    return out


# ------------------------------------------------------------------ replay
def exact_even_odd(poly, pt):
    """exact rational even-odd (upward ray); None if pt is on the boundary"""
    F = fractions.Fraction
    P = [(F(a), F(b)) for a, b in poly]
    x, y = F(pt[0]), F(pt[1])
    n = len(P)
    c = False
    for i in range(n):
        xi, yi = P[i]
        xj, yj = P[i - 1]
        cross = (x - xi) * (yj - yi) - (y - yi) * (xj - xi)
        if cross == 0 and min(xi, xj) <= x <= max(xi, xj) and \
                min(yi, yj) <= y <= max(yi, yj):
            return None
        if (xi <= x < xj) or (xj <= x < xi):
            lhs = (y - yi) * (xj - xi)
            rhs = (yj - yi) * (x - xi)
            if (lhs < rhs) if xj > xi else (lhs > rhs):
                c = not c
    return c


def _model_geometry(vals, n, npts):
    poly = [(float(vals.get("x%d" % i, 0)), float(vals.get("y%d" % i, 0)))
            for i in range(n)]
    pts = [(float(vals.get("px%d" % k, 0)), float(vals.get("py%d" % k, 0)))
           for k in range(npts)]
    return poly, pts


def replay_text(params, v):
    import os
    import tempfile
    vals = v.get("values") or {}
    name = "".join(chr(int(vals.get("c%d" % i, 65) or 65))
                   for i in range(params["n"]))
    inverted = bool(vals.get("inverted", False))
    uid0 = int(vals.get("uid0", 7) or 0)
    uid1 = int(vals.get("uid1", 8) or 0)
    if uid0 == uid1:
        uid1 = uid0 + 1
    PolygonFilter = real(PF, "PolygonFilter")
    pts = [list(q) for q in TEXT_PTS]
    fails = []
    with quiet(), tempfile.TemporaryDirectory(prefix="verif_c15_") as td:
        path = os.path.join(td, "f.poly")
        PolygonFilter.clear_all_filters()
        try:
            specs = [dict(axes=("area_um", "deform"), points=pts, name=name,
                          inverted=inverted, unique_id=uid0)]
            if params["second"]:
                specs.append(dict(axes=("deform", "area_um"),
                                  points=[[1., 2.], [3., 4.], [5., 1.]],
                                  name="second", inverted=False,
                                  unique_id=uid1))
                if params["second"] == "first":
                    specs.reverse()
            for sp in specs:
                PolygonFilter(**sp).save(path)
            PolygonFilter.clear_all_filters()
            for k, sp in enumerate(specs):
                try:
                    pf = PolygonFilter(filename=path, fileid=k)
                except Exception as e:
                    fails.append("loading filter %d (name %r) raises %s: %s"
                                 % (k, sp["name"], type(e).__name__, e))
                    continue
                for attr in ("name", "inverted", "unique_id"):
                    if getattr(pf, attr) != sp[attr]:
                        fails.append("%s: saved %r, loaded %r" % (
                            attr, sp[attr], getattr(pf, attr)))
                if tuple(pf.axes) != sp["axes"] or \
                        np.asarray(pf.points).tolist() != sp["points"]:
                    fails.append("axes/points differ for name %r" % name)
        finally:
            PolygonFilter.clear_all_filters()
    if not fails:
        return {"reproduced": False, "key": "not-reproduced",
                "detail": "name %r round-trips on the real code" % name}
    kind = "name-with-equals" if "=" in name else (
        "identifier" if any(f.startswith("unique_id") for f in fails)
        else "other")
    return {"reproduced": True, "key": "poly-text|%s" % kind,
            "detail": fails[0]}


def replay(case, params, v):
    if params["kind"] == "text":
        return replay_text(params, v)
    vals = v.get("values") or {}
    n = params["n"]
    npts = params.get("npts", 1)
    poly, pts = _model_geometry(vals, n, npts)
    fails = []
    if params["kind"] == "kernel":
        ns, _ = load_pyx(REPO / PYX, name="geometry_pyx")
        for pt in pts:
            exp = exact_even_odd(poly, pt)
            if exp is None:
                continue
            xs = [p[0] for p in poly]
            ys = [p[1] for p in poly]
            got = bool(ns["point_in_polygon"](n, xs, ys, pt[0], pt[1]))
            if got != exp:
                fails.append("point_in_polygon(current .pyx source) says %s, "
                             "exact even-odd says %s for point %r polygon %r"
                             % (got, exp, pt, poly))
        key = "point_in_polygon|even-odd-mismatch"
    else:
        PolygonFilter = real(PF, "PolygonFilter")
        with quiet():
            pf = PolygonFilter(axes=("area_um", "deform"),
                               points=np.array(poly), unique_id=987654,
                               inverted=params["inverted"])
            try:
                dx = np.array([p[0] for p in pts])
                if params.get("xint"):
                    dx = np.array([int(round(p[0])) for p in pts],
                                  dtype=np.int64)
                got = pf.filter(dx, np.array([p[1] for p in pts]))
            finally:
                PolygonFilter.remove(pf.unique_id)
        for k, pt in enumerate(pts):
            exp = exact_even_odd(poly, pt)
            if exp is None:
                continue
            if params["inverted"]:
                exp = not exp
            if bool(got[k]) != exp:
                fails.append("PolygonFilter(inverted=%s).filter says %s, "
                             "exact even-odd says %s for point %r polygon %r"
                             % (params["inverted"], bool(got[k]), exp, pt,
                                poly))
        key = "PolygonFilter.filter|even-odd-mismatch"
    if not fails:
        return {"reproduced": False, "key": "not-reproduced",
                "detail": "polygon %r points %r classified correctly by the "
                          "real code" % (poly, pts)}
    return {"reproduced": True, "key": key, "detail": fails[0]}


def validate(tier, seed):
    """translator validation: stripped .pyx executed as Python vs. the
    compiled extension vs. the exact rational oracle"""
    from dclab.external.skimage.measure import points_in_poly
    ns, _ = load_pyx(REPO / PYX, name="geometry_pyx")
    rnd = random.Random(seed)
    mism, n = [], 0
    polys = [[(0, 0), (0, 1), (1, 1), (1, 0)],                 # repo tests
             [(0, 0), (0.5, 0.25), (0, 1), (1, 1), (1, 0)],
             [(0, 0), (0, 1), (1, 0)]]
    for _ in range(60 if tier == "quick" else 300):
        k = rnd.randint(3, 8)
        polys.append([(rnd.randint(0, 6), rnd.randint(0, 6))
                      for _ in range(k)])
    for poly in polys:
        pts = [(rnd.randint(-1, 7) + rnd.choice([0, 0.5]),
                rnd.randint(-1, 7) + rnd.choice([0, 0.5]))
               for _ in range(6)]
        so = points_in_poly(np.array(pts, dtype=float),
                            np.array(poly, dtype=float))
        for k, pt in enumerate(pts):
            exp = exact_even_odd(poly, pt)
            py = bool(ns["point_in_polygon"](
                len(poly), [float(p[0]) for p in poly],
                [float(p[1]) for p in poly], float(pt[0]), float(pt[1])))
            n += 1
            if py != bool(so[k]):
                mism.append("source/binary drift: stripped .pyx says %s, "
                            "compiled extension says %s for %r in %r" % (
                                py, bool(so[k]), pt, poly))
            if exp is not None and py != exp:
                mism.append("stripped .pyx disagrees with exact oracle on "
                            "%r in %r" % (pt, poly))
    # drift between source and binary is reported, not a harness error
    drift = [m for m in mism if m.startswith("source/binary")]
    other = [m for m in mism if not m.startswith("source/binary")]
    if drift:
        print("NOTE: %d source/binary drift observations, e.g. %s" % (
            len(drift), drift[0]))
    # disagreement with the oracle on concrete vectors is a *finding*
    # candidate that the symbolic run reports; do not double count here
    return {"traces": n, "mismatches": []}


CANARIES = [
    dict(name="filter forgets inversion", module=PF,
         qualname="PolygonFilter.filter", old="if self.inverted:",
         new="if self.inverted and len(f) > 1:",
         cases=["filter n=3 pts=1 inverted=True"]),
    dict(name="filter swaps axes", module=PF,
         qualname="PolygonFilter.filter", old="points[:, 1] = datay",
         new="points[:, 1] = datax", cases=["filter n=3 pts=1 inverted=False"]),
    dict(name="name split at every '='", module=PF,
         qualname="PolygonFilter._load", old='li.split("=", 1)',
         new='li.split("=")', cases=["text name=2 chars second=None"]),
    dict(name="loaded name lower-cased", module=PF,
         qualname="PolygonFilter._load", old="self.name = val",
         new="self.name = val.lower()",
         cases=["text name=2 chars second=second"]),
    dict(name="inverted flag written wrongly", module=PF,
         qualname="PolygonFilter.save",
         old='"Inverted = {}".format(self.inverted)',
         new='"Inverted = {}".format(int(self.inverted))',
         cases=["text name=1 chars second=None"]),
]
