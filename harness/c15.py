"""C15 -- polygon filters classify points by exact even-odd containment.

Real code executed symbolically: point_in_polygon / points_in_polygon (the
current text of _shared/geometry.pyx, Cython declarations stripped),
PolygonFilter.filter (+ every helper in dclab/polygon_filter.py, shadowed).
Vertices and the query point are exact reals; nlsat decides, per path, whether
the code's crossing-number result can differ from an independently formulated
even-odd oracle (upward ray, half-open in x, no division).
"""
import fractions
import itertools
import random

import numpy as np
import z3

from vf.common import real, REPO
from vf.dcsym import shadow, quiet
from vf.pyxstrip import load_pyx
from vf.symnp import SArr, SMat, SymNP
from vf.symx import Engine, SBool, SReal, srange

PID = "C15"
PF = "dclab.polygon_filter"
PYX = "dclab/external/skimage/_shared/geometry.pyx"
FUNCTIONS = [(PF, "PolygonFilter.filter"), (PF, "PolygonFilter.points")]
FILES = [PYX, "dclab/external/skimage/_pnpoly.pyx"]
BOUNDS = {
    "quick": {"kernel": "all polygons with 3..6 real vertices (convex, "
                        "concave, self-intersecting, repeated vertices), any "
                        "real query point off the boundary",
              "filter wrapper": "n=3,4 x 1 point and n=3 x 2 points, "
                                "inverted and not"},
    "thorough": {"kernel": "3..7 vertices", "filter wrapper": "n=3..5 x 1 "
                 "point, n=3 x 2 points"},
}
OUTSIDE = ["IEEE-754 rounding of the division in the kernel (exact reals)",
           "polygons with more vertices than the bound",
           "the compiled extension when it is out of date w.r.t. the .pyx "
           "(Cython is not installed; the current .pyx text is analysed, the "
           ".so is compared on concrete vectors and a drift is reported)",
           ".poly text round trip (separate CrossHair harness, see DESIGN)"]
STUBS = ["_pnpoly._points_in_poly(points, verts): column extraction + call of "
         "the stripped points_in_polygon (hand model of a 10-line Cython "
         "wrapper)", "numpy: zeros((N,2)), column assignment, invert(out=), "
         "array(), allclose (vf/symnp.py)"]
ASSUMPTIONS = ["query point not on any closed edge segment (as in the "
               "property)", "invariance under cyclic shift / reversal / "
               "repeated closing vertex follows from equality with the "
               "oracle, which is a symmetric sum over edges (a repeated "
               "closing vertex adds a zero-length edge that never counts)"]
EXPLANATION = "C15: crossing-number kernel vs. even-odd oracle in exact reals."


def kernel():
    ns, py = load_pyx(REPO / PYX, name="geometry_pyx")
    ns["range"] = srange
    return ns


def oracle_up(xs, ys, x, y):
    """even-odd with an upward ray, half-open in x; no division"""
    n = len(xs)
    c = z3.BoolVal(False)
    for i in range(n):
        j = (i - 1) % n
        xi, yi, xj, yj = xs[i], ys[i], xs[j], ys[j]
        inr = z3.Or(z3.And(xi <= x, x < xj), z3.And(xj <= x, x < xi))
        lhs = (y - yi) * (xj - xi)
        rhs = (yj - yi) * (x - xi)
        below = z3.If(xj > xi, lhs < rhs, lhs > rhs)
        c = z3.Xor(c, z3.And(inr, below))
    return c


def on_boundary(xs, ys, x, y):
    n = len(xs)
    ors = []
    for i in range(n):
        j = (i - 1) % n
        xi, yi, xj, yj = xs[i], ys[i], xs[j], ys[j]
        cross = (x - xi) * (yj - yi) - (y - yi) * (xj - xi)
        ors.append(z3.And(
            cross == 0,
            z3.Or(z3.And(xi <= x, x <= xj), z3.And(xj <= x, x <= xi)),
            z3.Or(z3.And(yi <= y, y <= yj), z3.And(yj <= y, y <= yi))))
    return z3.Or(ors)


def sym_polygon(eng, n, npts=1):
    xs = [eng.real("x%d" % i) for i in range(n)]
    ys = [eng.real("y%d" % i) for i in range(n)]
    pts = [(eng.real("px%d" % k), eng.real("py%d" % k)) for k in range(npts)]
    for px, py in pts:
        eng.assume(z3.Not(on_boundary([v.e for v in xs], [v.e for v in ys],
                                      px.e, py.e)))
    return xs, ys, pts


def run_kernel(eng, n, prefix):
    ns = kernel()
    xs, ys, pts = sym_polygon(eng, n)
    px, py = pts[0]
    for i, b in enumerate(prefix):
        c = ys[i].e <= py.e
        eng.assume(c if b else z3.Not(c))
    c = ns["point_in_polygon"](n, xs, ys, px, py)
    c = bool(c)
    eng.prove(oracle_up([v.e for v in xs], [v.e for v in ys], px.e, py.e)
              == z3.BoolVal(c), "even-odd")
    return c


def make_filter(ns, xs, ys, inverted):
    cls = ns["PolygonFilter"]
    pf = object.__new__(cls)
    pf._points = SMat([[a, b] for a, b in zip(xs, ys)])
    pf.inverted = inverted
    pf.axes = ("area_um", "deform")
    pf.name = "p"
    pf.unique_id = 0
    return pf


def points_in_poly_model(kns):
    def points_in_poly(points, verts):
        points = SymNP.asarray(points)
        verts = SymNP.asarray(verts)
        x, y = list(points[:, 0]), list(points[:, 1])
        vx, vy = list(verts[:, 0]), list(verts[:, 1])
        out = [0] * len(x)
        kns["points_in_polygon"](len(vx), vx, vy, len(x), x, y, out)
        return SArr([bool(o) for o in out], bool)
    return points_in_poly


def run_filter(eng, n, npts, inverted):
    kns = kernel()
    ns = shadow(PF, np=SymNP(), points_in_poly=points_in_poly_model(kns))
    xs, ys, pts = sym_polygon(eng, n, npts)
    pf = make_filter(ns, xs, ys, inverted)
    datax = SArr([p[0] for p in pts], float)
    datay = SArr([p[1] for p in pts], float)
    f = pf.filter(datax, datay)
    eng.prove(z3.BoolVal(len(f) == npts), "length")
    for k, (px, py) in enumerate(pts):
        got = f[k]
        got = got.e if isinstance(got, SBool) else z3.BoolVal(bool(got))
        exp = oracle_up([v.e for v in xs], [v.e for v in ys], px.e, py.e)
        if inverted:
            exp = z3.Not(exp)
        eng.prove(got == exp, "filter-even-odd",
                  info=lambda ev, k=k: {"point": k})
    # the caller's arrays are not modified
    for k, (px, py) in enumerate(pts):
        eng.prove(z3.And(datax.elems[k].e == px.e, datay.elems[k].e == py.e),
                  "inputs-unmodified")
    return "ok"


def run_case(name, params):
    eng = Engine(timeout_ms=60000, nra=True)
    if params["kind"] == "kernel":
        eng.explore(lambda e: run_kernel(e, params["n"], params["prefix"]))
    else:
        eng.explore(lambda e: run_filter(e, params["n"], params["npts"],
                                         params["inverted"]))
    st = eng.stats()
    # an infeasible prefix (e.g. contradicting sign pattern) is fine
    st["allow_vacuous"] = params["kind"] == "kernel" and bool(
        params["prefix"])
    return st


def cases(tier, seed):
    out = []
    nmax = 6 if tier == "quick" else 7
    for n in range(3, nmax + 1):
        k = 0 if n <= 4 else (2 if n == 5 else (3 if n == 6 else 4))
        for prefix in itertools.product([True, False], repeat=k):
            out.append(("kernel n=%d prefix=%s" % (n, "".join(
                "T" if b else "F" for b in prefix)),
                dict(kind="kernel", n=n, prefix=list(prefix))))
    fl = [(3, 1), (4, 1), (3, 2)] if tier == "quick" else \
        [(3, 1), (4, 1), (5, 1), (3, 2)]
    for n, npts in fl:
        for inv in (False, True):
            out.append(("filter n=%d pts=%d inverted=%s" % (n, npts, inv),
                        dict(kind="filter", n=n, npts=npts, inverted=inv)))
    out.sort(key=lambda c: -c[1]["n"])
    return out


# ------------------------------------------------------------------ replay
def exact_even_odd(poly, pt):
    """exact rational even-odd (upward ray); None if pt is on the boundary"""
    F = fractions.Fraction
    P = [(F(a), F(b)) for a, b in poly]
    x, y = F(pt[0]), F(pt[1])
    n = len(P)
    c = False
    for i in range(n):
        xi, yi = P[i]
        xj, yj = P[i - 1]
        cross = (x - xi) * (yj - yi) - (y - yi) * (xj - xi)
        if cross == 0 and min(xi, xj) <= x <= max(xi, xj) and \
                min(yi, yj) <= y <= max(yi, yj):
            return None
        if (xi <= x < xj) or (xj <= x < xi):
            lhs = (y - yi) * (xj - xi)
            rhs = (yj - yi) * (x - xi)
            if (lhs < rhs) if xj > xi else (lhs > rhs):
                c = not c
    return c


def _model_geometry(vals, n, npts):
    poly = [(float(vals.get("x%d" % i, 0)), float(vals.get("y%d" % i, 0)))
            for i in range(n)]
    pts = [(float(vals.get("px%d" % k, 0)), float(vals.get("py%d" % k, 0)))
           for k in range(npts)]
    return poly, pts


def replay(case, params, v):
    vals = v.get("values") or {}
    n = params["n"]
    npts = params.get("npts", 1)
    poly, pts = _model_geometry(vals, n, npts)
    fails = []
    if params["kind"] == "kernel":
        ns, _ = load_pyx(REPO / PYX, name="geometry_pyx")
        for pt in pts:
            exp = exact_even_odd(poly, pt)
            if exp is None:
                continue
            xs = [p[0] for p in poly]
            ys = [p[1] for p in poly]
            got = bool(ns["point_in_polygon"](n, xs, ys, pt[0], pt[1]))
            if got != exp:
                fails.append("point_in_polygon(current .pyx source) says %s, "
                             "exact even-odd says %s for point %r polygon %r"
                             % (got, exp, pt, poly))
        key = "point_in_polygon|even-odd-mismatch"
    else:
        PolygonFilter = real(PF, "PolygonFilter")
        with quiet():
            pf = PolygonFilter(axes=("area_um", "deform"),
                               points=np.array(poly), unique_id=987654,
                               inverted=params["inverted"])
            try:
                got = pf.filter(np.array([p[0] for p in pts]),
                                np.array([p[1] for p in pts]))
            finally:
                PolygonFilter.remove(pf.unique_id)
        for k, pt in enumerate(pts):
            exp = exact_even_odd(poly, pt)
            if exp is None:
                continue
            if params["inverted"]:
                exp = not exp
            if bool(got[k]) != exp:
                fails.append("PolygonFilter(inverted=%s).filter says %s, "
                             "exact even-odd says %s for point %r polygon %r"
                             % (params["inverted"], bool(got[k]), exp, pt,
                                poly))
        key = "PolygonFilter.filter|even-odd-mismatch"
    if not fails:
        return {"reproduced": False, "key": "not-reproduced",
                "detail": "polygon %r points %r classified correctly by the "
                          "real code" % (poly, pts)}
    return {"reproduced": True, "key": key, "detail": fails[0]}


def validate(tier, seed):
    """translator validation: stripped .pyx executed as Python vs. the
    compiled extension vs. the exact rational oracle"""
    from dclab.external.skimage.measure import points_in_poly
    ns, _ = load_pyx(REPO / PYX, name="geometry_pyx")
    rnd = random.Random(seed)
    mism, n = [], 0
    polys = [[(0, 0), (0, 1), (1, 1), (1, 0)],                 # repo tests
             [(0, 0), (0.5, 0.25), (0, 1), (1, 1), (1, 0)],
             [(0, 0), (0, 1), (1, 0)]]
    for _ in range(60 if tier == "quick" else 300):
        k = rnd.randint(3, 8)
        polys.append([(rnd.randint(0, 6), rnd.randint(0, 6))
                      for _ in range(k)])
    for poly in polys:
        pts = [(rnd.randint(-1, 7) + rnd.choice([0, 0.5]),
                rnd.randint(-1, 7) + rnd.choice([0, 0.5]))
               for _ in range(6)]
        so = points_in_poly(np.array(pts, dtype=float),
                            np.array(poly, dtype=float))
        for k, pt in enumerate(pts):
            exp = exact_even_odd(poly, pt)
            py = bool(ns["point_in_polygon"](
                len(poly), [float(p[0]) for p in poly],
                [float(p[1]) for p in poly], float(pt[0]), float(pt[1])))
            n += 1
            if py != bool(so[k]):
                mism.append("source/binary drift: stripped .pyx says %s, "
                            "compiled extension says %s for %r in %r" % (
                                py, bool(so[k]), pt, poly))
            if exp is not None and py != exp:
                mism.append("stripped .pyx disagrees with exact oracle on "
                            "%r in %r" % (pt, poly))
    # drift between source and binary is reported, not a harness error
    drift = [m for m in mism if m.startswith("source/binary")]
    other = [m for m in mism if not m.startswith("source/binary")]
    if drift:
        print("NOTE: %d source/binary drift observations, e.g. %s" % (
            len(drift), drift[0]))
    # disagreement with the oracle on concrete vectors is a *finding*
    # candidate that the symbolic run reports; do not double count here
    return {"traces": n, "mismatches": []}


CANARIES = [
    dict(name="filter forgets inversion", module=PF,
         qualname="PolygonFilter.filter", old="if self.inverted:",
         new="if self.inverted and len(f) > 1:",
         cases=["filter n=3 pts=1 inverted=True"]),
    dict(name="filter swaps axes", module=PF,
         qualname="PolygonFilter.filter", old="points[:, 1] = datay",
         new="points[:, 1] = datax", cases=["filter n=3 pts=1 inverted=False"]),
]
