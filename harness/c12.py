"""C12 -- statistics and density estimates are computed from exactly the
filtered events.

Real code executed symbolically: Statistics.__call__/_get_data/get_feature,
get_statistics, flow_rate and the registered Events / %-gated / Flow-rate
methods (statistics.py); RTDCBase.get_kde_scatter / get_kde_contour /
get_kde_spacing / _apply_scale (core.py); ignore_nan_inf, get_bad_vals,
kde_histogram, kde_gauss, kde_multivariate, kde_none, bin_width_doane,
bin_num_doane, bin_width_percentile (kde_methods.py); get_quantile_levels
(kde_contours.py).

The numeric kernels underneath (scipy spline / gaussian_kde / skew / interpn,
KDEMultivariate, numpy histogram2d / percentile / log / sqrt) are
UNINTERPRETED functions with congruence: equal arguments give equal results,
different arguments may give anything.  Three worlds are executed on each
path: (A) the dataset with its filter, (B) the same dataset with ARBITRARY
OTHER values on the excluded events, (C) a dataset that contains only the
selected events.  z3 proves that every result is the same in A, B and C
(non-interference / restriction), that each statistic equals its definition
on the finite selected values, and the structural parts of the estimators
(what reaches the kernel, bin centres, default bins and bandwidths, NaN at
invalid positions, grid normalisation in get_quantile_levels).
"""
import itertools
import random
import types

import numpy as np
import z3

from vf import symx
from vf.common import real
from vf.dcsym import shadow, quiet
from vf.symnp import SArr, SymNP, Tok, _elems
from vf.symx import (Engine, SBool, SFloat, SInt, SReal, NotModelled, tobool,
                     toint, toreal, smax, smin, srange, sint, rebind)

PID = "C12"
ST = "dclab.statistics"
CORE = "dclab.rtdc_dataset.core"
KM = "dclab.kde_methods"
KC = "dclab.kde_contours"
FUNCTIONS = [(ST, "Statistics.__call__"), (ST, "Statistics._get_data"),
             (ST, "Statistics.get_feature"), (ST, "get_statistics"),
             (ST, "flow_rate"),
             (CORE, "RTDCBase.get_kde_scatter"),
             (CORE, "RTDCBase.get_kde_contour"),
             (CORE, "RTDCBase.get_kde_spacing"),
             (CORE, "RTDCBase._apply_scale"),
             (KM, "ignore_nan_inf"), (KM, "get_bad_vals"),
             (KM, "kde_histogram"), (KM, "kde_gauss"),
             (KM, "kde_multivariate"), (KM, "kde_none"),
             (KM, "bin_width_doane"), (KM, "bin_num_doane"),
             (KM, "bin_width_percentile"), (KC, "get_quantile_levels")]
BOUNDS = {
    "quick": {"events": 3, "values": "arbitrary reals, NaN or +-inf "
              "(modelled as one 'invalid' class) on every event incl. the "
              "excluded ones", "filter": "arbitrary subset; enable-filters "
              "flag arbitrary for statistics", "entry points": "every "
              "statistics method; kde scatter x {histogram, gauss, "
              "multivariate, none} x {linear, log} x {no positions, 2 "
              "explicit positions}; kde contour x {default, explicit "
              "accuracy} x {linear, log}; get_quantile_levels with 2x2 grid, "
              "<= 3 events"},
    "thorough": {"events": 4},
}
OUTSIDE = ["the numeric kernels themselves: spline interpolation, Gaussian "
           "KDE, product-kernel KDE (dclab/external/statsmodels), skew, "
           "percentile, histogram2d, interpn, marching squares "
           "(find_contours_level) -- floating point library code, not "
           "encodable; the claim 'equals the reference estimator' is decided "
           "only for what dclab itself computes around them",
           "_find_quantile_level (iterative, convergence)",
           "get_downsampled_scatter (C16) and filtered tsv export (C02)",
           "the Cache decorator (C17)", "Mode statistic beyond "
           "non-interference", "more events than the bound"]
STUBS = ["numpy shim; np.log/exp/log2/sqrt/round -> uninterpreted real "
         "functions; products/quotients of two symbolic reals -> "
         "uninterpreted (QF_UFLRA)",
         "dataset: RTDCBase subclass with two scalar features and a stub "
         "filter whose `all` is (not enable) | bit_i (the combined filter "
         "itself is C03)"]
ASSUMPTIONS = ["congruence only for the kernels (any leak of an excluded "
               "value into a kernel argument is observable)",
               "-inf/+inf and NaN form one class 'invalid' (every consumer "
               "discards both)"]
EXPLANATION = "C12: non-interference of excluded events + estimator wiring."
ALLOW_UNKNOWN = False

RS = z3.RealSort()
F_LOG = z3.Function("log", RS, RS)
F_EXP = z3.Function("exp", RS, RS)
F_LOG2 = z3.Function("log2", RS, RS)
F_SQRT = z3.Function("sqrt", RS, RS)
F_ROUND = z3.Function("round", RS, RS)
F_CEIL = z3.Function("ceil", RS, RS)


def lift(x):
    if isinstance(x, SFloat):
        return x
    if isinstance(x, np.generic):
        x = x.item()
    return SFloat.lift(x)


def same(a, b):
    if a is b:
        return True
    if isinstance(a, (str, type(None))) or isinstance(b, (str, type(None))):
        return a == b
    if isinstance(a, Tok) or isinstance(b, Tok):
        return bool(a == b)
    a, b = lift(a), lift(b)
    return z3.And(a.nan == b.nan, z3.Or(a.nan, a.v == b.v))


def conj(items):
    out = []
    for x in items:
        if x is True:
            continue
        if x is False:
            return z3.BoolVal(False)
        out.append(x)
    return z3.And(out) if out else z3.BoolVal(True)


def flat(x):
    """flatten an argument into a list of scalars (+ structure tag)"""
    if isinstance(x, Grid):
        return ("grid",), x.scalars()
    if isinstance(x, (SArr, list, tuple, np.ndarray)):
        tags, vals = [], []
        for e in _elems(x) if not isinstance(x, np.ndarray) else list(x):
            t, v = flat(e)
            tags.append(t)
            vals += v
        return ("seq", tuple(tags)), vals
    if hasattr(x, "__symarray__"):
        return flat(x.__symarray__())
    return ("s",), [x]


class UF:
    """uninterpreted kernels with congruence (manual Ackermann expansion)"""

    def __init__(self, eng):
        self.eng = eng
        self.calls = {}
        self.count = 0
        self.log = []

    def __call__(self, name, args, shape=None):
        tags, vals = [], []
        for a in args:
            t, v = flat(a)
            tags.append(t)
            vals += v
        tags = tuple(tags)
        key = tuple(("c", v) if isinstance(v, (str, type(None)))
                    else (lift(v).nan.get_id(), lift(v).v.get_id())
                    for v in vals)
        prev = self.calls.setdefault((name, tags, shape), [])
        for pk, pv, pr in prev:
            if pk == key:
                return pr
        self.count += 1
        n = 1 if shape is None else int(np.prod(shape))
        res = [self.eng.float("uf_%s_%d_%d" % (name, self.count, i))
               for i in range(n)]
        for pk, pv, pr in prev:
            eq = conj([same(a, b) for a, b in zip(vals, pv)])
            pres = pr if isinstance(pr, list) else [pr]
            self.eng._add(z3.Implies(eq, conj(
                [same(a, b) for a, b in zip(res, pres)])))
        out = res[0] if shape is None else res
        prev.append((key, vals, out))
        self.log.append((name, args))
        return out


class Grid:
    """np.linspace / meshgrid result with SYMBOLIC number of points"""

    def __init__(self, kind, parts):
        self.kind, self.parts = kind, parts

    def scalars(self):
        out = [self.kind]
        for p in self.parts:
            out += p.scalars() if isinstance(p, Grid) else [p]
        return out

    @property
    def shape(self):
        return ("symbolic",)


def elem(f, x, bad=None):
    """apply an uninterpreted real function elementwise"""
    def one(v):
        v = lift(v)
        nan = v.nan if bad is None else z3.Or(v.nan, bad(v.v))
        return SFloat(nan, f(v.v))
    if isinstance(x, Grid):
        return Grid(str(f), [x])
    if isinstance(x, (SArr, list, np.ndarray)) or hasattr(x, "__symarray__"):
        return SArr([one(v) for v in _elems(x)], float)
    return one(x)


def make_np(uf):
    def log(a):
        return elem(F_LOG, a, bad=lambda v: v <= 0)

    def percentile(a, q, **kw):
        return uf("percentile", [a, q])

    def nanpercentile(a, q, **kw):
        a = SArr([v for v in _elems(a)], float)
        if isinstance(q, (SArr, list, np.ndarray)):
            return SArr(uf("nanpercentile", [a, list(q)],
                           shape=(len(q),)), float)
        return uf("nanpercentile", [a, q])

    def linspace(a, b, num, endpoint=True):
        return Grid("linspace", [lift(a), lift(b), lift(num)])

    def meshgrid(x, y, indexing="xy"):
        return Grid("meshx-" + indexing, [x, y]), Grid("meshy-" + indexing,
                                                       [x, y])

    def histogram2d(x, y, bins=None, density=False):
        bx, by = bins
        for b in (bx, by):
            if isinstance(b, SInt):     # default bins: bound the fork
                uf.eng.assume(z3.And(b.e >= 1, b.e <= 6))
        bx, by = int(bx), int(by)
        h = uf("histogram2d", [x, y, bx, by, density], shape=(bx * by,))
        # uniform edges from min to max (numpy's contract)
        ex = edges(x, bx)
        ey = edges(y, by)
        return Hist(h, bx, by), ex, ey

    def edges(v, n):
        vs = [lift(e) for e in _elems(v)]
        lo = uf("min", [vs])
        hi = uf("max", [vs])
        w = (hi - lo) / n
        return SArr([lo + w * i for i in range(n + 1)], float)

    def vstack(parts):
        return VStack([SArr(list(_elems(p)), float) for p in parts])

    def average(a, **kw):
        vs = [lift(v) for v in _elems(a)]
        tot = vs[0]
        for v in vs[1:]:
            tot = tot + v
        return tot / len(vs)

    def median(a, **kw):
        vs = [lift(v) for v in _elems(a)]
        n = len(vs)
        vs = sort_net(vs)
        if n % 2:
            return vs[n // 2]
        return (vs[n // 2 - 1] + vs[n // 2]) / 2

    def std(a, **kw):
        vs = [lift(v) for v in _elems(a)]
        m = average(vs)
        var = None
        for v in vs:
            d = v - m
            var = d * d if var is None else var + d * d
        var = var / len(vs)
        return SFloat(var.nan, F_SQRT(var.v))

    npx = SymNP(log=log, exp=lambda a: elem(F_EXP, a),
                log2=lambda a: elem(F_LOG2, a), sqrt=lambda a: elem(F_SQRT, a),
                round=lambda a, *k: elem(F_ROUND, a),
                ceil=lambda a: elem(F_CEIL, a), percentile=percentile,
                nanpercentile=nanpercentile, linspace=linspace,
                meshgrid=meshgrid, histogram2d=histogram2d, vstack=vstack,
                average=average, median=median, std=std)
    return npx


class VStack(list):
    """np.vstack of 1-D arrays: a list of rows"""

    @property
    def shape(self):
        return (len(self), len(self[0]) if self else 0)


def sort_net(vs):
    """sorted copy of <= 4 symbolic values (values assumed non-NaN)"""
    vs = list(vs)
    n = len(vs)
    for i in range(n):
        for j in range(n - 1 - i):
            a, b = vs[j], vs[j + 1]
            c = a.v <= b.v
            vs[j] = SFloat(z3.BoolVal(False), z3.If(c, a.v, b.v))
            vs[j + 1] = SFloat(z3.BoolVal(False), z3.If(c, b.v, a.v))
    return vs


class Hist:
    def __init__(self, vals, bx, by):
        self.vals, self.bx, self.by = vals, bx, by


# ----------------------------------------------------------------- worlds
class World:
    """one dataset: values per event for two features + filter"""

    def __init__(self, name, xs, ys, allbits, enable=True, flow=None):
        self.name, self.xs, self.ys = name, xs, ys
        self.allbits, self.enable, self.flow = allbits, enable, flow


def make_ds(ns_core, w, temp=False):
    RTDCBase = ns_core["RTDCBase"]

    class SDS(RTDCBase):
        def __init__(self):
            RTDCBase.__init__(self, identifier="mm-c12")
            self.title = "c12"
            self.path = "none"
            self.format = "dict"
            self.config = {"filtering": {
                "enable filters": w.enable,
                # the flag says nothing about the filter array at hand
                # (features added or flag switched after the last
                # apply_filter): symbolic, shared by the three worlds
                "remove invalid events": Engine.cur.bool("remove_invalid")},
                           "setup": ({} if w.flow is None
                                     else {"flow rate": w.flow}),
                           "experiment": {}, "calculation": {}}
            self._events = {"area_um": SArr(list(w.xs), float),
                            "deform": SArr(list(w.ys), float)}
            self._ds_filter = types.SimpleNamespace(
                all=SArr(list(w.allbits), bool))

        hash = "c12"
        features_basin = []

        def __len__(self):
            return len(w.xs)

        def __contains__(self, feat):
            return feat in self._events

        def __getitem__(self, feat):
            return self._events[feat]

        @property
        def features_scalar(self):
            return ["area_um", "deform"]

        def _assert_filter(self):
            pass
    return SDS()


def build(uf):
    npx = make_np(uf)

    def skew(a):
        return uf("skew", [a])

    class gaussian_kde:
        seen = []          # what the estimator was constructed from

        def __init__(self, dataset):
            self.dataset = [list(_elems(d)) for d in dataset]
            gaussian_kde.seen.append(self.dataset)

        def evaluate(self, points):
            pts = [list(_elems(p)) for p in points]
            return SArr(uf("gaussian_kde", [self.dataset, pts],
                           shape=(len(pts[0]),)), float)

    class RectBivariateSpline:
        def __init__(self, x, y, z):
            self.x, self.y, self.z = list(_elems(x)), list(_elems(y)), z

        def ev(self, xo, yo):
            xo, yo = list(_elems(xo)), list(_elems(yo))
            return SArr(uf("spline", [self.x, self.y, self.z.vals, self.z.bx,
                                      self.z.by, xo, yo],
                           shape=(len(xo),)), float)

    class KDEMultivariate:
        def __init__(self, data, var_type, bw):
            self.data = [list(_elems(d)) for d in data]
            self.var_type, self.bw = var_type, list(bw)

        def pdf(self, positions):
            assert isinstance(positions, VStack)
            pts = [list(_elems(r)) for r in positions]
            return SArr(uf("kdemv", [self.data, self.var_type, self.bw, pts],
                           shape=(len(pts[0]),)), float)

    km = shadow(KM, np=npx, skew=skew, gaussian_kde=gaussian_kde,
                RectBivariateSpline=RectBivariateSpline,
                KDEMultivariate=KDEMultivariate, max=smax, int=sint2)
    # the module-level estimators are already decorated with the REAL
    # wrappers: rebuild them from the inner functions (without Cache: C17)
    import dclab.kde_methods as kmod
    import dclab.cached as cmod
    methods = {}
    for nm in ("kde_gauss", "kde_histogram", "kde_multivariate"):
        wrapped = real(KM, nm)
        cache_obj = [c.cell_contents for c in wrapped.__closure__
                     if isinstance(c.cell_contents, cmod.Cache)][0]
        inner = cache_obj.func
        fn = types.FunctionType(inner.__code__, km, inner.__name__,
                                inner.__defaults__, inner.__closure__)
        fn.__doc__ = inner.__doc__ or ""
        km[nm] = km["ignore_nan_inf"](fn)
        methods[nm[4:]] = km[nm]
    methods["none"] = km["kde_none"]
    km["methods"] = methods
    kmns = types.SimpleNamespace(**km)
    core = shadow(CORE, np=npx, kde_methods=kmns, int=sint2, len=len)
    return npx, km, core


# ------------------------------------------------------------ entry points
def worlds(eng, p):
    """A: filtered dataset, B: other values on excluded events, C: only the
    selected events.  Filter bits are decided (forked) here."""
    N = p["N"]
    xs = [eng.float("x%d" % i) for i in range(N)]
    ys = [eng.float("y%d" % i) for i in range(N)]
    xo = [eng.float("xother%d" % i) for i in range(N)]
    yo = [eng.float("yother%d" % i) for i in range(N)]
    bits = [eng.bool("sel%d" % i) for i in range(N)]
    en = eng.bool("enable") if p.get("enable") == "free" else True
    sel = []
    for b in bits:
        eff = b.e if en is True else z3.Or(z3.Not(en.e), b.e)
        sel.append(bool(eng.branch(eff)))
    en_c = en if en is True else bool(eng.branch(en.e))
    flow = eng.real("flow") if p.get("flow") else None
    A = World("A", xs, ys, sel, en_c, flow)
    B = World("B", [x if s else o for x, o, s in zip(xs, xo, sel)],
              [y if s else o for y, o, s in zip(ys, yo, sel)], sel, en_c,
              flow)
    C = World("C", [x for x, s in zip(xs, sel) if s],
              [y for y, s in zip(ys, sel) if s],
              [True] * sum(sel), en_c, flow)
    return A, B, C, sel


def sint2(x, *a):
    """int() of a symbolic real: integer-valued term (ToInt)"""
    if isinstance(x, (SFloat, SReal)):
        return SInt(z3.ToInt(lift(x).v))
    return sint(x, *a)


EMPTY = object()


def out_scalars(o):
    return flat(o)[1]


def compare(eng, outs, what, skip_c=()):
    a0 = out_scalars(outs[0])
    for nm, o in zip("BC", outs[1:]):
        if o is EMPTY:
            continue        # no event selected: an empty dataset is not
            #                 constructible (outside the claim)
        b = out_scalars(o)
        a = a0
        if nm == "C" and skip_c:
            a = [v for i, v in enumerate(a0) if i not in skip_c]
            b = [v for i, v in enumerate(b) if i not in skip_c]
        eng.prove(conj([len(a) == len(b)] + [same(u, v)
                                             for u, v in zip(a, b)]),
                  what + {"B": ": independent of the values on excluded "
                          "events", "C": ": equals the result on a dataset "
                          "of the selected events only"}[nm])


def run_stats(eng, p):
    uf = UF(eng)
    npx = make_np(uf)
    sns = shadow(ST, np=npx)
    S = sns["Statistics"]
    import dclab.statistics as smod
    S.available_methods = {}
    for name, inst in smod.Statistics.available_methods.items():
        m = inst.method
        if isinstance(m, types.FunctionType) and m.__module__ == ST:
            if name == "Mode":
                def meth(data, _uf=uf):
                    return _uf("mode", [data])
            else:
                meth = types.FunctionType(m.__code__, sns, m.__name__,
                                          m.__defaults__, m.__closure__)
        else:
            meth = {"Mean": npx.average, "Median": npx.median,
                    "SD": npx.std}[name]
        S(name=name, method=meth, req_feature=inst.req_feature)
    A, B, C, sel = worlds(eng, p)
    _, _, core = build(uf)
    outs = []
    hdr = None
    for w in (A, B, C):
        if w is C and not any(sel):
            outs.append(EMPTY)
            continue
        ds = make_ds(core, w)
        with quiet():
            h, v = sns["get_statistics"](ds, features=["deform"])
        outs.append(v)
        hdr = hdr or h
        eng.prove(z3.BoolVal(h == hdr), "statistics header identical")
    # "%-gated" is by definition 100 on a dataset of the selected events
    compare(eng, outs, "statistics",
            skip_c=[i for i, k in enumerate(hdr) if k == "%-gated"])
    # definitions (world A)
    vals = dict(zip(hdr, outs[0]))
    ys = [lift(y) for y, s in zip(A.ys, sel) if s]
    nsel = len(ys)
    # finite values: fork on NaN-ness
    fin = [y for y in ys if not eng.branch(y.nan)]
    for k, v in vals.items():
        v = lift(v)
        if k == "Events":
            eng.prove(z3.And(z3.Not(v.nan), v.v == nsel),
                      "Events == number of selected events")
        elif k == "%-gated":
            eng.prove(z3.And(z3.Not(v.nan), v.v * p["N"] == 100 * nsel),
                      "%-gated == 100 * selected / all")
        elif k == "Flow rate":
            eng.prove(same(v, A.flow if A.flow is not None
                           else float("nan")),
                      "Flow rate == [setup] flow rate (NaN if absent)")
        elif k.startswith("Mean"):
            if fin:
                tot = sum((f.v for f in fin[1:]), fin[0].v)
                eng.prove(z3.And(z3.Not(v.nan), v.v * len(fin) == tot),
                          "Mean == arithmetic mean of the finite selected "
                          "values")
            else:
                eng.prove(v.nan, "Mean of no finite value is NaN")
        elif k.startswith("Median"):
            if fin:
                le = [z3.Sum([z3.If(f.v <= v.v, 1, 0) for f in fin])]
                ge = [z3.Sum([z3.If(f.v >= v.v, 1, 0) for f in fin])]
                eng.prove(z3.And(z3.Not(v.nan), 2 * le[0] >= len(fin),
                                 2 * ge[0] >= len(fin)),
                          "Median: at least half of the finite selected "
                          "values on either side")
            else:
                eng.prove(v.nan, "Median of no finite value is NaN")
        elif k.startswith("SD") or k.startswith("Mode"):
            if not fin:
                eng.prove(v.nan, "%s of no finite value is NaN"
                          % k.split()[0])
    return "ok"


def run_scatter(eng, p):
    uf = UF(eng)
    npx, km, core = build(uf)
    A, B, C, sel = worlds(eng, p)
    pos = None
    if p["positions"]:
        px = [eng.float("px%d" % i) for i in range(2)]
        py = [eng.float("py%d" % i) for i in range(2)]
        pos = (SArr(px, float), SArr(py, float))
    def isbad(v, scale):
        v = lift(v)
        return z3.Or(v.nan, v.v <= 0) if scale == "log" else v.nan
    nvalid = 0
    for w in (A, B):
        nv = 0
        for x, y, s_ in zip(w.xs, w.ys, sel):
            if s_ and not eng.branch(z3.Or(isbad(x, p["xscale"]),
                                           isbad(y, p["yscale"]))):
                nv += 1
        nvalid = nv
    if nvalid == 0 and p["kde"] != "none":
        return "no valid selected event: estimate undefined"
    outs = []
    kw = {}
    if p.get("bins"):
        kw = {"bins": p["bins"]}
    for w in (A, B, C):
        ds = make_ds(core, w)
        with quiet():
            d = ds.get_kde_scatter(xax="area_um", yax="deform",
                                   positions=pos, kde_type=p["kde"],
                                   kde_kwargs=dict(kw), xscale=p["xscale"],
                                   yscale=p["yscale"])
        outs.append(d)
    seen = km["gaussian_kde"].seen
    if p["kde"] == "gauss" and p["xscale"] == p["yscale"] == "linear" \
            and seen:
        # the reference estimator is built from exactly the valid selected
        # events (as a multiset: the estimate is permutation invariant)
        exp = [(lift(x).v, lift(y).v) for x, y, s_ in zip(A.xs, A.ys, sel)
               if s_ and not eng.branch(z3.Or(lift(x).nan, lift(y).nan))]
        got = [(lift(a).v, lift(b).v) for a, b in zip(*seen[0])]

        def count(lst, e):
            return z3.Sum([z3.If(z3.And(g[0] == e[0], g[1] == e[1]), 1, 0)
                           for g in lst])
        eng.prove(conj([len(got) == len(exp)] + [
            count(got, e) == count(exp, e) for e in exp]),
            "kde scatter: the Gaussian estimator is built from exactly the "
            "selected valid events",
            info={"events given to the estimator": len(got),
                  "selected valid events": len(exp)})
    if pos is None:
        # same number of results, but C has only the selected events:
        # compare A/B elementwise and A vs C on the selected events
        eng.prove(z3.BoolVal(len(outs[0]) == sum(sel)),
                  "kde scatter: one density value per selected event")
    compare(eng, outs, "kde scatter")
    # structure: invalid events / positions
    d = list(_elems(outs[0]))
    xs = [lift(x) for x, s in zip(A.xs, sel) if s]
    ys = [lift(y) for y, s in zip(A.ys, sel) if s]

    def bad(v, scale):
        return z3.Or(v.nan, v.v <= 0) if scale == "log" else v.nan
    if p["kde"] != "none":
        if pos is None:
            pts = list(zip(xs, ys))
        else:
            pts = list(zip([lift(v) for v in px], [lift(v) for v in py]))
        eng.prove(conj([len(d) == len(pts)] + [
            z3.Implies(z3.Or(bad(a, p["xscale"]), bad(b, p["yscale"])),
                       lift(o).nan) for (a, b), o in zip(pts, d)]),
            "kde scatter: density is NaN at invalid positions")
    return "ok"


def run_histogram(eng, p):
    """what reaches histogram2d / the spline inside kde_histogram"""
    uf = UF(eng)
    npx, km, core = build(uf)
    N = p["N"]
    xs = SArr([eng.float("x%d" % i) for i in range(N)], float)
    ys = SArr([eng.float("y%d" % i) for i in range(N)], float)
    valid = [i for i in range(N) if not eng.branch(
        z3.Or(xs.elems[i].nan, ys.elems[i].nan))]
    if not valid:
        return "no valid event"
    bins = p["bins"]
    with quiet():
        d = km["kde_histogram"](xs, ys, bins=bins)
    calls = {nm: args for nm, args in uf.log}
    hx, hy, bx, by, dens = calls["histogram2d"]
    vx = [xs.elems[i] for i in valid]
    vy = [ys.elems[i] for i in valid]
    eng.prove(conj([len(_elems(hx)) == len(vx)] + [
        same(a, b) for a, b in zip(_elems(hx), vx)] + [
        same(a, b) for a, b in zip(_elems(hy), vy)]),
        "histogram2d receives exactly the valid events")
    eng.prove(z3.BoolVal((bx, by) == tuple(bins) and dens is True),
              "histogram2d: requested bins, density=True")
    sx, sy, sz, sbx, sby, xo, yo = calls["spline"]
    lo, hi = uf("min", [vx]), uf("max", [vx])
    w = (hi - lo) / bins[0]
    eng.prove(conj([len(sx) == bins[0]] + [
        same(c, lo + w * i + w / 2) for i, c in enumerate(sx)]),
        "spline x nodes are the bin centres")
    lo, hi = uf("min", [vy]), uf("max", [vy])
    w = (hi - lo) / bins[1]
    eng.prove(conj([len(sy) == bins[1]] + [
        same(c, lo + w * i + w / 2) for i, c in enumerate(sy)]),
        "spline y nodes are the bin centres")
    eng.prove(conj([same(a, b) for a, b in zip(xo, vx)] + [
        same(a, b) for a, b in zip(yo, vy)] + [len(xo) == len(vx)]),
        "spline evaluated at the (valid) output positions")
    out = list(_elems(d))
    eng.prove(conj([z3.Or(lift(o).nan, lift(o).v >= 0) for o in out]),
              "density is never negative")
    return "ok"


def run_defaults(eng, p):
    """default bins of kde_histogram and default bandwidth of
    kde_multivariate come from the respective axis"""
    uf = UF(eng)
    npx, km, core = build(uf)
    N = p["N"]
    xs = SArr([eng.real("x%d" % i) for i in range(N)], float)
    ys = SArr([eng.real("y%d" % i) for i in range(N)], float)
    with quiet():
        wx = km["bin_width_doane"](xs)
        wy = km["bin_width_doane"](ys)
        km["kde_multivariate"](xs, ys)
    bw = [a for nm, a in uf.log if nm == "kdemv"][0][2]
    eng.prove(z3.And(same(bw[0], wx / 2), same(bw[1], wy / 2)),
              "kde_multivariate default bandwidth == doane width / 2 of "
              "the respective axis")
    # ... also when the density is evaluated at explicit positions
    px = SArr([eng.real("px%d" % i) for i in range(2)], float)
    py = SArr([eng.real("py%d" % i) for i in range(2)], float)
    n0 = len(uf.log)
    with quiet():
        km["kde_multivariate"](xs, ys, xout=px, yout=py)
    call = [a for nm, a in uf.log[n0:] if nm == "kdemv"][0]
    eng.prove(z3.And(same(call[2][0], wx / 2), same(call[2][1], wy / 2)),
              "kde_multivariate default bandwidth comes from the EVENTS, "
              "not from the positions the density is evaluated at")
    eng.prove(conj([same(a, b) for a, b in zip(call[0][0], list(xs))] +
                   [same(a, b) for a, b in zip(call[0][1], list(ys))] +
                   [same(a, b) for a, b in zip(call[3][0], list(px))] +
                   [same(a, b) for a, b in zip(call[3][1], list(py))]),
              "kde_multivariate: estimator built from the events, evaluated "
              "at the positions")
    # doane width formula
    n = N
    g1 = uf("skew", [xs])
    sig = npx.sqrt(6 * (n - 2) / ((n + 1) * (n + 3)))
    lo, hi = smin(list(xs)), smax(list(xs))
    k = 1 + npx.log2(n) + npx.log2(1 + abs(lift(g1)) / sig)
    eng.prove(same(wx, (lift(hi) - lift(lo)) / k),
              "bin_width_doane == (max-min) / (1 + log2 n + log2(1 + "
              "|skew|/sigma))")
    # default bins of kde_histogram: Doane's number of the RESPECTIVE axis
    # (an uninterpreted integer per axis, 0..7, so that max(5, .) varies)
    nums = {}

    def bin_num(a):
        key = str(lift(list(_elems(a))[0]).v)
        if key not in nums:
            v = eng.int("doane_num_%d" % len(nums))
            eng.assume((v >= 0) & (v <= 7))
            nums[key] = v
        return nums[key]
    km["bin_num_doane"] = bin_num     # the shadow functions' own globals
    km["max"] = smax
    n0 = len(uf.log)
    with quiet():
        km["kde_histogram"](xs, ys)
    call = [a for nm, a in uf.log[n0:] if nm == "histogram2d"][0]
    ex = smax(5, bin_num(xs))
    ey = smax(5, bin_num(ys))
    eng.prove(z3.And(toint(call[2]) == toint(ex),
                     toint(call[3]) == toint(ey)),
              "kde_histogram default bins == max(5, Doane number) of the "
              "respective axis",
              info=lambda ev: {"bins passed to histogram2d":
                               [str(call[2]), str(call[3])]})
    return "ok"


def run_contour(eng, p):
    uf = UF(eng)
    npx, km, core = build(uf)
    A, B, C, sel = worlds(eng, p)
    if not any(sel):
        return "nothing selected (contour undefined)"

    def isbad(v, scale):
        v = lift(v)
        return z3.Or(v.nan, v.v <= 0) if scale == "log" else v.nan
    nvalid = 0
    for x, y, s_ in zip(A.xs, A.ys, sel):
        if s_ and not eng.branch(z3.Or(isbad(x, p["xscale"]),
                                       isbad(y, p["yscale"]))):
            nvalid += 1
    if nvalid == 0:
        return "no valid selected event (contour undefined)"

    def est(events_x, events_y, xout=None, yout=None, **kw):
        return uf("estimator", [events_x, events_y, xout, yout,
                                sorted(kw.items())])
    km["methods"]["histogram"] = est
    acc = {}
    if p["acc"] == "explicit":
        acc = dict(xacc=eng.real("xacc"), yacc=eng.real("yacc"))
        eng.assume(z3.And(acc["xacc"].e > 0, acc["yacc"].e > 0))
    outs = []
    for w in (A, B, C):
        ds = make_ds(core, w)
        before = len(uf.log)
        with quiet():
            r = ds.get_kde_contour(xax="area_um", yax="deform",
                                   kde_type="histogram", xscale=p["xscale"],
                                   yscale=p["yscale"], **acc)
        outs.append(list(r))
        if w is A:
            ecall = [a for nm, a in uf.log[before:] if nm == "estimator"]
    compare(eng, outs, "kde contour (mesh and density)")
    # what reaches the estimator in world A
    if ecall:
        ex, ey = ecall[0][0], ecall[0][1]
        xs = [lift(x) for x, s in zip(A.xs, sel) if s]
        ys = [lift(y) for y, s in zip(A.ys, sel) if s]
        if p["xscale"] == "log":
            xs = list(_elems(npx.log(SArr(xs, float))))
        if p["yscale"] == "log":
            ys = list(_elems(npx.log(SArr(ys, float))))
        eng.prove(conj([len(_elems(ex)) == len(xs)] + [
            same(a, b) for a, b in zip(_elems(ex), xs)] + [
            same(a, b) for a, b in zip(_elems(ey), ys)]),
            "kde contour: the estimator receives the selected events in "
            "the chosen scale")
    return "ok"


def run_quantile(eng, p):
    """get_quantile_levels: grid normalisation keeps the grid ascending and
    the events inside; the percentile is taken over the valid events"""
    uf = UF(eng)
    npx = make_np(uf)
    record = {}

    class spint:
        @staticmethod
        def interpn(points, values, xi, method="linear", bounds_error=True,
                    fill_value=np.nan):
            gx, gy = [list(_elems(g)) for g in points]
            px, py = [list(_elems(q)) for q in xi]
            record.update(gx=gx, gy=gy, px=px, py=py, method=method,
                          bounds_error=bounds_error, fill=fill_value)
            return SArr(uf("interpn", [gx, gy, values.flat(), px, py],
                           shape=(len(px),)), float)
    kmns = shadow(KM, np=npx)
    kc = shadow(KC, np=npx, spint=spint, get_bad_vals=kmns["get_bad_vals"])
    gx = [eng.real("gx%d" % i) for i in range(2)]
    gy = [eng.real("gy%d" % i) for i in range(2)]
    eng.assume(z3.And(gx[0].e < gx[1].e, gy[0].e < gy[1].e))
    if p["sign"] == "positive":
        eng.assume(z3.And(gx[0].e > 0, gy[0].e > 0))
    n = p["n"]
    xp = SArr([eng.float("xp%d" % i) for i in range(n)], float)
    yp = SArr([eng.float("yp%d" % i) for i in range(n)], float)
    for arr, nm in ((xp, "xp"), (yp, "yp")):
        for i, v in enumerate(arr.elems):
            # +-inf as a third kind of value (distinct from NaN)
            v.inf = eng.bool("%s%d.inf" % (nm, i)).e
            eng.assume(z3.Not(z3.And(v.inf, v.nan)))
    dens = Dens([[eng.real("d%d%d" % (i, j)) for j in range(2)]
                 for i in range(2)])
    with quiet():
        kc["get_quantile_levels"](dens, SArr(gx, float), SArr(gy, float),
                                  xp, yp, q=0.5, normalize=False)
    for ax in ("gx", "gy"):
        g = record[ax]
        # scipy's contract: finite and strictly ascending or descending
        eng.prove(conj([z3.Not(lift(g[0]).nan), z3.Not(lift(g[1]).nan),
                        lift(g[0]).v != lift(g[1]).v]),
                  "interpolation grid stays finite and strictly monotonic "
                  "after normalisation", info={"axis": ax})
    valid = [i for i in range(n) if not eng.branch(
        z3.Or(xp.elems[i].nan, yp.elems[i].nan, xp.elems[i].inf,
              yp.elems[i].inf))]
    eng.prove(z3.BoolVal(len(record["px"]) == len(valid)),
              "only valid (neither NaN nor inf) events are interpolated")
    if len(record["px"]) != len(valid):
        return "invalid events interpolated"
    # relative position of every valid event within the grid is preserved
    g = [lift(v) for v in record["gx"]]
    for k, i in enumerate(valid):
        e = lift(record["px"][k])
        o = xp.elems[i]
        pos = g[0].v < g[1].v           # orientation after scaling
        eng.prove(z3.If(pos,
                        z3.And((e.v < g[0].v) == (o.v < gx[0].e),
                               (e.v > g[1].v) == (o.v > gx[1].e)),
                        z3.And((e.v > g[0].v) == (o.v < gx[0].e),
                               (e.v < g[1].v) == (o.v > gx[1].e))),
                  "normalisation keeps events on the same side of the grid "
                  "boundaries")
    pc = [a for nm, a in uf.log if nm == "nanpercentile"]
    eng.prove(z3.BoolVal(len(pc) == 1 and pc[0][1] == 50.0),
              "percentile taken at q*100")
    return "ok"


class Dens:
    def __init__(self, rows):
        self.rows = rows
        self.shape = (len(rows), len(rows[0]))

    def flat(self):
        return [v for r in self.rows for v in r]

    def max(self):
        return smax(self.flat())


RUN = {"stats": run_stats, "scatter": run_scatter, "hist": run_histogram,
       "defaults": run_defaults, "contour": run_contour,
       "quantile": run_quantile}


def run_case(name, params):
    symx.UF_NONLINEAR = params["kind"] != "quantile"
    try:
        eng = Engine(timeout_ms=30000, nra=params["kind"] == "quantile")
        eng.explore(lambda e: RUN[params["kind"]](e, params))
        return eng.stats()
    finally:
        symx.UF_NONLINEAR = False


def cases(tier, seed):
    N = 3 if tier == "quick" else 4
    out = [("statistics enable-free", dict(kind="stats", N=N, enable="free",
                                           flow=True)),
           ("statistics no flow rate", dict(kind="stats", N=2,
                                            enable="free", flow=False))]
    for kde in ("histogram", "gauss", "multivariate", "none"):
        for xs, ys in (("linear", "linear"), ("log", "linear"),
                       ("linear", "log")):
            for pos in (False, True):
                if kde == "none" and (xs, ys) != ("linear", "linear"):
                    continue
                out.append(("scatter %s %s/%s positions=%s" % (
                    kde, xs, ys, pos), dict(
                    kind="scatter", N=N, kde=kde, xscale=xs, yscale=ys,
                    positions=pos, bins=(2, 3) if kde == "histogram"
                    else None)))
    out.append(("scatter histogram default bins", dict(
        kind="scatter", N=2, kde="histogram", xscale="linear",
        yscale="linear", positions=False, bins=None, defaultbins=True)))
    for bins in ((2, 3), (1, 1), (3, 2)):
        out.append(("histogram wiring bins=%s" % (bins,),
                    dict(kind="hist", N=N, bins=bins)))
    out.append(("default bandwidth / doane width", dict(kind="defaults",
                                                        N=3)))
    for acc in ("default", "explicit"):
        for xs, ys in (("linear", "linear"), ("log", "linear"),
                       ("linear", "log"), ("log", "log")):
            out.append(("contour acc=%s %s/%s" % (acc, xs, ys), dict(
                kind="contour", N=N, acc=acc, xscale=xs, yscale=ys)))
    for sign in ("positive", "any"):
        for n in (1, 2):
            out.append(("quantile levels grid=%s n=%d" % (sign, n),
                        dict(kind="quantile", sign=sign, n=n)))
    return out


# ------------------------------------------------------------------ replay
K = 12          # every model event becomes a cluster of K real events


def _worlds_concrete(p, vals, rs, generic):
    N = p["N"]

    def val(name, i, lo, hi):
        if vals.get("%s%d.nan" % (name, i), False):
            return None
        v = vals.get("%s%d.v" % (name, i))
        if generic or v is None:
            return lo + (hi - lo) * rs.rand()
        return float(v)
    sel = [bool(vals.get("sel%d" % i, False)) for i in range(N)]
    if vals.get("enable", True) is False:
        sel = [True] * N
    cols = {}
    for nm, lo, hi in (("x", 40., 200.), ("y", 0.01, 0.2),
                       ("xother", 300., 900.), ("yother", 0.3, 0.9)):
        col = []
        for i in range(N):
            c = val(nm, i, lo, hi)
            for k in range(K):
                col.append(np.nan if c is None else
                           c * (1 + 0.05 * rs.randn()) + 1e-3 * rs.randn())
        cols[nm] = np.array(col)
    selk = np.repeat(sel, K)
    xa, ya = cols["x"], cols["y"]
    xb = np.where(selk, xa, cols["xother"])
    yb = np.where(selk, ya, cols["yother"])
    return (xa, ya), (xb, yb), (xa[selk], ya[selk]), selk


def _entry(p, vals, x, y, selk, enable=True):
    import dclab
    ds = dclab.new_dataset({"area_um": x, "deform": y})
    if p.get("flow"):
        ds.config["setup"]["flow rate"] = float(vals.get("flow", 0.04) or 0)
    ds.config["filtering"]["enable filters"] = bool(enable)
    ds.filter.manual[:] = selk
    ds.apply_filter()
    kind = p["kind"]
    if kind == "stats" and vals.get("remove_invalid"):
        # flag switched on after the filter was applied (stale filter)
        ds.config["filtering"]["remove invalid events"] = True
    if kind == "stats":
        from dclab import statistics
        h, v = statistics.get_statistics(ds, features=["deform"])
        return dict(zip(h, v))
    if kind == "scatter":
        pos = None
        if p["positions"]:
            pos = (np.array([60., 150.]), np.array([0.05, 0.15]))
        kw = {"bins": p["bins"]} if p.get("bins") else {}
        return {"density": ds.get_kde_scatter(
            positions=pos, kde_type=p["kde"], kde_kwargs=kw,
            xscale=p["xscale"], yscale=p["yscale"])}
    if kind == "contour":
        acc = {}
        if p["acc"] == "explicit":
            acc = dict(xacc=10., yacc=0.01)
            if p["xscale"] == "log":
                acc["xacc"] = 0.1
            if p["yscale"] == "log":
                acc["yacc"] = 0.1
        xm, ym, d = ds.get_kde_contour(kde_type="histogram",
                                       xscale=p["xscale"],
                                       yscale=p["yscale"], **acc)
        return {"xmesh": xm, "ymesh": ym, "density": d}
    raise ValueError(kind)


def _eq(a, b):
    a, b = np.asarray(a, dtype=float), np.asarray(b, dtype=float)
    return a.shape == b.shape and bool(np.array_equal(a, b, equal_nan=True))


def _run(fn):
    try:
        return fn(), None
    except Exception as e:
        return None, "%s: %s" % (type(e).__name__, e)


def _replay_gauss_reference(p, vals):
    """Gaussian KDE of the real entry point vs. scipy's estimator built
    directly from the selected valid events. Model events with equal values
    become identical clusters (exact ties are kept)."""
    import dclab
    from scipy.stats import gaussian_kde
    N = p["N"]
    rs = np.random.RandomState(7)
    ux, uy = rs.randn(K), rs.randn(K)
    cols = {}
    for nm, lo, hi, u in (("x", 40., 200., ux), ("y", 0.01, 0.2, uy)):
        mv = [None if vals.get("%s%d.nan" % (nm, i), False)
              else float(vals.get("%s%d.v" % (nm, i)) or 0) for i in range(N)]
        dist = sorted(set(m for m in mv if m is not None))
        col = []
        for m in mv:
            for k in range(K):
                if m is None:
                    col.append(np.nan)
                else:
                    base = lo + (hi - lo) * (dist.index(m) + 1) / (
                        len(dist) + 1)
                    col.append(base * (1 + 0.05 * u[k]))
        cols[nm] = np.array(col)
    sel = [bool(vals.get("sel%d" % i, False)) for i in range(N)]
    if vals.get("enable", True) is False:
        sel = [True] * N
    selk = np.repeat(sel, K)
    x, y = cols["x"], cols["y"]
    ds = dclab.new_dataset({"area_um": x, "deform": y})
    ds.config["filtering"]["enable filters"] = True
    ds.filter.manual[:] = selk
    ds.apply_filter()
    pos = None
    if p["positions"]:
        pos = (np.array([60., 150.]), np.array([0.05, 0.15]))
    got = ds.get_kde_scatter(positions=pos, kde_type="gauss")
    xs, ys = x[selk], y[selk]
    ok = ~(np.isnan(xs) | np.isnan(ys))
    px, py = (xs, ys) if pos is None else pos
    exp = np.full(len(px), np.nan)
    pok = ~(np.isnan(px) | np.isnan(py))
    if ok.sum():
        try:
            exp[pok] = gaussian_kde([xs[ok], ys[ok]]).evaluate(
                [px[pok], py[pok]])
        except np.linalg.LinAlgError:
            pass
    if got.shape == exp.shape and np.allclose(got, exp, equal_nan=True,
                                              rtol=1e-9, atol=0):
        return {"reproduced": False, "key": None,
                "detail": "real Gaussian KDE equals the reference estimator"}
    return {"reproduced": True, "key": "scatter|gauss|not-the-reference-"
            "estimator-on-the-selected-events",
            "detail": "get_kde_scatter(kde_type='gauss') on %d selected "
            "valid events (%d distinct) gives %r..., scipy's gaussian_kde "
            "built from exactly these events gives %r..." % (
                int(ok.sum()), len(set(zip(xs[ok], ys[ok]))),
                np.ravel(got)[:3].tolist(), exp[:3].tolist())}


def replay(case, params, v):
    vals = v.get("values") or {}
    p = params
    kind = p["kind"]
    what = str(v.get("what", ""))
    if kind == "scatter" and "estimator is built from" in what:
        with quiet():
            return _replay_gauss_reference(p, vals)
    with quiet():
        if kind in ("stats", "scatter", "contour"):
            for attempt in range(6):
                rs = np.random.RandomState(attempt)
                (xa, ya), (xb, yb), (xc, yc), selk = _worlds_concrete(
                    p, vals, rs, generic=attempt > 0)
                en = vals.get("enable", True)
                ra, ea = _run(lambda: _entry(p, vals, xa, ya, selk, en))
                rb, eb = _run(lambda: _entry(p, vals, xb, yb, selk, en))
                if selk.any():
                    rc, ec = _run(lambda: _entry(
                        p, vals, xc, yc, np.ones(len(xc), dtype=bool), en))
                else:
                    rc, ec = ra, ea
                if (ea is None) != (eb is None):
                    return {"reproduced": True,
                            "key": "%s|excluded-values-influence" % kind,
                            "detail": "raises only for one choice of the "
                            "excluded values: %r / %r" % (ea, eb)}
                if ra is None:
                    continue
                for k in ra:
                    if not _eq(ra[k], rb[k]):
                        return {"reproduced": True, "key":
                                "%s|excluded-values-influence" % kind,
                                "detail": "%s (%s) changes when only the "
                                "values of EXCLUDED events change: %r vs %r"
                                % (k, case, np.ravel(ra[k])[:4],
                                   np.ravel(rb[k])[:4])}
                if rc is not None:
                    for k in ra:
                        if k == "%-gated":
                            continue
                        if not _eq(ra[k], rc[k]):
                            return {"reproduced": True, "key":
                                    "%s|differs-from-restricted" % kind,
                                    "detail": "%s (%s) differs from the "
                                    "result on a dataset of the selected "
                                    "events only: %r vs %r" % (
                                        k, case, np.ravel(ra[k])[:4],
                                        np.ravel(rc[k])[:4])}
                if kind == "stats" and "==" in what or "Mean" in what or \
                        "Median" in what or "NaN" in what:
                    fin = ya[selk][np.isfinite(ya[selk])]
                    exp = {"Events": float(selk.sum()),
                           "%-gated": 100. * selk.mean()}
                    bad = [k for k in exp if not np.isclose(ra[k], exp[k])]
                    for k, fnc in (("Mean", np.mean), ("Median", np.median),
                                   ("SD", np.std)):
                        kk = [h for h in ra if h.startswith(k)][0]
                        e = fnc(fin) if len(fin) else np.nan
                        if not np.isclose(ra[kk], e, equal_nan=True):
                            bad.append(kk)
                    if bad:
                        return {"reproduced": True,
                                "key": "stats|definition|%s" % bad[0].split(
                                    )[0], "detail": "%s is %r" % (
                                        bad[0], ra[bad[0]])}
            return {"reproduced": False, "key": None,
                    "detail": "real results identical in all worlds"}
        if kind == "quantile":
            from dclab.kde_contours import get_quantile_levels
            gx = np.array([float(vals.get("gx%d" % i, i) or 0)
                           for i in range(2)])
            gy = np.array([float(vals.get("gy%d" % i, i) or 0)
                           for i in range(2)])
            dens = np.array([[1., 2.], [3., 4.]])
            xp = np.array([gx.mean()])
            yp = np.array([gy.mean()])
            r, e = _run(lambda: get_quantile_levels(dens, gx, gy, xp, yp,
                                                    q=0.5))
            if "valid" in what and e is None:
                # the same events plus events at +-inf / NaN: the level must
                # not change
                xs_ = np.linspace(gx[0], gx[1], 7)[1:-1]
                ys_ = np.linspace(gy[0], gy[1], 7)[1:-1]
                r0 = get_quantile_levels(dens, gx, gy, xs_, ys_, q=0.5)
                for bad in (np.inf, -np.inf, np.nan):
                    xb = np.concatenate([xs_, [bad, bad, bad]])
                    yb = np.concatenate([ys_, [ys_[0]] * 3])
                    r1, e1 = _run(lambda: get_quantile_levels(
                        dens, gx, gy, xb, yb, q=0.5))
                    if e1 is not None or not np.isclose(r0, r1):
                        return {"reproduced": True, "key":
                                "get_quantile_levels|invalid-events-counted",
                                "detail": "quantile level %r becomes %r when "
                                "three events at %r are added" % (
                                    r0, r1 if e1 is None else e1, bad)}
            ok = e is None and np.all(np.isfinite(r))
            if not ok:
                tag = "grid-max-zero" if (gx.max() == 0 or gy.max() == 0) \
                    else "other"
                return {"reproduced": True,
                        "key": "get_quantile_levels|%s" % tag,
                        "detail": "grid x=%r y=%r: %s" % (
                            gx.tolist(), gy.tolist(), e or r)}
            return {"reproduced": False, "key": None,
                    "detail": "finite level %r" % (r,)}
        if kind in ("hist", "defaults"):
            return _replay_wiring(p, what)
    return {"reproduced": False, "key": None, "detail": "no replay"}


def _replay_wiring(p, what):
    """differential: real estimator vs. the reference composition"""
    from scipy.interpolate import RectBivariateSpline
    from dclab import kde_methods as km
    from dclab.external.statsmodels.nonparametric.kernel_density import \
        KDEMultivariate
    for attempt in range(4):
        rs = np.random.RandomState(attempt)
        x = rs.normal(100, 20, 200)
        y = rs.normal(0.1, 0.02, 200)
        x[::17] = np.nan
        if p["kind"] == "hist":
            bins = tuple(max(2, b) * 4 for b in p["bins"])
            got = km.kde_histogram(x, y, bins=bins)
            ok = ~(np.isnan(x) | np.isnan(y))
            h, xe, ye = np.histogram2d(x[ok], y[ok], bins=bins, density=True)
            sp = RectBivariateSpline((xe[:-1] + xe[1:]) / 2,
                                     (ye[:-1] + ye[1:]) / 2, h)
            ref = np.full(x.shape, np.nan)
            ref[ok] = np.clip(sp.ev(x[ok], y[ok]), 0, None)
            if not np.allclose(got, ref, equal_nan=True):
                return {"reproduced": True, "key": "kde_histogram|wiring",
                        "detail": "kde_histogram differs from histogram2d + "
                        "spline through the bin centres (max diff %g)" %
                        np.nanmax(np.abs(got - ref))}
        elif "default bins" in what:
            # differently skewed axes: Doane's numbers differ and exceed 5
            x = rs.normal(100, 20, 600)
            y = np.exp(rs.normal(-2.5, 0.8, 600))
            seen = []
            orig = np.histogram2d

            def spy(*a, **k):
                seen.append(k.get("bins", a[2] if len(a) > 2 else None))
                return orig(*a, **k)
            np.histogram2d = spy
            try:
                km.kde_histogram(x, y)
            finally:
                np.histogram2d = orig
            exp = (max(5, km.bin_num_doane(x)), max(5, km.bin_num_doane(y)))
            if not seen or tuple(seen[0]) != exp:
                return {"reproduced": True,
                        "key": "kde_histogram|default-bins",
                        "detail": "kde_histogram without `bins` bins the "
                        "events with %r; Doane's numbers of the two axes are "
                        "%r" % (seen[0] if seen else None, exp)}
        else:
            ok = ~np.isnan(x)
            got = km.kde_multivariate(x, y)
            bw = (km.bin_width_doane(x[ok]) / 2,
                  km.bin_width_doane(y[ok]) / 2)
            est = KDEMultivariate(data=[x[ok], y[ok]], var_type="cc", bw=bw)
            ref = np.full(x.shape, np.nan)
            ref[ok] = est.pdf(np.vstack([x[ok], y[ok]]))
            from scipy.stats import skew
            d = x[ok]
            n = d.size
            k = 1 + np.log2(n) + np.log2(1 + np.abs(skew(d)) / np.sqrt(
                6 * (n - 2) / ((n + 1) * (n + 3))))
            if not np.isclose(km.bin_width_doane(x), (d.max() - d.min()) / k):
                return {"reproduced": True, "key": "bin_width_doane|formula",
                        "detail": "bin_width_doane deviates from Doane's "
                        "formula"}
            if not np.allclose(got, ref, equal_nan=True):
                return {"reproduced": True,
                        "key": "kde_multivariate|default-bandwidth",
                        "detail": "default bandwidth is not doane/2 per axis"}
            xo = np.array([80., 100., 120., 140.])
            yo = np.array([0.08, 0.1, 0.12, 0.09])
            got2 = km.kde_multivariate(x, y, xout=xo, yout=yo)
            ref2 = est.pdf(np.vstack([xo, yo]))
            if not np.allclose(got2, ref2, equal_nan=True):
                return {"reproduced": True,
                        "key": "kde_multivariate|default-bandwidth",
                        "detail": "with explicit positions the default "
                        "bandwidth is not doane/2 of the EVENTS (density %r, "
                        "reference %r)" % (got2.tolist(), ref2.tolist())}
    return {"reproduced": False, "key": None,
            "detail": "real estimators agree with the reference composition"}


def validate(tier, seed):
    """the replay oracle accepts the real code (concrete non-interference
    and reference compositions)"""
    mism, n = [], 0
    for name, p in cases("quick", seed):
        if p["kind"] == "quantile":
            continue
        vals = {"sel0": True, "sel1": False, "sel2": True, "sel3": True,
                "enable": True}
        n += 1
        r = replay(name, p, {"values": vals, "what": "== definition"})
        if r["reproduced"]:
            mism.append("%s: %s" % (name, r["detail"]))
    return {"traces": n, "mismatches": mism}


CANARIES = [
    dict(name="contour default accuracy from unfiltered data", module=CORE,
         qualname="RTDCBase.get_kde_contour",
         old="a=x,", new="a=self[xax],"),
    dict(name="scatter ignores the filter for y", module=CORE,
         qualname="RTDCBase.get_kde_scatter",
         old="y = self[yax][self.filter.all]",
         new="y = self[yax][:]"),
    dict(name="statistics ignore the filter", module=ST,
         qualname="Statistics.get_feature",
         old="x = ds[feat][ds.filter.all]", new="x = ds[feat]"),
    dict(name="bin centres shifted", module=KM, qualname="kde_histogram",
         old="xip = xedges[1:] - (xedges[1] - xedges[0]) / 2",
         new="xip = xedges[1:]"),
    dict(name="invalid output positions not NaN", module=KM,
         qualname="ignore_nan_inf", old="density[bad_out] = np.nan",
         new="pass"),
    dict(name="bandwidth of x used for y", module=KM,
         qualname="kde_multivariate",
         old="bw = (bin_width_doane(events_x) / 2,\n              "
             "bin_width_doane(events_y) / 2)",
         new="bw = (bin_width_doane(events_x) / 2,\n              "
             "bin_width_doane(events_x) / 2)"),
]
