"""C17 -- cached computations are indistinguishable from fresh ones.

Real code executed symbolically: cached.Cache.__call__/_update_hash (key
construction + FIFO), kde_methods.ignore_nan_inf wrapper (copy of results),
H5ScalarEvent / ChildScalar / BasinProxyFeature array access (aliasing of
cached arrays), LazyContourList.__getitem__ (index alignment of the two
deques), util.file_monitoring_lru_cache wrapper (cache key).
md5 is injective on the concatenation of its updates.
"""
import itertools
import numbers
import random

import numpy as np
import z3

from vf.common import real
from vf.dcsym import build_class, shadow, quiet
from vf.symnp import SArr, SymNP, Tok
from vf.symx import Engine, SBool, SInt, SReal, rebind, toint, tobool

numbers.Integral.register(SInt)

PID = "C17"
CM = "dclab.cached"
KM = "dclab.kde_methods"
EV = "dclab.rtdc_dataset.fmt_hdf5.events"
HE = "dclab.rtdc_dataset.fmt_hierarchy.events"
FBM = "dclab.rtdc_dataset.feat_basin"
CT = "dclab.features.contour"
UT = "dclab.util"
FUNCTIONS = [(CM, "Cache.__call__"), (CM, "Cache._update_hash"),
             (KM, "ignore_nan_inf"), (EV, "H5ScalarEvent.__array__"),
             (EV, "H5ScalarEvent.__getitem__"), (HE, "ChildScalar.__array__"),
             (HE, "ChildScalar.__getitem__"),
             (FBM, "BasinProxyFeature.__array__"),
             (FBM, "BasinProxyFeature.__getitem__"),
             (CT, "LazyContourList.__getitem__"),
             (UT, "file_monitoring_lru_cache.__call__")]
BOUNDS = {
    "quick": {"cache keys": "two calls, 1..2 positional + <= 1 keyword "
              "argument; arrays of dtype {float64,int64,uint8} with 8..16 "
              "bytes and shapes (n,), (1,n), (n,1), contiguous or strided; "
              "ints, bools, None, short strings, lists",
              "FIFO": "MAX_SIZE in 1..3, any fill level, hit or miss",
              "aliasing": "3 events, whole-array / slice / asarray access, "
              "then in-place write", "lazy contours": "maxlen 1..3, access "
              "sequences of length <= 4 over 4 events"},
    "thorough": {"cache keys": "as quick + 3 positional arguments",
                 "lazy contours": "sequences of length <= 5"},
}
OUTSIDE = ["md5 collisions", "thread interleavings", "functools.lru_cache "
           "itself (C; modelled as a dict keyed by all arguments)",
           "file modifications that change neither mtime_ns nor size"]
STUBS = ["hashlib.md5: injective on the concatenation of all updates",
         "ndarray.view(np.uint8): the raw bytes (symbolic), ValueError for "
         "non-contiguous arrays", "numpy shim with view/alias semantics",
         "get_contour: uninterpreted function of the mask"]
ASSUMPTIONS = ["two argument tuples are 'the same call' iff kinds, dtypes, "
               "shapes and contents agree"]
EXPLANATION = ("C17: key injectivity as an SMT query over symbolic bytes, "
               "FIFO inductive step, aliasing of cached arrays.")


# ====================================================== (i) key injectivity
class BArr:
    """array argument: dtype, shape, symbolic raw bytes, contiguity"""

    def __init__(self, dtype, shape, byts, contiguous=True):
        self.dtype, self.shape = np.dtype(dtype), tuple(shape)
        self.bytes, self.contiguous = byts, contiguous

    def view(self, dt):
        if not self.contiguous:
            raise ValueError("To change to a dtype of a different size, the "
                             "last axis must be contiguous")
        return BBytes(self.bytes)

    def __array__(self, *a, **k):
        raise TypeError("symbolic")


class BBytes:
    def __init__(self, b):
        self.b = list(b)


class MD5:
    def __init__(self):
        self.stream = []

    def update(self, x):
        if isinstance(x, BBytes):
            self.stream += x.b
        elif isinstance(x, BArr):           # buffer protocol of an ndarray
            if not x.contiguous:
                raise BufferError("ndarray is not C-contiguous")
            self.stream += x.bytes
        else:
            self.stream += list(bytes(x))

    def hexdigest(self):
        return Key(self.stream)


class Key:
    def __init__(self, stream):
        self.stream = stream

    def eq(self, o):
        if len(self.stream) != len(o.stream):
            return z3.BoolVal(False)
        return z3.And([toint(a) == toint(b)
                       for a, b in zip(self.stream, o.stream)] or [True])

    def __hash__(self):
        return 0

    def __eq__(self, o):
        r = z3.simplify(self.eq(o))
        return SBool(r)


class hashlib_shim:
    md5 = MD5


def make_arg(eng, spec, tag):
    kind = spec[0]
    if kind == "arr":
        _, dt, shape, contiguous = spec
        n = int(np.prod(shape)) * np.dtype(dt).itemsize
        byts = []
        for i in range(n):
            b = eng.int("%s_b%d" % (tag, i))
            eng.assume((b >= 0) & (b <= 255))
            byts.append(b)
        return BArr(dt, shape, byts, contiguous)
    if kind == "int":
        return spec[1]
    if kind == "lit":
        return spec[1]
    if kind == "list":
        return [make_arg(eng, s, "%s_l%d" % (tag, i))
                for i, s in enumerate(spec[1])]
    raise ValueError(spec)


def same_call(a, b):
    """z3 Bool: argument values describe the same call"""
    if isinstance(a, BArr) or isinstance(b, BArr):
        if not (isinstance(a, BArr) and isinstance(b, BArr)):
            return z3.BoolVal(False)
        if a.dtype != b.dtype or a.shape != b.shape:
            return z3.BoolVal(False)
        return z3.And([x.e == y.e for x, y in zip(a.bytes, b.bytes)]
                      or [True])
    if isinstance(a, list) or isinstance(b, list):
        if not (isinstance(a, list) and isinstance(b, list)) or \
                len(a) != len(b):
            return z3.BoolVal(False)
        return z3.And([same_call(x, y) for x, y in zip(a, b)] or [True])
    return z3.BoolVal(type(a) is type(b) and a == b)


def run_keys(eng, p):
    """two calls of the same memoised function; the second one hits the
    cache iff the keys are equal; then the arguments must be the same"""
    npx = SymNP(ascontiguousarray=lambda a: BArr(a.dtype, a.shape, a.bytes,
                                                True)
                if isinstance(a, BArr) else np.ascontiguousarray(a))
    npx.ndarray = (np.ndarray, BArr)
    ns = shadow(CM, np=npx, hashlib=hashlib_shim, MAX_SIZE=100)
    Cache = ns["Cache"]
    Cache._cache = {}
    Cache._keys = []
    calls = []

    def func(*a, **k):
        """doc"""
        calls.append((a, k))
        return ("result-of-call", len(calls))
    func.__name__ = "kde_like"
    cached = Cache(func)
    a1 = [make_arg(eng, s, "c1a%d" % i) for i, s in enumerate(p["args1"])]
    k1 = {k: make_arg(eng, s, "c1k_" + k) for k, s in p["kw1"].items()}
    a2 = [make_arg(eng, s, "c2a%d" % i) for i, s in enumerate(p["args2"])]
    k2 = {k: make_arg(eng, s, "c2k_" + k) for k, s in p["kw2"].items()}
    try:
        r1 = cached(*a1, **k1)
        r2 = cached(*a2, **k2)       # dict lookup compares Key objects
    except (ValueError, BufferError) as e:
        eng.fail("memoised call raises for a legal argument: %r" % (e,))
        return "raises"
    hit = r2 is r1 or len(calls) == 1
    eng.reach()
    if hit:
        same = z3.And(
            z3.BoolVal(len(a1) == len(a2) and set(k1) == set(k2)),
            z3.And([same_call(x, y) for x, y in zip(a1, a2)] or [True]),
            z3.And([same_call(k1[k], k2[k]) for k in k1 if k in k2]
                   or [True]))
        eng.prove(same, "cache hit only for the same arguments")
    return "hit" if hit else "miss"


# ===================================================== (i-b) byte coverage
class RArr:
    """a large 1-D uint8 array of SYMBOLIC length: only byte ranges are
    tracked (which bytes reach the hash?)"""

    def __init__(self, lo, hi, n):
        self.lo, self.hi, self.n = lo, hi, n
        self.dtype = np.dtype(np.uint8)
        self.ndim = 1

    @property
    def size(self):
        return self.hi - self.lo

    @property
    def shape(self):
        return (self.size,)

    def __len__(self):
        return int(self.size)

    def reshape(self, *a):
        return self

    def ravel(self):
        return self

    def flatten(self):
        return self

    def view(self, dt):
        return self

    def __getitem__(self, k):
        from vf.symx import smax, smin
        if not isinstance(k, slice) or k.step not in (None, 1):
            raise NotImplementedError("RArr index %r" % (k,))
        size = self.size
        a = 0 if k.start is None else k.start
        b = size if k.stop is None else k.stop
        a = smin(smax(a, 0), size)
        b = smin(smax(b, a), size)
        return RArr(self.lo + a, self.lo + b, self.n)


class RangeMD5:
    def __init__(self):
        self.ranges, self.other = [], []

    def update(self, x):
        if isinstance(x, RArr):
            self.ranges.append((x.lo, x.hi))
        else:
            self.other.append(bytes(x))

    def hexdigest(self):
        return "digest"


def run_coverage(eng, p):
    """every byte of an array argument of ANY size enters the key"""
    from vf.symx import srange
    n = eng.int("n")
    eng.assume((n >= 0) & (n <= p["nmax"]))
    npx = SymNP(ascontiguousarray=lambda a: a)
    npx.ndarray = (np.ndarray, RArr)
    ns = shadow(CM, np=npx, range=srange)
    Cache = ns["Cache"]
    c = Cache.__new__(Cache)
    c.ahash = RangeMD5()
    arr = RArr(SInt(z3.IntVal(0)), n, n)
    c._update_hash(arr)
    rs = c.ahash.ranges
    eng.prove(z3.BoolVal(len(rs) >= 1), "array data reaches the hash")
    if rs:
        conds = [toint(rs[0][0]) == 0, toint(rs[-1][1]) == n.e]
        for (a, b), (a2, b2) in zip(rs, rs[1:]):
            conds.append(toint(b) == toint(a2))
        for a, b in rs:
            conds.append(toint(a) <= toint(b))
        eng.prove(z3.And(conds), "the hashed byte ranges tile the whole "
                  "array (no element is left out of the key)")
    return "ok"


# ============================================================ (ii) FIFO step
def run_fifo(eng, p):
    """arbitrary valid cache state, one call"""
    MAXS = eng.int("MAX_SIZE")
    eng.assume((MAXS >= 1) & (MAXS <= 3))
    n = p["n"]
    eng.assume(MAXS >= n)

    class TokKey:
        def __init__(self, i):
            self.i = i

        def __hash__(self):
            return hash(self.i)

        def __eq__(self, o):
            return isinstance(o, TokKey) and o.i == self.i

    class FixedMD5:
        def __init__(self):
            pass

        def update(self, x):
            pass

        def hexdigest(self):
            return TokKey(p["ref"])
    ns = shadow(CM, np=SymNP(), MAX_SIZE=MAXS,
                hashlib=type("H", (), {"md5": FixedMD5}))
    Cache = ns["Cache"]
    Cache._cache = {TokKey(i): ("value-for", i) for i in range(n)}
    Cache._keys = [TokKey(i) for i in range(n)]

    def func(*a, **k):
        """doc"""
        return ("value-for", p["ref"])
    out = Cache(func)(1)
    eng.prove(z3.BoolVal(out == ("value-for", p["ref"])),
              "result == fresh computation")
    eng.prove(SInt(z3.IntVal(len(Cache._keys))) <= MAXS, "size bound")
    eng.prove(z3.BoolVal(len(set(k.i for k in Cache._keys)) ==
                         len(Cache._keys) and
                         set(k.i for k in Cache._keys) ==
                         set(k.i for k in Cache._cache)),
              "keys unique and index == store")
    eng.prove(z3.BoolVal(all(v == ("value-for", k.i)
                             for k, v in Cache._cache.items())),
              "stored values belong to their keys")
    return "ok"


# ========================================================== (iii) aliasing
class H5Stub:
    def __init__(self, vals):
        self.vals = vals
        self.attrs = {}
        self.name = "/events/deform"
        self.dtype = np.dtype(float)
        self.shape = (len(vals),)

        class F:
            filename = "mem"
        self.file = F()

    def __len__(self):
        return len(self.vals)

    def __symarray__(self):
        return SArr(self.vals, float)          # a fresh read from disk

    def __getitem__(self, k):
        return SArr(self.vals, float)[k]


def feature_object(eng, kind, vals):
    N = len(vals)
    if kind == "h5":
        return build_class(EV, "H5ScalarEvent", np=SymNP())(H5Stub(vals))
    if kind == "child":
        class Filt:
            all = SArr([True] * N, bool)

        class Parent:
            filter = Filt()

            def __getitem__(self, f):
                return SArr(vals, float)

        class Child:
            hparent = Parent()

            def __len__(self):
                return N
        return build_class(HE, "ChildScalar", np=SymNP())(Child(), "deform")
    if kind == "basin":
        class FeatObj:
            shape = (N,)
            dtype = np.dtype(float)

            def __getitem__(self, k):
                return SArr(vals, float)[k]
        cls = build_class(FBM, "BasinProxyFeature", np=SymNP())
        return cls(FeatObj(), SArr(list(range(N)), int))
    raise ValueError(kind)


def run_alias(eng, p):
    N = 3
    vals = [eng.real("v%d" % i) for i in range(N)]
    fo = feature_object(eng, p["kind"], vals)
    npx = SymNP()
    if p["access"] == "slice":
        r = fo[:]
    elif p["access"] == "part":
        r = fo[0:2]
    elif p["access"] == "asarray":
        r = npx.asarray(fo.__array__())
    elif p["access"] == "array-nocopy":
        r = fo.__array__(copy=None)
    sentinel = eng.real("sentinel")
    eng.assume(sentinel != vals[0])
    if p.get("warm"):
        fo[:]
    try:
        r[0] = sentinel          # the user modifies the result in place
    except ValueError:
        eng.reach()
        return "read-only"
    later = fo[:]
    eng.prove(later[0].e == vals[0].e,
              "later reads unaffected by in-place modification of an "
              "earlier result")
    return "ok"


def run_nanwrap(eng, p):
    """ignore_nan_inf around a memoised estimator"""
    N = 2
    from vf.symx import SFloat
    xs = [eng.float("x%d" % i, allow_nan=p["nan"]) for i in range(N)]
    ys = [eng.float("y%d" % i, allow_nan=p["nan"]) for i in range(N)]
    npx = SymNP()
    ns = shadow(KM, np=npx)
    store = {}

    def memoised(ev_x, ev_y, xo=None, yo=None):
        """doc"""
        n = len(ev_x)
        if n not in store:                 # the cache returns ONE object
            store[n] = SArr([SReal(z3.Real("dens%d_%d" % (n, i)))
                             for i in range(n)], float)
        return store[n]
    wrapped = ns["ignore_nan_inf"](memoised)
    r1 = wrapped(SArr(xs, float), SArr(ys, float))
    first = [None if isinstance(e, float) else e for e in list(r1)]
    sentinel = eng.real("sentinel")
    for i in range(N):
        try:
            r1[i] = sentinel
        except ValueError:
            eng.reach()
            return "read-only"
    r2 = wrapped(SArr(xs, float), SArr(ys, float))
    for i in range(N):
        a, b = first[i], list(r2)[i]
        if a is None or isinstance(b, float):
            eng.prove(z3.BoolVal(a is None and isinstance(b, float)),
                      "nan positions stable")
        else:
            eng.prove(SFloat.lift(a).same(SFloat.lift(b)),
                      "second call unaffected by in-place modification of "
                      "the first result")
    return "ok"


# ======================================================= (iv) lazy contours
def run_lazy(eng, p):
    NEV = 4

    class Cont:
        def __init__(self, idx):
            self.idx = idx

    class Masks:
        def __len__(self):
            return NEV

        def __getitem__(self, i):
            if isinstance(i, int) and i == 0 and not hasattr(self, "_init"):
                class M0:
                    def __getitem__(s, k):
                        return np.zeros((2, 2), dtype=bool)
                self._init = True
                return M0()
            return ("mask", i)

    def get_contour(mask):
        return Cont(mask[1])
    ns = shadow(CT, get_contour=get_contour)
    lcl = ns["LazyContourList"](Masks(), max_events=p["maxlen"])
    for s in range(p["steps"]):
        idx = eng.int("i%d" % s)
        eng.assume((idx >= 0) & (idx < NEV))
        c = lcl[idx]
        eng.prove(toint(c.idx) == idx.e, "contour belongs to the requested "
                                         "event")
        eng.prove(z3.BoolVal(len(lcl.contours) == len(lcl.indices) and
                             len(lcl.contours) <= p["maxlen"]),
                  "deques aligned and bounded")
    return "ok"


# =================================================== (v) file-stat lru key
def run_filecache(eng, p):
    """file_monitoring_lru_cache: cached iff (path, mtime_ns, size, args)"""
    class LRU:
        def __init__(self, maxsize=100):
            self.d = []

        def __call__(self, f):
            def w(*a, **k):
                key = (a, tuple(sorted(k.items(), key=lambda kv: kv[0])))
                for kk, v in self.d:
                    if _keq(kk, key):
                        return v
                v = f(*a, **k)
                self.d.append((key, v))
                return v
            w.cache_clear = self.d.clear
            w.cache_info = lambda: None
            return w

    def _keq(a, b):
        if type(a) is not type(b):
            return False
        if isinstance(a, tuple):
            return len(a) == len(b) and all(_keq(x, y)
                                            for x, y in zip(a, b))
        if isinstance(a, (SInt,)) or isinstance(b, SInt):
            return bool(a == b)
        return a == b

    class functools_shim:
        lru_cache = LRU

        @staticmethod
        def wraps(f):
            return lambda g: g
    class SecFloat:
        """st_mtime: nanoseconds / 1e9 as a float; int() gives whole
        seconds"""

        def __init__(self, ns):
            self.ns = ns

        def __int__(self):
            return self.ns // 1000000000

        def __eq__(self, o):
            return isinstance(o, SecFloat) and bool(self.ns == o.ns)

        def __hash__(self):
            return 0
    state = {"mtime": eng.int("mtime1"), "size": eng.int("size1"),
             "content": eng.int("content1")}

    class Stat:
        @property
        def st_mtime_ns(self):
            return state["mtime"]

        @property
        def st_size(self):
            return state["size"]

        @property
        def st_mtime(self):
            # float seconds (coarser view of the same time stamp)
            return SecFloat(state["mtime"])

    class P:
        def __init__(self, s):
            self.s = str(s)

        def resolve(self):
            return self

        def exists(self):
            return True

        def stat(self):
            return Stat()

        def __eq__(self, o):
            return isinstance(o, P) and o.s == self.s

        def __hash__(self):
            return hash(self.s)

        def __str__(self):
            return self.s

    class pathlib_shim:
        Path = P
    ns = shadow(UT, functools=functools_shim, pathlib=pathlib_shim,
                int=lambda x: x.__int__() if isinstance(x, SecFloat)
                else int(x))
    deco = ns["file_monitoring_lru_cache"](maxsize=100)

    def hashit(path, arg=0):
        return state["content"]
    f = deco(hashit)
    r1 = f("a.rtdc")
    # the file is modified (or not)
    m2, s2, c2 = eng.int("mtime2"), eng.int("size2"), eng.int("content2")
    eng.assume(SBool(z3.Implies(c2.e != state["content"].e,
                                z3.Or(m2.e != state["mtime"].e,
                                      s2.e != state["size"].e))))
    state.update(mtime=m2, size=s2, content=c2)
    r2 = f("a.rtdc")
    eng.prove(toint(r2) == c2.e, "file hash reflects the current file")
    return "ok"


def run_case(name, params):
    eng = Engine(timeout_ms=20000)
    k = params["kind_"]
    fn = {"keys": run_keys, "fifo": run_fifo, "alias": run_alias,
          "coverage": run_coverage,
          "nanwrap": run_nanwrap, "lazy": run_lazy,
          "filecache": run_filecache}[k]
    eng.explore(lambda e: fn(e, params))
    return eng.stats()


ARG_POOL = [
    ("arr", "float64", (2,), True), ("arr", "int64", (2,), True),
    ("arr", "float64", (1,), True), ("arr", "uint8", (8,), True),
    ("arr", "float64", (1, 2), True), ("arr", "float64", (2, 1), True),
    ("arr", "float64", (2,), False),
    ("int", 1), ("int", 12), ("lit", None), ("lit", "None"), ("lit", True),
    ("lit", "True"), ("lit", "1"), ("lit", "12"), ("lit", 1.0),
    ("list", [("int", 1), ("int", 2)]), ("list", [("int", 12)]),
]


def cases(tier, seed):
    out = []
    rnd = random.Random(seed)
    out.append(("array of any size: every element reaches the key",
                dict(kind_="coverage",
                     nmax=20000 if tier == "quick" else 200000)))
    # (i) single-argument pairs: every pair of pool members
    for a, b in itertools.combinations_with_replacement(ARG_POOL, 2):
        out.append(("keys 1arg %s | %s" % (a, b), dict(
            kind_="keys", args1=[a], kw1={}, args2=[b], kw2={})))
    # two-argument boundary shifts and keyword variants
    two = [
        ([("arr", "float64", (2,), True), ("arr", "float64", (1,), True)],
         [("arr", "float64", (1,), True), ("arr", "float64", (2,), True)]),
        ([("arr", "float64", (2,), True), ("arr", "float64", (2,), True),
          ("arr", "float64", (1,), True), ("arr", "float64", (1,), True)],
         [("arr", "float64", (1,), True), ("arr", "float64", (1,), True),
          ("arr", "float64", (2,), True), ("arr", "float64", (2,), True)]),
        ([("int", 1), ("int", 23)], [("int", 12), ("int", 3)]),
        ([("lit", "ab"), ("lit", "c")], [("lit", "a"), ("lit", "bc")]),
        ([("list", [("int", 1), ("int", 2)])], [("int", 12)]),
        ([("arr", "float64", (2,), True), ("int", 3)],
         [("arr", "float64", (2,), True), ("int", 3)]),
    ]
    for a, b in two:
        out.append(("keys multi %s | %s" % (a, b), dict(
            kind_="keys", args1=a, kw1={}, args2=b, kw2={})))
    kwv = [({"ab": ("lit", "c")}, {"a": ("lit", "bc")}),
           ({"xout": ("arr", "float64", (1,), True)},
            {"xout": ("arr", "int64", (1,), True)}),
           ({"bins": ("int", 5)}, {"bins": ("int", 5)}),
           ({"bins": ("int", 5)}, {"bins": ("lit", "5")}),
           ({"xout": ("int", 5)}, {"yout": ("int", 5)}),
           ({"a": ("int", 1), "b": ("int", 2)},
            {"a": ("int", 2), "b": ("int", 1)})]
    for ka, kb in kwv:
        out.append(("keys kw %s | %s" % (ka, kb), dict(
            kind_="keys", args1=[("int", 1)], kw1=ka, args2=[("int", 1)],
            kw2=kb)))
    # (ii) FIFO
    for n in range(0, 4):
        for ref in list(range(n)) + [99]:
            out.append(("fifo n=%d ref=%s" % (n, ref),
                        dict(kind_="fifo", n=n, ref=ref)))
    # (iii) aliasing
    for kind in ("h5", "child", "basin"):
        for access in ("slice", "part", "asarray", "array-nocopy"):
            for warm in (False, True):
                out.append(("alias %s %s warm=%s" % (kind, access, warm),
                            dict(kind_="alias", kind=kind, access=access,
                                 warm=warm)))
    for nan in (False, True):
        out.append(("nanwrap nan=%s" % nan, dict(kind_="nanwrap", nan=nan)))
    # (iv) lazy contours
    steps = 4 if tier == "quick" else 5
    for maxlen in (1, 2, 3):
        out.append(("lazy maxlen=%d" % maxlen,
                    dict(kind_="lazy", maxlen=maxlen, steps=steps)))
    out.append(("filecache", dict(kind_="filecache")))
    rnd.shuffle(out)
    return out


# ------------------------------------------------------------------ replay
def _conc_arg(spec, vals, tag):
    kind = spec[0]
    if kind == "arr":
        _, dt, shape, contiguous = spec
        n = int(np.prod(shape)) * np.dtype(dt).itemsize
        raw = bytes(int(vals.get("%s_b%d" % (tag, i), 0)) & 255
                    for i in range(n))
        a = np.frombuffer(raw, dtype=dt).reshape(shape).copy()
        if not contiguous:
            big = np.zeros((shape[0], 2), dtype=dt)
            big[:, 0] = a
            a = big[:, 0]
        return a
    if kind in ("int", "lit"):
        return spec[1]
    if kind == "list":
        return [_conc_arg(s, vals, "%s_l%d" % (tag, i))
                for i, s in enumerate(spec[1])]


def replay_coverage(vals):
    """two arrays of the model's size that differ only in ONE element must
    not share a cache entry (every position is tried at the ends)"""
    Cache = real(CM, "Cache")
    Cache.clear_cache()
    n = int(vals.get("n", 5000) or 0)

    def total(a):
        """doc"""
        return float(a.sum())
    cached = Cache(total)
    rs = np.random.RandomState(1)
    for size in sorted({n, n + 1, 2 * n + 1} - {0}):
        base = rs.rand(size)
        for pos in sorted({0, size // 2, size - 1}):
            Cache.clear_cache()
            other = base.copy()
            other[pos] += 1.0
            r1 = cached(base)
            r2 = cached(other)
            if r2 == r1:
                Cache.clear_cache()
                return {"reproduced": True,
                        "key": "Cache|array-elements-not-in-key",
                        "detail": "arrays of %d elements differing only at "
                        "index %d share one cache entry" % (size, pos)}
    Cache.clear_cache()
    return {"reproduced": False, "key": "not-reproduced",
            "detail": "every tried element influences the key (n=%d)" % n}


def replay(case, params, v):
    vals = v.get("values") or {}
    p = params
    k = p["kind_"]
    if k == "coverage":
        return replay_coverage(vals)
    fails = []
    if k == "keys":
        Cache = real(CM, "Cache")
        Cache.clear_cache()

        def kde_like(*a, **kw):
            """doc"""
            return [(type(x).__name__, getattr(x, "dtype", None),
                     getattr(x, "shape", None),
                     x.tolist() if hasattr(x, "tolist") else x)
                    for x in list(a) + sorted(kw.items(), key=str)]
        cached = Cache(kde_like)
        a1 = [_conc_arg(s, vals, "c1a%d" % i)
              for i, s in enumerate(p["args1"])]
        k1 = {kk: _conc_arg(s, vals, "c1k_" + kk)
              for kk, s in p["kw1"].items()}
        a2 = [_conc_arg(s, vals, "c2a%d" % i)
              for i, s in enumerate(p["args2"])]
        k2 = {kk: _conc_arg(s, vals, "c2k_" + kk)
              for kk, s in p["kw2"].items()}
        try:
            cached(*a1, **k1)
            got = cached(*a2, **k2)
            fresh = kde_like(*a2, **k2)
            if repr(got) != repr(fresh):
                fails.append("memoised call with arguments %r %r returns the "
                             "cached result of the different call %r %r" % (
                                 a2, k2, a1, k1))
        except Exception as e:
            fails.append("memoised call raises %r for arguments %r / %r" % (
                e, a1, a2))
        finally:
            Cache.clear_cache()
        key = "Cache|key-collision" if fails and "returns" in fails[0] else \
            "Cache|raises-for-strided-array"
    elif k == "alias":
        fails = concrete_alias(p)
        key = "%s|cached-array-writable-through-result" % p["kind"]
    elif k == "nanwrap":
        fails = concrete_nanwrap(p, vals)
        key = "ignore_nan_inf|result-aliases-memoised-array"
    elif k == "fifo":
        fails = concrete_fifo(p, vals)
        key = "Cache|fifo"
    elif k == "lazy":
        fails = concrete_lazy(p, vals)
        key = "LazyContourList|wrong-contour"
    elif k == "filecache":
        fails = concrete_filecache()
        key = "hashfile|stale-after-file-modification"
    else:
        return {"reproduced": False, "key": "no-replay",
                "detail": "no concrete replay for %s: %r" % (k, v)}
    if not fails:
        return {"reproduced": False, "key": "not-reproduced",
                "detail": "passes on the real code: %r %r" % (p, vals)}
    return {"reproduced": True, "key": key, "detail": fails[0]}


def concrete_nanwrap(p, vals):
    import dclab.kde_methods as km
    Cache = real(CM, "Cache")
    fails = []
    rs = np.random.RandomState(5)
    x = rs.normal(size=60)
    y = rs.normal(size=60)
    if any(vals.get("%s%d.nan" % (c, i)) for c in "xy" for i in range(2)):
        x[3] = np.nan
    for name in ("kde_histogram", "kde_gauss", "kde_multivariate"):
        Cache.clear_cache()
        f = getattr(km, name)
        with quiet():
            r1 = f(x.copy(), y.copy())
            keep = r1.copy()
            try:
                r1[:] = -1.0
            except ValueError:
                continue
            r2 = f(x.copy(), y.copy())
        if not np.allclose(r2, keep, equal_nan=True):
            fails.append("%s: after modifying the first result in place, a "
                         "second call with the same arguments returns %r... "
                         "instead of %r..." % (name, r2[:3].tolist(),
                                               keep[:3].tolist()))
    Cache.clear_cache()
    return fails


def concrete_fifo(p, vals):
    import dclab.cached as cm
    Cache = real(CM, "Cache")
    fails = []
    old = cm.MAX_SIZE
    try:
        for maxs in (1, 2, 3):
            if maxs < p["n"]:
                continue
            cm.MAX_SIZE = maxs
            Cache.clear_cache()

            @Cache
            def f(i):
                """doc"""
                return ("value-for", i)
            for i in range(p["n"]):
                f(i)
            out = f(p["ref"])
            if out != ("value-for", p["ref"]):
                fails.append("MAX_SIZE=%d: wrong value %r" % (maxs, out))
            if len(Cache._keys) > maxs or \
                    set(Cache._keys) != set(Cache._cache):
                fails.append("MAX_SIZE=%d: cache holds %d keys / %d values"
                             % (maxs, len(Cache._keys), len(Cache._cache)))
            for j in list(range(p["n"])) + [p["ref"]]:
                if f(j) != ("value-for", j):
                    fails.append("MAX_SIZE=%d: wrong value for %r" % (maxs,
                                                                      j))
    finally:
        cm.MAX_SIZE = old
        Cache.clear_cache()
    return fails


def concrete_lazy(p, vals):
    LazyContourList = real(CT, "LazyContourList")
    get_contour = real(CT, "get_contour")
    masks = np.zeros((4, 12, 12), dtype=bool)
    for i in range(4):
        masks[i, 2:5 + i, 3:6 + i] = True
    lcl = LazyContourList(masks, max_events=p["maxlen"])
    fails = []
    for s in range(p["steps"]):
        idx = int(vals.get("i%d" % s, 0))
        c = lcl[idx]
        if not np.array_equal(c, get_contour(masks[idx])):
            fails.append("access %d (event %d) returned the contour of "
                         "another event" % (s, idx))
    return fails


def concrete_filecache():
    import os
    import tempfile
    import hashlib
    hashfile = real(UT, "hashfile")
    fails = []
    with tempfile.TemporaryDirectory(prefix="verif_c17_") as td:
        pth = os.path.join(td, "f.bin")
        open(pth, "wb").write(b"a" * 100)
        h1 = hashfile(pth)
        open(pth, "wb").write(b"b" * 101)
        h2 = hashfile(pth)
        if h2 != hashlib.md5(b"b" * 101).hexdigest() or h1 == h2:
            fails.append("hashfile returned a stale hash after the file "
                         "changed")
        # same size, modification time later by a fraction of a second
        st = os.stat(pth)
        open(pth, "wb").write(b"c" * 101)
        os.utime(pth, ns=(st.st_atime_ns, st.st_mtime_ns + 1000))
        h3 = hashfile(pth)
        if h3 != hashlib.md5(b"c" * 101).hexdigest():
            fails.append("hashfile returned a stale hash after a same-size "
                         "rewrite within the same second")
    return fails


def concrete_alias(p):
    import os
    import tempfile
    import dclab
    import dclab.rtdc_dataset.writer as W
    fails = []
    old = W.version
    W.version = "0.62.7"
    try:
        with tempfile.TemporaryDirectory(prefix="verif_c17_") as td, quiet():
            path = os.path.join(td, "a.rtdc")
            p2 = os.path.join(td, "b.rtdc")
            base = np.linspace(0.1, 0.2, 5)
            with W.RTDCWriter(path, mode="reset") as hw:
                hw.store_feature("deform", base)
                hw.store_feature("area_um", base * 100)
                hw.store_metadata({"experiment": {"run identifier": "r1"},
                                   "setup": {"channel width": 20.0,
                                             "flow rate": .04,
                                             "chip region": "channel",
                                             "medium": "other"},
                                   "imaging": {"pixel size": .34}})
            if p["kind"] == "basin":
                with W.RTDCWriter(p2, mode="reset") as hw:
                    hw.store_feature("area_um", base[[0, 2, 4]] * 100)
                    hw.store_metadata({"experiment":
                                       {"run identifier": "r1"}})
                    hw.store_basin("b", "file", "hdf5", [path],
                                   basin_map=np.array([0, 2, 4]),
                                   verify=False)
                ds = dclab.new_dataset(p2)
                expect = base[[0, 2, 4]]
            else:
                ds = dclab.new_dataset(path)
                expect = base
            if p["kind"] == "child":
                ds = dclab.new_dataset(ds)
            fo = ds["deform"]
            if p.get("warm"):
                fo[:]
            if p["access"] == "slice":
                r = fo[:]
            elif p["access"] == "part":
                r = fo[0:2]
            elif p["access"] == "asarray":
                r = np.asarray(fo)
            else:
                r = fo.__array__(copy=None)
            try:
                r[0] = 12345.0
            except ValueError:
                return []
            later = ds["deform"][:]
            if not np.allclose(later, expect):
                fails.append("%s: after `r = ds['deform']%s; r[0] = 12345` a "
                             "later ds['deform'][:] returns %r instead of %r"
                             % (type(fo).__name__,
                                {"slice": "[:]", "part": "[0:2]",
                                 "asarray": " (np.asarray)",
                                 "array-nocopy": ".__array__(copy=None)"}[
                                    p["access"]], later[:2].tolist(),
                                expect[:2].tolist()))
    finally:
        W.version = old
    return fails


CANARIES = [
    dict(name="evicted key stays in the store", module=CM,
         qualname="Cache.__call__",
         old="Cache._cache.pop(delref)", new="pass"),
    dict(name="cache ignores function identity and kwargs names",
         module=CM, qualname="Cache.__call__",
         old="self._update_hash(k)\n", new="pass\n"),
    dict(name="lazy contours: indices not appended", module=CT,
         qualname="LazyContourList.__getitem__",
         old="self.indices.append(idx)", new="pass"),
]
