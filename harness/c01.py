"""C01 -- data written through the writer API is read back exactly.

Real code executed: RTDCWriter.store_feature / write_ndarray / write_ragged /
write_text / write_image_grayscale / store_log / rectify_metadata /
get_best_nd_chunks (over the in-memory h5py stand-in) and the readers
H5Events / H5ContourEvent / H5MaskEvent / H5Logs.  Event payloads are
provenance tokens, so "exactly the written events in order" is an equality of
token sequences.  Symbolic: the HDF5 chunk size of a pre-existing dataset,
the split of N events over successive calls, mask pixel values, the byte
length of every log line and the width of a pre-existing log dataset.
"""
import itertools
import random

import numpy as np
import z3

from vf import symh5
from vf.common import real
from vf.dcsym import build_class, shadow, sym_writer, quiet
from vf.symnp import SArr, SymNP, Tok
from vf.symx import (Engine, SBool, SInt, smax, toint, tobool, unformat,
                     NotModelled)

PID = "C01"
W = "dclab.rtdc_dataset.writer"
EV = "dclab.rtdc_dataset.fmt_hdf5.events"
LG = "dclab.rtdc_dataset.fmt_hdf5.logs"
FUNCTIONS = [(W, "RTDCWriter.store_feature"), (W, "RTDCWriter.write_ndarray"),
             (W, "RTDCWriter.write_ragged"), (W, "RTDCWriter.write_text"),
             (W, "RTDCWriter.write_image_grayscale"),
             (W, "RTDCWriter.store_log"), (W, "RTDCWriter.rectify_metadata"),
             (W, "RTDCWriter.get_best_nd_chunks"),
             (EV, "H5Events.__getitem__"), (EV, "H5ContourEvent.__getitem__"),
             (EV, "H5MaskEvent.__getitem__"),
             (EV, "H5MaskEvent.__iter__"), (LG, "H5Logs.__getitem__")]
BOUNDS = {
    "quick": {"append step": "stored events m = 0..5, appended n = 1..6, "
              "chunk size of the existing dataset symbolic 1..8",
              "call histories": "N = 12 events over 2 calls (split symbolic)"
              " and 3 calls (both splits symbolic), items of 1 MiB so that "
              "the writer's own chunk size is 10",
              "logs": "<= 2 stored + <= 2 appended lines, byte lengths "
              "symbolic 0..300, existing width symbolic 100..200; read back "
              "through the real H5Logs reader, leading / trailing white "
              "space of every line symbolic",
              "contours": "m = 0..3 stored, n = 1..3 appended, writer "
              "re-opened or not",
              "masks": "3 events; boolean pixels, and integer-typed masks "
              "with symbolic pixel values 0..255 (stored unchanged, read "
              "back as value != 0 by item access and iteration)"},
    "thorough": {"append step": "m = 0..8, n = 1..9, chunk 1..12",
                 "call histories": "N = 23 over 2..3 calls"},
}
OUTSIDE = ["libhdf5 (bytes on disk, filters, fletcher32, dtype casting of "
           "values, NaN/inf bit patterns)", "compound tables (only 'dataset "
           "created with the given array')", "unicode normalisation",
           "more events than the bound", "metadata types (C11)",
           "summary attributes (C20)"]
STUBS = ["h5py: vf/symh5.py (resize pads with UNSET rows, slice assignment "
         "with numpy broadcasting rules)", "log datasets: fixed-width rows "
         "that truncate to the width on assignment (as h5py does)",
         "text lines: objects with a symbolic UTF-8 byte length"]
ASSUMPTIONS = ["a pre-existing dataset may have any positive chunk size (it "
               "may have been written by other software)"]
EXPLANATION = "C01: append arithmetic of the writer over provenance tokens."

ITEM = (1024, 1024)       # 1 MiB per uint8 item -> writer chunk size 10


def toks(src, n, shape=ITEM):
    return [Tok(src, i, shape) for i in range(n)]


def make_writer(f, mode="append"):
    cls = sym_writer()
    hw = cls.__new__(cls)
    hw.mode = mode
    hw.compression_kwargs = {}
    hw.h5file = f
    hw._group_sizes = {}
    hw.owns_path = False
    from harness.c20 import _init_attrs
    for k, v in _init_attrs().items():
        setattr(hw, k, v)
    return hw


def same_tokens(eng, got, exp, what):
    got = list(got)
    ok = len(got) == len(exp) and all(
        g is e or (isinstance(g, Tok) and g == e) for g, e in zip(got, exp))
    eng.prove(z3.BoolVal(ok), what,
              info={"got": [repr(g) for g in got][:14],
                    "expected": [repr(e) for e in exp][:14]})


# ------------------------------------------------------- (A) one nd append
def run_nd_step(eng, p):
    m, n = p["m"], p["n"]
    f = symh5.File("a.rtdc", "w")
    g = f.require_group("events")
    old, new = toks("old", m), toks("new", n)
    if m:
        C = eng.int("chunk")
        eng.assume((C >= 1) & (C <= p["cmax"]))
        ds = symh5.Dataset(g, "image", SArr(old, np.uint8, ITEM),
                           chunks=(C,) + ITEM, maxshape=(None,) + ITEM)
        g.members["image"] = ds
    hw = make_writer(f)
    with quiet():
        if p["via"] == "store_feature":
            hw.store_feature("image", SArr(new, np.uint8, ITEM))
        else:
            hw.write_ndarray(g, "image", SArr(new, np.uint8, ITEM))
    same_tokens(eng, g["image"].data.elems, old + new,
                "append: stored events == previous events ++ written events")
    rd = shadow(EV, np=SymNP())["H5Events"](f)
    got = rd["image"]
    same_tokens(eng, [got[i] for i in range(len(got))], old + new,
                "append: reader returns the events in order")
    return "ok"


# ------------------------------------------- (F) histories from empty file
def run_history(eng, p):
    N, k = p["N"], p["calls"]
    f = symh5.File("a.rtdc", "w")
    hw = make_writer(f)
    data = toks("ev", N)
    cuts = []
    prev = 0
    for j in range(k - 1):
        c = eng.int("cut%d" % j)
        eng.assume((c > prev) & (c < N))
        prev = c
        cuts.append(c)
    bounds = [0] + [eng.concretize(c) for c in cuts] + [N]
    feat = p["feat"]
    for a, b in zip(bounds, bounds[1:]):
        part = data[a:b]
        with quiet():
            if feat == "image":
                hw.store_feature("image", SArr(part, np.uint8, ITEM))
                hw.store_feature("index", SArr(list(range(b - a)), int))
            elif feat == "trace":
                hw.store_feature("trace", {
                    "fl1_raw": SArr(part, np.int16, (262144 * 2,))})
            elif feat == "userdef":
                hw.store_feature("userdef1", SArr(
                    [eng.real("u%d" % i) for i in range(a, b)], float))
    ev = f["events"]
    if feat == "image":
        same_tokens(eng, ev["image"].data.elems, data,
                    "history: image events as written, in order")
        idx = list(ev["index"].data.elems)
        eng.prove(z3.BoolVal(len(idx) == N and all(
            int(x) == i + 1 for i, x in enumerate(idx))),
            "history: index enumerates 1..N",
            info={"index": [int(x) for x in idx]})
        eng.prove(z3.BoolVal(ev["index"].dtype == np.uint32),
                  "history: index stored as uint32")
        with quiet():
            hw.rectify_metadata()
        eng.prove(z3.BoolVal(int(f.attrs["experiment:event count"]) == N),
                  "history: reported event count == stored events")
    elif feat == "trace":
        same_tokens(eng, ev["trace"]["fl1_raw"].data.elems, data,
                    "history: trace events as written, in order")
    else:
        got = list(ev["userdef1"].data.elems)
        eng.prove(z3.BoolVal(len(got) == N) if len(got) != N else z3.And(
            [g.e == z3.Real("u%d" % i) for i, g in enumerate(got)]),
            "history: scalar events as written, in order")
    return bounds


# ---------------------------------------------------------------- (E) mask
def run_mask(eng, p):
    n = p["n"]
    f = symh5.File("a.rtdc", "w")
    hw = make_writer(f)
    bits = [eng.bool("px%d" % i) for i in range(n)]
    with quiet():
        hw.store_feature("mask", SArr(bits, bool, (1, 1)))
    ds = f["events"]["mask"]
    eng.prove(z3.BoolVal(ds.dtype == np.uint8), "mask stored as uint8")
    for i, b in enumerate(bits):
        st = ds.data.elems[i]
        eng.prove(z3.If(b.e, toint(st) == 255, toint(st) == 0),
                  "mask pixel stored as 255 / 0")
    rd = shadow(EV, np=SymNP())["H5Events"](f)
    got = rd["mask"]
    for i, b in enumerate(bits):
        r = got[i]
        r = r.elems[0] if isinstance(r, SArr) else r
        eng.prove(tobool(r if isinstance(r, SBool) else
                         SBool(toint(r) != 0)) == b.e,
                  "mask read back as the written boolean")
    eng.prove(z3.BoolVal(ds.attrs.get("CLASS") == np.bytes_("IMAGE")),
              "image attributes present")
    return "ok"


def run_mask_int(eng, p):
    """mask given as an integer array (any non-zero value is foreground,
    e.g. 0/1 masks of other software): stored as uint8 unchanged, read back
    as `value != 0` by the real reader (item, whole-array and iteration)"""
    n = p["n"]
    f = symh5.File("a.rtdc", "w")
    hw = make_writer(f)
    px = [eng.int("px%d" % i) for i in range(n)]
    for x in px:
        eng.assume((x >= 0) & (x <= 255))
    with quiet():
        hw.store_feature("mask", SArr(px, np.uint8, (1, 1)))
    ds = f["events"]["mask"]
    eng.prove(z3.BoolVal(ds.dtype == np.uint8), "mask stored as uint8")
    for i, x in enumerate(px):
        eng.prove(toint(ds.data.elems[i]) == x.e,
                  "integer mask pixel stored unchanged")
    rd = shadow(EV, np=SymNP())["H5Events"](f)
    got = rd["mask"]

    def same(r, x):
        r = r.elems[0] if isinstance(r, SArr) else r
        return tobool(r if isinstance(r, SBool) else
                      SBool(toint(r) != 0)) == (x.e != 0)
    for i, x in enumerate(px):
        eng.prove(same(got[i], x), "integer mask read back as value != 0")
    for i, r in enumerate(got):
        eng.prove(same(r, px[i]), "integer mask iterated as value != 0")
    return "ok"


# ------------------------------------------------------------- (C) contour
def run_contour_replace(eng, p):
    """mode='replace': a second store_feature('contour') in the same writer
    session replaces the first set completely"""
    m, n = p["m"], p["n"]
    f = symh5.File("a.rtdc", "w")
    g = f.require_group("events")
    old, new = toks("old", m, (5, 2)), toks("new", n, (5, 2))
    hw = make_writer(f, mode="replace")
    with quiet():
        hw.store_feature("contour", [SArr([t], int, (5, 2)) for t in old])
        hw.store_feature("contour", [SArr([t], int, (5, 2)) for t in new])
    cg = g["contour"]
    eng.prove(z3.BoolVal(sorted(cg.keys(), key=int) ==
                         [str(i) for i in range(n)]),
              "contour (replace mode): entries stored under keys 0..K-1",
              info={"keys": list(cg.keys())})
    vals = []
    for i in range(n):
        if str(i) in cg:
            x = cg[str(i)].data
            vals.append(x.elems[0] if isinstance(x, SArr) else x)
    same_tokens(eng, vals, new, "contour (replace mode): only the second "
                "set is stored, in order")
    return "ok"


def run_index(eng, p):
    """the `index` feature is an enumeration 1..N of the events in the file:
    appended in append mode, restarted in replace mode"""
    m, n, mode = p["m"], p["n"], p["mode"]
    f = symh5.File("a.rtdc", "w")
    g = f.require_group("events")
    if m:
        g.create_dataset("index", data=np.arange(1, m + 1), chunks=(10,),
                         maxshape=(None,))
        g.create_dataset("deform", data=np.linspace(.1, .2, m), chunks=(10,),
                         maxshape=(None,))
    hw = make_writer(f, mode=mode)
    user = SArr([eng.int("user_index%d" % i) for i in range(n)], int)
    with quiet():
        hw.store_feature("index", user)
    got = [int(x) for x in list(g["index"].data)]
    exp = list(range(1, n + 1)) if mode == "replace" else \
        list(range(1, m + n + 1))
    eng.prove(z3.BoolVal(got == exp),
              "index: enumeration 1..N of the stored events (%s mode)" % mode,
              info={"stored": got, "expected": exp})
    return "ok"


def run_contour(eng, p):
    if p.get("replace"):
        return run_contour_replace(eng, p)
    m, n = p["m"], p["n"]
    f = symh5.File("a.rtdc", "w")
    g = f.require_group("events")
    old, new = toks("old", m, (5, 2)), toks("new", n, (5, 2))
    if m:
        cg = g.require_group("contour")
        for i, t in enumerate(old):
            cg.create_dataset(str(i), data=SArr([t], int, (5, 2)))
    hw = make_writer(f)
    if m and not p["reopened"]:
        hw._group_sizes[g["contour"]] = m
    with quiet():
        k = p.get("split", len(new))
        hw.store_feature("contour", [SArr([t], int, (5, 2))
                                     for t in new[:k]])
        if new[k:]:
            hw.store_feature("contour", [SArr([t], int, (5, 2))
                                         for t in new[k:]])
    cg = g["contour"]
    eng.prove(z3.BoolVal(sorted(cg.keys(), key=int) ==
                         [str(i) for i in range(m + n)]),
              "contour: entries stored under contiguous keys 0..K-1",
              info={"keys": list(cg.keys())})
    f.attrs["experiment:event count"] = m + n
    rd = shadow(EV, np=SymNP())["H5Events"](f)
    got = rd["contour"]
    vals = []
    for i in range(m + n):
        x = got[i]
        vals.append(x.elems[0] if isinstance(x, SArr) else x)
    same_tokens(eng, vals, old + new, "contour: read back in order")
    return "ok"


# ---------------------------------------------------------------- (D) logs
class Line:
    """a text line with a symbolic number of characters and a symbolic
    UTF-8 byte length (chars <= bytes <= 4 * chars)"""

    def __init__(self, tok, nbytes, nchars=None):
        self.tok, self.nbytes = tok, nbytes
        self.nchars = nbytes if nchars is None else nchars

    def encode(self, enc):
        return LBytes(self.tok, self.nbytes)

    def __slen__(self):
        return self.nchars


class LBytes:
    def __init__(self, tok, nbytes):
        self.tok, self.nbytes = tok, nbytes

    def __slen__(self):
        return self.nbytes

    def decode(self, *a, **k):
        return LText(self.tok)


class LText:
    """a decoded line; whether it starts / ends with white space is a
    symbolic property of the line (a stripped line is a different text)"""

    def __init__(self, tok, cut=()):
        self.tok, self.cut = tok, tuple(cut)

    def _strip(self, sides):
        eng = Engine.cur
        cut = list(self.cut)
        for side in sides:
            b = eng.bool("%s%d_%s_ws" % (self.tok.src, self.tok.idx, side))
            if side not in cut and eng.branch(b.e):
                cut.append(side)
        return LText(self.tok, sorted(cut))

    def rstrip(self, *a):
        return self._strip(["tail"])

    def lstrip(self, *a):
        return self._strip(["head"])

    def strip(self, *a):
        return self._strip(["head", "tail"])


class _BytesMeta(type):
    def __instancecheck__(cls, x):
        return isinstance(x, LBytes) or isinstance(x, bytes)


class BytesShim(metaclass=_BytesMeta):
    pass


def slen(x):
    if hasattr(x, "__slen__"):
        return x.__slen__()
    return len(x)


class TextDS(symh5.Node):
    def __init__(self, parent, name, width, nrows):
        super().__init__(parent, name)
        self.width = width
        self.rows = [None] * nrows
        self.chunks = (1,)
        self.maxshape = (None,)

    @property
    def shape(self):
        return (len(self.rows),)

    @property
    def size(self):
        return len(self.rows)

    @property
    def dtype(self):
        w = self.width

        class DT:
            kind = "S"
            itemsize = w
        return DT()

    def resize(self, n, axis=0):
        n = int(n)
        self.rows = self.rows[:n] + [None] * (n - len(self.rows))

    def __setitem__(self, i, lb):
        stored = smax(0, lb.nbytes) if False else lb.nbytes
        w = self.width
        kept = SInt(z3.If(toint(stored) > toint(w), toint(w),
                          toint(stored)))
        self.rows[i] = (lb.tok, kept, lb.nbytes)

    def __iter__(self):
        # reading returns the stored bytes (already truncated to the width)
        return iter([LBytes(r[0], r[1]) for r in self.rows])

    def __len__(self):
        return len(self.rows)

    def __getitem__(self, i):
        if isinstance(i, slice):
            return [LBytes(r[0], r[1]) for r in self.rows[i]]
        r = self.rows[i]
        return LBytes(r[0], r[1])


class TextGroup(symh5.Group):
    def create_dataset(self, name, shape=None, dtype=None, **kw):
        if name in self.members:
            raise ValueError("name already exists")
        assert str(dtype).startswith("S")
        width = unformat(str(dtype)[1:])
        d = TextDS(self, name, width, shape[0])
        self.members[name] = d
        return d


def run_logs(eng, p):
    m, n = p["m"], p["n"]
    f = symh5.File("a.rtdc", "w")
    lg = TextGroup(f, "logs")
    f.members["logs"] = lg
    old = []
    if m:
        w0 = eng.int("width")
        eng.assume((w0 >= 100) & (w0 <= 200))
        ds = TextDS(lg, "mylog", w0, m)
        for i in range(m):
            ln = eng.int("oldlen%d" % i)
            eng.assume((ln >= 0) & (ln <= w0))
            ds.rows[i] = (Tok("oldline", i), ln, ln)
            old.append((Tok("oldline", i), ln))
        lg.members["mylog"] = ds
    cls = sym_writer(len=slen, max=smax)
    hw = make_writer(f)
    hw.__class__ = cls
    lines = []
    for i in range(n):
        ln = eng.int("newlen%d" % i)
        nc = eng.int("newchars%d" % i)
        eng.assume((ln >= 0) & (ln <= 300))
        eng.assume((nc >= 0) & (nc <= ln) & (ln <= 4 * nc))
        lines.append(Line(Tok("newline", i), ln, nc))
    with quiet():
        hw.store_log("mylog", lines)
    ds = f["logs"]["mylog"]
    exp = old + [(l.tok, l.nbytes) for l in lines]
    eng.prove(z3.BoolVal(len(ds.rows) == len(exp) and all(
        r is not None and r[0] == e[0] for r, e in zip(ds.rows, exp))),
        "logs: every line present, in order")
    if len(ds.rows) == len(exp) and all(r is not None for r in ds.rows):
        eng.prove(z3.And([toint(r[1]) == toint(e[1])
                          for r, e in zip(ds.rows, exp)]),
                  "logs: every line stored with its full length (no "
                  "truncation)")
        # the real reader (RTDC_HDF5.logs)
        rns = shadow(LG, bytes=BytesShim)
        with quiet():
            back = rns["H5Logs"](f)["mylog"]
        eng.prove(z3.BoolVal(
            len(back) == len(exp) and all(
                isinstance(b, LText) and b.tok == e[0] and not b.cut
                for b, e in zip(back, exp))),
            "logs: the reader returns every line as written",
            info={"read": ["%s%d%s" % (b.tok.src, b.tok.idx, " without its "
                                       "%s white space" % "/".join(b.cut)
                                       if b.cut else "") for b in back
                           if isinstance(b, LText)]})
    return "ok"


def run_case(name, params):
    eng = Engine(timeout_ms=20000)
    fn = {"nd": run_nd_step, "history": run_history, "mask": run_mask,
          "mask-int": run_mask_int,
          "contour": run_contour, "logs": run_logs,
          "index": run_index}[params["kind"]]
    eng.explore(lambda e: fn(e, params))
    return eng.stats()


def cases(tier, seed):
    out = []
    M, Nn, cmax, NH = (5, 6, 8, 12) if tier == "quick" else (8, 9, 12, 23)
    for m in range(0, M + 1):
        for n in range(1, Nn + 1):
            out.append(("nd m=%d n=%d" % (m, n), dict(
                kind="nd", m=m, n=n, cmax=cmax,
                via="write_ndarray" if (m + n) % 2 else "store_feature")))
    for n in (9, 10, 11, 21):
        out.append(("nd fresh n=%d" % n, dict(kind="nd", m=0, n=n, cmax=cmax,
                                              via="store_feature")))
    for calls in (2, 3):
        for feat in ("image", "trace", "userdef"):
            out.append(("history %s N=%d calls=%d" % (feat, NH, calls),
                        dict(kind="history", N=NH, calls=calls, feat=feat)))
    out.append(("mask n=3", dict(kind="mask", n=3)))
    out.append(("mask-int n=3", dict(kind="mask-int", n=3)))
    for m in range(0, 4):
        for n in range(1, 4):
            for reopened in ([True, False] if m else [True]):
                out.append(("contour m=%d n=%d reopened=%s" % (m, n,
                                                               reopened),
                            dict(kind="contour", m=m, n=n,
                                 reopened=reopened)))
    for m in (0, 2):
        out.append(("contour m=%d n=3 two calls" % m, dict(
            kind="contour", m=m, n=3, reopened=False, split=1)))
    for mode in ("append", "replace"):
        for m, n in ((0, 2), (3, 2), (2, 3)):
            out.append(("index %s m=%d n=%d" % (mode, m, n),
                        dict(kind="index", m=m, n=n, mode=mode)))
    for m, n in ((1, 1), (2, 1), (1, 3), (3, 2)):
        out.append(("contour replace mode m=%d n=%d" % (m, n), dict(
            kind="contour", m=m, n=n, replace=True)))
    for m in range(0, 3):
        for n in range(1, 3):
            out.append(("logs m=%d n=%d" % (m, n),
                        dict(kind="logs", m=m, n=n)))
    random.Random(seed).shuffle(out)
    return out


# ------------------------------------------------------------------ replay
def replay(case, params, v):
    import os
    import tempfile
    import h5py
    vals = v.get("values") or {}
    p = params
    RTDCWriter = real(W, "RTDCWriter")
    fails = []
    with tempfile.TemporaryDirectory(prefix="verif_c01_") as td, quiet():
        path = os.path.join(td, "a.rtdc")
        if p["kind"] == "nd":
            m, n = p["m"], p["n"]
            C = int(vals.get("chunk", 3))
            old = np.arange(m * 4, dtype=np.uint8).reshape(m, 2, 2) + 1
            new = np.arange(n * 4, dtype=np.uint8).reshape(n, 2, 2) + 100
            with h5py.File(path, "w") as h:
                if m:
                    h.require_group("events").create_dataset(
                        "image", data=old, chunks=(C, 2, 2),
                        maxshape=(None, 2, 2))
            with RTDCWriter(path, mode="append") as hw:
                hw.store_feature("image", new)
            with h5py.File(path, "r") as h:
                got = h["events/image"][:]
            exp = np.concatenate([old, new]) if m else new
            if got.shape != exp.shape or not np.array_equal(got, exp):
                bad = [i for i in range(min(len(got), len(exp)))
                       if not np.array_equal(got[i], exp[i])]
                fails.append("appending %d events to a dataset of %d events "
                             "with HDF5 chunk size %d: events %r differ from "
                             "what was written" % (n, m, C, bad))
            key = "write_ndarray|append-loses-events"
        elif p["kind"] == "history":
            N = p["N"]
            cuts = [int(vals.get("cut%d" % j, j + 1))
                    for j in range(p["calls"] - 1)]
            bounds = [0] + cuts + [N]
            data = (np.arange(N)[:, None, None] + 1) * np.ones(
                (1, 1024, 1024), dtype=np.uint8)
            data = data.astype(np.uint8)
            with RTDCWriter(path, mode="reset") as hw:
                for a, b in zip(bounds, bounds[1:]):
                    if p["feat"] == "image":
                        hw.store_feature("image", data[a:b])
                        hw.store_feature("index", np.arange(b - a))
                    elif p["feat"] == "trace":
                        hw.store_feature("trace", {"fl1_raw": (
                            np.arange(a, b)[:, None] * np.ones(
                                (1, 524288), dtype=np.int16)).astype(
                                    np.int16)})
                    else:
                        hw.store_feature("userdef1",
                                         np.arange(a, b, dtype=float))
            with h5py.File(path, "r") as h:
                ev = h["events"]
                if p["feat"] == "image":
                    got = ev["image"][:, 0, 0]
                    if list(got) != list(range(1, N + 1)):
                        fails.append("writing %d images in calls of %r: "
                                     "read back %r" % (
                                         N, np.diff(bounds).tolist(),
                                         got.tolist()))
                    if list(ev["index"][:]) != list(range(1, N + 1)):
                        fails.append("index %r" % ev["index"][:].tolist())
                    if h.attrs["experiment:event count"] != N:
                        fails.append("event count")
                elif p["feat"] == "trace":
                    got = ev["trace/fl1_raw"][:, 0]
                    if list(got) != list(range(N)):
                        fails.append("trace read back %r" % got.tolist())
                else:
                    got = ev["userdef1"][:]
                    if list(got) != list(range(N)):
                        fails.append("scalar read back %r" % got.tolist())
            key = "store_feature|history-%s" % p["feat"]
        elif p["kind"] == "logs":
            m, n = p["m"], p["n"]
            def mk(nb, nc, base):
                # exactly nc characters and nb UTF-8 bytes (1..4 per char)
                extra = max(0, nb - nc)
                out = []
                for _ in range(nc):
                    e = min(3, extra)
                    extra -= e
                    out.append([base, "\u00b5", "\u20ac", "\U0001F600"][e])
                return "".join(out)
            oldl = ["o" * int(vals.get("oldlen%d" % i, 5)) for i in range(m)]
            newl = [mk(int(vals.get("newlen%d" % i, 5)),
                       int(vals.get("newchars%d" % i,
                                    vals.get("newlen%d" % i, 5))), "n")
                    for i in range(n)]
            def ws(line, tag, i):
                if vals.get("%s%d_tail_ws" % (tag, i), False):
                    line = (line[:-1] if line and ord(line[-1]) < 128
                            else line) + " "
                if vals.get("%s%d_head_ws" % (tag, i), False):
                    line = " " + (line[1:] if len(line) > 1 and
                                  ord(line[0]) < 128 else line)
                return line
            oldl = [ws(x, "oldline", i) for i, x in enumerate(oldl)]
            newl = [ws(x, "newline", i) for i, x in enumerate(newl)]
            with RTDCWriter(path, mode="reset") as hw:
                hw.store_feature("deform", np.linspace(.1, .2, 3))
                if m:
                    hw.store_log("mylog", oldl)
                hw.store_log("mylog", newl)
            with h5py.File(path, "r") as h:
                got = [x.decode("utf-8", errors="replace")
                       for x in h["logs/mylog"][:]]
            if got == oldl + newl:
                import dclab
                with h5py.File(path, "a") as h:    # a released version
                    h.attrs["setup:software version"] = "dclab 0.62.7"
                with dclab.new_dataset(path) as dsr:
                    rd = list(dsr.logs["mylog"])
                if rd != oldl + newl:
                    bad = [i for i, (a, b) in enumerate(zip(rd, oldl + newl))
                           if a != b]
                    fails.append("reader: log line %r is returned as %r" % (
                        (oldl + newl)[bad[0]], rd[bad[0]]) if bad else
                        "reader: %d of %d log lines returned" % (
                            len(rd), len(oldl + newl)))
            if got != oldl + newl:
                bad = [i for i, (a, b) in enumerate(zip(got, oldl + newl))
                       if a != b]
                fails.append("log lines %r are not read back as written "
                             "(e.g. %d of %d bytes kept) after appending "
                             "lines of %r bytes to a log holding lines of %r "
                             "bytes" % (bad, len(got[bad[0]]) if bad else -1,
                                        len((oldl + newl)[bad[0]]) if bad
                                        else -1, [len(x) for x in newl],
                                        [len(x) for x in oldl]))
            key = "write_text|appended-line-longer-than-frozen-width|" \
                  "truncated"
            if fails and any(len(x.encode()) != len(x) for x in newl):
                key = "write_text|multi-byte-line|truncated"
            if fails and fails[0].startswith("reader"):
                key = "H5Logs|line-not-returned-as-written"
        elif p["kind"] == "index":
            m, n, mode = p["m"], p["n"], p["mode"]
            if m:
                with RTDCWriter(path, mode="reset") as hw:
                    hw.store_feature("deform", np.linspace(.1, .2, m))
                    hw.store_feature("index", np.arange(1, m + 1))
            with RTDCWriter(path, mode=mode) as hw:
                hw.store_feature("index", np.arange(50, 50 + n))
            with h5py.File(path, "r") as h:
                got = h["events/index"][:].tolist()
            exp = list(range(1, n + 1)) if mode == "replace" else \
                list(range(1, m + n + 1))
            if got != exp:
                fails.append("index stored in %s mode over %d existing "
                             "events is %r, expected %r" % (mode, m, got,
                                                            exp))
            key = "store_feature|index-enumeration|%s" % mode
        elif p["kind"] == "mask-int":
            import dclab
            import dclab.rtdc_dataset.writer as Wm
            Wm.version = "0.62.7"   # untagged development version
            px = [int(vals.get("px%d" % i, 0)) for i in range(p["n"])]
            msk = np.zeros((p["n"], 4, 5), dtype=np.uint8)
            for i, x in enumerate(px):
                msk[i, 1:3, 1:4] = x
            with RTDCWriter(path, mode="reset") as hw:
                hw.store_metadata({"experiment": {"sample": "s",
                                                  "run index": 1},
                                   "imaging": {"pixel size": 0.34},
                                   "setup": {"channel width": 20.0,
                                             "chip region": "channel",
                                             "flow rate": 0.04}})
                hw.store_feature("deform", np.linspace(.1, .2, p["n"]))
                hw.store_feature("mask", msk)
            with h5py.File(path, "r") as h:
                if not np.array_equal(h["events/mask"][:], msk):
                    fails.append("integer mask stored differently")
            with dclab.new_dataset(path) as ds:
                for i in range(p["n"]):
                    if not np.array_equal(ds["mask"][i], msk[i] != 0):
                        fails.append(
                            "mask written as integer array with foreground "
                            "value %d is read back with %d foreground "
                            "pixels instead of %d (event %d)" % (
                                px[i], int(np.sum(ds["mask"][i])),
                                int(np.sum(msk[i] != 0)), i))
                        break
                if not np.array_equal(ds["mask"][:], msk != 0):
                    fails.append("sliced integer mask differs")
            key = "H5MaskEvent|integer-mask|foreground-lost"
        elif p["kind"] == "contour" and p.get("replace"):
            m, n = p["m"], p["n"]
            conts = [np.arange(10).reshape(5, 2) + 100 * i
                     for i in range(m + n)]
            with RTDCWriter(path, mode="replace") as hw:
                hw.store_feature("deform", np.linspace(.1, .2, max(n, 1)))
                hw.store_feature("contour", conts[:m])
                hw.store_feature("contour", conts[m:])
            with h5py.File(path, "r") as h:
                cg = h["events/contour"]
                keys = sorted(cg.keys(), key=int)
                if keys != [str(i) for i in range(n)] or any(
                        not np.array_equal(cg[str(i)][:], conts[m + i])
                        for i in range(n) if str(i) in cg):
                    fails.append("replace mode: second set of %d contours "
                                 "stored under keys %r" % (n, keys))
            key = "write_ragged|replace-keys"
        elif p["kind"] == "contour":
            m, n = p["m"], p["n"]
            conts = [np.arange(10).reshape(5, 2) + 100 * i
                     for i in range(m + n)]
            hw = RTDCWriter(path, mode="reset")
            if m:
                hw.store_feature("contour", conts[:m])
            if p["reopened"]:
                hw.close()
                hw = RTDCWriter(path, mode="append")
            k = m + p.get("split", n)
            hw.store_feature("contour", conts[m:k])
            if conts[k:]:
                hw.store_feature("contour", conts[k:])
            hw.close()
            with h5py.File(path, "r") as h:
                cg = h["events/contour"]
                keys = sorted(cg.keys(), key=int)
                if keys != [str(i) for i in range(m + n)] or any(
                        not np.array_equal(cg[str(i)][:], conts[i])
                        for i in range(m + n) if str(i) in cg):
                    fails.append("contours stored under keys %r" % keys)
            key = "write_ragged|keys"
        else:
            return {"reproduced": False, "key": "no-replay",
                    "detail": "mask case: %r" % (vals,)}
    if not fails:
        return {"reproduced": False, "key": "not-reproduced",
                "detail": "round trip ok on the real code (%r, %r)" % (
                    p, vals)}
    return {"reproduced": True, "key": key, "detail": fails[0]}


def validate(tier, seed):
    """symh5 vs real h5py for the operations the writer performs: resize +
    slice assignment with a chunk-driven loop"""
    import os
    import tempfile
    import h5py
    rnd = random.Random(seed)
    mism, n = [], 0
    RTDCWriter = real(W, "RTDCWriter")
    with tempfile.TemporaryDirectory(prefix="verif_c01_") as td, quiet():
        for _ in range(6):
            m, k, C = rnd.randint(0, 5), rnd.randint(1, 6), rnd.randint(1, 8)
            path = os.path.join(td, "v%d.rtdc" % n)
            old = np.arange(m * 4, dtype=np.uint8).reshape(m, 2, 2) + 1
            new = np.arange(k * 4, dtype=np.uint8).reshape(k, 2, 2) + 100
            with h5py.File(path, "w") as h:
                if m:
                    h.require_group("events").create_dataset(
                        "image", data=old, chunks=(C, 2, 2),
                        maxshape=(None, 2, 2))
            with RTDCWriter(path, mode="append") as hw:
                hw.store_feature("image", new)
            with h5py.File(path, "r") as h:
                got = h["events/image"][:]
            real_ok = np.array_equal(got, np.concatenate([old, new]) if m
                                     else new)
            eng = Engine()

            def run(e, m=m, k=k, C=C):
                f = symh5.File("a.rtdc", "w")
                g = f.require_group("events")
                o, nw = toks("old", m), toks("new", k)
                if m:
                    ds = symh5.Dataset(g, "image", SArr(o, np.uint8, ITEM),
                                       chunks=(C,) + ITEM,
                                       maxshape=(None,) + ITEM)
                    g.members["image"] = ds
                hw = make_writer(f)
                with quiet():
                    hw.store_feature("image", SArr(nw, np.uint8, ITEM))
                same_tokens(e, g["image"].data.elems, o + nw, "x")
            eng.explore(run)
            n += 1
            if bool(eng.violations) == real_ok:
                mism.append("m=%d n=%d chunk=%d: symbolic %s, real %s" % (
                    m, k, C, not eng.violations, real_ok))
    return {"traces": n, "mismatches": mism}


CANARIES = [
    dict(name="remainder from the dataset length", module=W,
         qualname="RTDCWriter.write_ndarray",
         old="num_remain = len(data) % chunk_size",
         new="num_remain = len(dset) % chunk_size"),
    dict(name="index restarts at 1", module=W,
         qualname="RTDCWriter.store_feature",
         old="data=np.arange(nev0 + 1, nev0 + nev + 1),",
         new="data=np.arange(1, nev + 1),"),
    dict(name="ragged counter not advanced", module=W,
         qualname="RTDCWriter.write_ragged",
         old="self._group_sizes[grp] += 1", new="pass"),
    dict(name="mask scaled to 1 instead of 255", module=W,
         qualname="RTDCWriter.write_image_grayscale",
         old="data = np.asarray(data, dtype=np.uint8) * 255",
         new="data = np.asarray(data, dtype=np.uint8)"),
]
