"""CrossHair conditions for C11 (metadata normalisation).  Each private
function calls the REAL dclab converters / configuration classes (imported
from /repo) and states the property as a PEP316 postcondition."""
import numbers
import warnings
from typing import List, Union

import numpy as np

from dclab.definitions import meta_parse as mp
from dclab.rtdc_dataset import config as cfgmod

warnings.simplefilter("ignore")

# re-bound real code, built at import time (outside CrossHair's tracing)
from vf import symh5  # noqa: E402
from vf.dcsym import build_class  # noqa: E402
from vf.symx import rebind  # noqa: E402
from dclab.rtdc_dataset.fmt_hdf5 import base as _h5base  # noqa: E402
WRITER = build_class("dclab.rtdc_dataset.writer", "RTDCWriter", h5py=symh5)
PARSE = rebind(_h5base.RTDC_HDF5.__dict__["parse_config"], h5py=symh5)

PRINTABLE = [chr(i) for i in range(32, 127)]


def _ascii(s: str) -> bool:
    return all(32 <= ord(c) < 127 for c in s)


def _fintlist_idempotent_str(a: int, b: int) -> bool:
    """
    pre: 0 <= a <= 9 and 0 <= b <= 9
    post: _
    """
    once = mp.fintlist("[%d, %d]" % (a, b))
    return once == [a, b] and mp.fintlist(once) == once


def _fint_str(v: str) -> bool:
    """
    pre: len(v) <= 2 and _ascii(v)
    post: _
    raises: ValueError
    """
    r = mp.fint(v)
    return isinstance(r, numbers.Integral) and mp.fint(r) == r


def _fint_numeric_text(m: int, f: int, e: int) -> bool:
    """
    pre: 1 <= m <= 3 and 3 <= f <= 6 and 0 <= e <= 3
    post: _
    """
    # a numeric text denotes the integer part of its value in every
    # notation Python's float() accepts (plain, decimal point, exponent)
    t1 = "%d.%de%d" % (m, f, e)
    return (mp.fint(t1) == (m * 10 + f) * 10 ** e // 10
            and mp.fint("%de%d" % (m, e)) == m * 10 ** e
            and mp.fint("%d.%d" % (m, f)) == m
            and mp.fint("%d%d" % (m, f)) == 10 * m + f)


def _fbool_str(v: str) -> bool:
    """
    pre: len(v) <= 2 and _ascii(v)
    post: _
    raises: ValueError
    """
    r = mp.fbool(v)
    return isinstance(r, (bool, np.bool_)) and mp.fbool(r) == r


def _lcstr(v: str) -> bool:
    """
    pre: len(v) <= 2 and _ascii(v)
    post: _
    """
    r = mp.lcstr(v)
    return isinstance(r, str) and mp.lcstr(r) == r


def _cfgdict_case_insensitive(up: bool, v: int) -> bool:
    """
    pre: 0 <= v <= 9
    post: _
    """
    d1 = cfgmod.ConfigurationDict(section="imaging")
    d2 = cfgmod.ConfigurationDict(section="imaging")
    d1["roi size x" if not up else "ROI Size X"] = v
    d2["roi size x"] = v
    return dict(d1) == dict(d2) and ("ROI SIZE X" in d1) and \
        d1["Roi Size X"] == d2["roi size x"]


def _cfgdict_unknown_key_rejected(k: str) -> bool:
    """
    pre: len(k) <= 2 and _ascii(k)
    post: _
    """
    d = cfgmod.ConfigurationDict(section="imaging")
    d[k] = 1
    import dclab.definitions as dfn
    return (k.lower() in d) == dfn.config_key_exists("imaging", k.lower())


def _online_filter_range_from_text(v: int, mx: bool) -> bool:
    """
    pre: 0 <= v <= 99
    post: _
    """
    # configuration-file route: every value arrives as text
    d = cfgmod.ConfigurationDict(section="online_filter")
    key = "deform max" if mx else "deform min"
    d[key] = str(v)
    return isinstance(d[key], numbers.Number) and d[key] == v


def _cfgdict_empty_and_none_rejected(k: int) -> bool:
    """
    pre: 0 <= k < 3
    post: _
    """
    key = ["sample", "date", "time"][k]
    d = cfgmod.ConfigurationDict(section="experiment")
    d[key] = ""
    d[key] = None
    return key not in d


def _user_key_roundtrip_text(k: str, v: int) -> bool:
    """
    pre: 1 <= len(k) <= 2 and _ascii(k) and k.strip() == k
    pre: k.lower() == k and not k.startswith("[") and "#" not in k
    pre: "=" not in k and 0 <= v <= 9
    post: _
    """
    c = cfgmod.Configuration()
    c["user"][k] = v
    if k not in c["user"]:
        return True
    text = c.tostring(sections=["user"])
    got = {}
    sec = None
    for line in text.split("\n"):
        line = line.split("#")[0].strip()
        if not line:
            continue
        if line.startswith("[") and line.endswith("]"):
            sec = line[1:-1]
            continue
        if not line.count("="):
            continue
        var, val = line.split("=", 1)
        var, val = cfgmod.keyval_str2typ(var, val.strip("' ").strip('" ')
                                         .strip())
        got[var] = val
    return got.get(k) == v


def _hdf5_user_key_roundtrip(k: str, v: int) -> bool:
    """
    pre: 1 <= len(k) <= 2 and _ascii(k) and k.strip() == k
    pre: k.lower() == k and 0 <= v <= 9
    post: _
    """
    # the REAL RTDCWriter.store_metadata and the REAL RTDC_HDF5.parse_config
    # over the in-memory h5py stand-in
    f = symh5.File("a.rtdc", "w")
    hw = WRITER(f)
    hw.store_metadata({"user": {k: v}})
    cfg = PARSE(f)
    return k in cfg["user"] and cfg["user"][k] == v


def _hdf5_known_key_roundtrip(v: int, up: bool) -> bool:
    """
    pre: 0 < v < 50
    post: _
    """
    f = symh5.File("a.rtdc", "w")
    hw = WRITER(f)
    key = "roi size x"
    hw.store_metadata({"imaging": {key: v, "pixel size": v}})
    cfg = PARSE(f)
    return cfg["imaging"][key.upper() if up else key] == v and \
        isinstance(cfg["imaging"]["pixel size"], float) and \
        cfg["imaging"]["pixel size"] == float(v)
