"""CrossHair conditions for C15 (text persistence of polygon filters).  The
REAL PolygonFilter.save / _load run on symbolic strings; only the file object
is replaced (save -> list of lines, _load -> the same lines)."""
import io
import warnings

from dclab import polygon_filter as pfmod
from vf.symx import rebind

warnings.simplefilter("ignore")


class _Sink(io.IOBase):
    """file object opened for writing"""

    def __init__(self):
        self.lines = []

    def writelines(self, lines):
        self.lines += list(lines)


class _Path:
    LINES = []

    def __init__(self, name):
        pass

    def open(self, *a, **k):
        return self

    def __enter__(self):
        return self

    def __exit__(self, *a):
        return False

    def readlines(self):
        return list(_Path.LINES)


class _pathlib:
    Path = _Path


LOAD = rebind(pfmod.PolygonFilter.__dict__["_load"], pathlib=_pathlib)


def _ok_name(s: str) -> bool:
    """names the text format can be expected to carry: printable ASCII, no
    leading/trailing blanks (values are stripped), not empty"""
    return (len(s) >= 1 and all(33 <= ord(c) < 127 or c == " " for c in s)
            and s == s.strip())


def _roundtrip(name, inverted, uid, second=None):
    pfmod.PolygonFilter.clear_all_filters()
    pts = [[0.25, 0.5], [10.5, 0.5], [10.5, 7.75]]
    pf = pfmod.PolygonFilter(axes=("area_um", "deform"), points=pts,
                             name=name, inverted=inverted, unique_id=uid)
    sink = _Sink()
    pf.save(sink, ret_fobj=True)
    if second is not None:
        pf2 = pfmod.PolygonFilter(axes=("deform", "area_um"),
                                  points=[[1, 2], [3, 4], [5, 1]],
                                  name=second, unique_id=uid + 1)
        pf2.save(sink, ret_fobj=True)
    pfmod.PolygonFilter.clear_all_filters()
    _Path.LINES = sink.lines
    new = pfmod.PolygonFilter.__new__(pfmod.PolygonFilter)
    new.inverted = False
    new.fileid = 0
    new.name = None
    LOAD(new, "mem.poly")
    ok = (new.name == name and new.inverted == inverted
          and new.unique_id == uid and new.axes == ("area_um", "deform")
          and len(new.points) == len(pts))
    pfmod.PolygonFilter.clear_all_filters()
    return ok


def _poly_roundtrip_name(name: str, inverted: bool) -> bool:
    """
    pre: len(name) <= 3 and _ok_name(name)
    post: _
    """
    return _roundtrip(name, inverted, 7)


def _poly_roundtrip_two_filters(name: str, second: str) -> bool:
    """
    pre: len(name) <= 2 and len(second) <= 2
    pre: _ok_name(name) and _ok_name(second)
    post: _
    """
    return _roundtrip(name, False, 3, second=second)


def _poly_roundtrip_uid(uid: int) -> bool:
    """
    pre: 0 <= uid <= 99999999
    post: _
    """
    return _roundtrip("n", True, uid)
