"""C05 -- Young's modulus = scaled linear interpolation of the look-up table.

Real code executed symbolically (exact reals): get_emodulus (both routes),
normalize, scale_feature / scale_area_um / scale_volume / scale_emodulus,
get_pixelation_delta / corr_deform_with_area_um / corr_deform_with_volume,
load_lut (tuple branch).  scipy.interpolate.griddata, np.exp and
get_viscosity are uninterpreted: each call returns fresh reals and records
its argument terms; congruence ("equal arguments give equal results") is
added as explicit implications (nlsat accepts no uninterpreted functions).
The only law used about griddata is positive homogeneity in the values.
"""
import itertools
import numbers
import random

import numpy as np
import z3

from vf.common import real
from vf.dcsym import shadow, quiet
from vf.symnp import SArr, SMat, SymNP
from vf.symx import Engine, SBool, SFloat, SInt, SReal, toreal

numbers.Number.register(SReal)

PID = "C05"
CASE_TIMEOUT = 600
EM = "dclab.features.emodulus"
FUNCTIONS = [(EM, "get_emodulus"), (EM, "normalize"),
             (EM + ".scale_linear", "scale_feature"),
             (EM + ".scale_linear", "scale_area_um"),
             (EM + ".scale_linear", "scale_volume"),
             (EM + ".scale_linear", "scale_emodulus"),
             (EM + ".pxcorr", "get_pixelation_delta"),
             (EM + ".pxcorr", "corr_deform_with_area_um"),
             (EM + ".pxcorr", "corr_deform_with_volume"),
             (EM + ".load", "load_lut"),
             (EM + ".viscosity", "get_viscosity"),
             (EM + ".viscosity", "get_viscosity_mc_pbs_buyukurganci_2022"),
             (EM + ".viscosity", "get_viscosity_mc_pbs_herold_2017"),
             (EM + ".viscosity", "get_viscosity_water_kestin_1978"),
             (EM + ".viscosity", "check_temperature"),
             (EM + ".viscosity", "shear_rate_square_channel")]
BOUNDS = {
    "quick": {"LUT": "3 rows of arbitrary positive reals + arbitrary positive "
              "metadata (channel width, flow rate, viscosity)",
              "events": "1..2 (area|volume, deformation arbitrary reals)",
              "set-up": "channel width, flow rate > 0, pixel size >= 0, "
              "viscosity scalar or per event (> 0)"},
    "thorough": {"LUT": "3..4 rows", "events": "1..2"},
}
OUTSIDE = ["the interpolation inside scipy.interpolate.griddata (Qhull, C): "
           "'NaN exactly outside the support' and values at LUT nodes",
           "the content of the three built-in LUT files",
           "the VALUES of the viscosity models' formulas (their effect on "
           "the argument arrays is checked)", "floating-point rounding",
           "extrapolate=True", "LUTs given by path/identifier (file I/O)"]
STUBS = ["scipy.interpolate.griddata(points, values, xi, method='linear'): "
         "uninterpreted, positively homogeneous in `values`",
         "np.exp: uninterpreted with congruence",
         "get_viscosity(medium, channel_width, flow_rate, temperature, "
         "model): uninterpreted positive function of the temperature (per "
         "event for arrays)", "numpy shim with column views of the LUT"]
ASSUMPTIONS = ["positive LUT entries and metadata", "griddata(P, s*V, X) == "
               "s*griddata(P, V, X) for s > 0"]
EXPLANATION = ("C05: both computation routes reduce to the specification "
               "term (Q/Q0)(eta/eta0)(L0/L)^3 * G(P_norm, E0, X_i).")


class UF:
    """uninterpreted real functions with explicit congruence"""

    def __init__(self, eng):
        self.eng = eng
        self.calls = {}
        self.n = 0

    def call(self, name, args, positive=False):
        args = [toreal(a) for a in args]
        self.n += 1
        r = z3.Real("%s!%d" % (name, self.n))
        self.eng.vars["%s!%d" % (name, self.n)] = r
        if positive:
            self.eng._add(r > 0)
        for (a2, r2) in self.calls.setdefault((name, len(args)), []):
            self.eng._add(z3.Implies(z3.And([x == y for x, y in
                                             zip(args, a2)] or [True]),
                                     r == r2))
        self.calls[(name, len(args))].append((args, r))
        return SReal(r)


class World:
    def __init__(self, eng, p):
        self.eng, self.p = eng, p
        self.uf = UF(eng)
        nl, ne = p["nlut"], p["nev"]

        def pos(name):
            v = eng.real(name)
            eng.assume(v > 0)
            return v
        self.A = [pos("A%d" % k) for k in range(nl)]
        self.D = [pos("D%d" % k) for k in range(nl)]
        self.E = [pos("E%d" % k) for k in range(nl)]
        self.L0, self.Q0, self.eta0 = pos("L0"), pos("Q0"), pos("eta0")
        self.L, self.Q = pos("L"), pos("Q")
        self.px = eng.real("px")
        eng.assume(self.px >= 0)
        self.x = [pos("x%d" % i) for i in range(ne)]
        self.d = [eng.real("d%d" % i) for i in range(ne)]
        self.T = [eng.real("T%d" % i) for i in range(ne)]
        self.grid_calls = []

    def lut(self):
        rows = [[a, d, e] for a, d, e in zip(self.A, self.D, self.E)]
        meta = {"channel_width": self.L0, "flow_rate": self.Q0,
                "fluid_viscosity": self.eta0,
                "column features": [self.p["featx"], "deform", "emodulus"]}
        return SMat(rows, float), meta

    def namespaces(self):
        w = self

        def exp(a):
            if isinstance(a, SArr):
                return SArr([w.uf.call("exp", [v], positive=True)
                             for v in list(a)], float)
            return w.uf.call("exp", [a], positive=True)

        def zeros_like(a, dtype=None):
            return SArr([0.0] * len(a), float)
        npx = SymNP(exp=exp)
        npx.ndarray = (np.ndarray, SArr, SMat)

        def griddata(points, values, xi, method="linear"):
            pts = [list(points[0]), list(points[1])]
            vals = list(values)
            xis = [list(xi[0]), list(xi[1])]
            res = [SReal(z3.Real("G!%d_%d" % (len(w.grid_calls), i)))
                   for i in range(len(xis[0]))]
            w.grid_calls.append(dict(points=pts, values=vals, xi=xis,
                                     res=res))
            return SArr(res, float)

        class spint:
            pass
        spint.griddata = staticmethod(griddata)

        def get_viscosity(medium, channel_width, flow_rate, temperature,
                          model):
            if isinstance(temperature, SArr):
                return SArr([w.uf.call("eta", [t], positive=True)
                             for t in list(temperature)], float)
            return w.uf.call("eta", [temperature], positive=True)
        px_ns = shadow(EM + ".pxcorr", np=npx)
        sc_ns = shadow(EM + ".scale_linear", np=npx)
        # file parsing is I/O: the parser stub returns a FRESH copy of the
        # symbolic table on every call (its contract); identifiers resolve
        # to a fixed path
        import pathlib as _pl
        wself = self

        def load_mtext(path):
            lut, meta = wself.lut()
            wself.parsed = getattr(wself, "parsed", 0) + 1
            return lut, meta

        def get_lut_path(path_or_id):
            return _pl.Path("/luts/%s.txt" % path_or_id)
        ld_ns = shadow(EM + ".load", np=npx, load_mtext=load_mtext,
                       get_lut_path=get_lut_path,
                       EXTERNAL_LUTS={"verif-registered":
                                      _pl.Path("/luts/verif-registered.txt")})
        self.ld_ns = ld_ns
        ns = shadow(EM, np=npx, spint=spint, get_viscosity=get_viscosity,
                    get_pixelation_delta=px_ns["get_pixelation_delta"],
                    scale_feature=sc_ns["scale_feature"],
                    scale_emodulus=sc_ns["scale_emodulus"],
                    load_lut=ld_ns["load_lut"])
        return ns, px_ns

    def call(self, route, scale=None, lut_id=None):
        """run the real get_emodulus; route: 'scalar-visc' (numeric medium),
        'scalar-temp' (known medium + one temperature), 'array-temp'"""
        ns, px_ns = self.namespaces()
        k = scale
        L = self.L * k if k is not None else self.L
        Q = self.Q * k * k * k if k is not None else self.Q
        px = self.px * k if k is not None else self.px
        pw = 2 if self.p["featx"] == "area_um" else 3
        x = [xi * k * k * (k if pw == 3 else 1) if k is not None else xi
             for xi in self.x]
        xarr = SArr(list(x), float)
        darr = SArr(list(self.d), float)
        lut, meta = self.lut()
        kw = dict(deform=darr, channel_width=L, flow_rate=Q, px_um=px,
                  lut_data=(lut, meta) if lut_id is None else lut_id,
                  extrapolate=False)
        kw["area_um" if pw == 2 else "volume"] = xarr
        if route == "scalar-visc":
            eta = self.eng.real("eta_direct").e
            self.eng._add(eta > 0)
            kw.update(medium=SReal(eta), temperature=None, visc_model=None)
            etas = [SReal(eta)] * len(x)
        elif route == "scalar-temp":
            kw.update(medium="CellCarrier", temperature=self.T[0],
                      visc_model="buyukurganci-2022")
            etas = None
        else:
            kw.update(medium="CellCarrier",
                      temperature=SArr(list(self.T), float),
                      visc_model="buyukurganci-2022")
            etas = None
        n0 = len(self.grid_calls)
        with quiet():
            out = ns["get_emodulus"](**kw)
        assert len(self.grid_calls) == n0 + 1
        g = self.grid_calls[-1]
        if etas is None:
            # viscosities the stub returned (in call order)
            etas = []
            for i in range(len(x)):
                t = self.T[0] if route == "scalar-temp" else self.T[i]
                etas.append(self.uf.call("eta", [t], positive=True))
        return dict(out=list(out), grid=g, etas=etas, L=L, Q=Q, px=px, x=x,
                    xarr=xarr, darr=darr, lut=lut, px_ns=px_ns)

    def spec_check(self, r, tag):
        """route result == specification term"""
        eng = self.eng
        g = r["grid"]
        nl = len(self.A)
        maxA = self.A[0].e
        for a in self.A[1:]:
            maxA = z3.If(a.e > maxA, a.e, maxA)
        maxD = self.D[0].e
        for d in self.D[1:]:
            maxD = z3.If(d.e > maxD, d.e, maxD)
        pw = 2 if self.p["featx"] == "area_um" else 3
        ok = len(g["points"][0]) == nl and len(g["points"][1]) == nl and \
            len(g["values"]) == nl
        eng.prove(z3.BoolVal(ok), tag + ": every LUT node enters the "
                  "interpolation (independent of the events in the call)")
        if not ok:
            return g
        eng.prove(z3.And([toreal(g["points"][0][k]) == self.A[k].e / maxA
                          for k in range(nl)] +
                         [toreal(g["points"][1][k]) == self.D[k].e / maxD
                          for k in range(nl)]),
                  tag + ": interpolation nodes are the normalised LUT")
        # value scale v: values == v * E0
        v = z3.Real("vscale!" + tag)
        eng._add(toreal(g["values"][0]) == v * self.E[0].e)
        eng.prove(z3.And([toreal(g["values"][k]) == v * self.E[k].e
                          for k in range(nl)] + [v > 0]),
                  tag + ": LUT values are scaled by one positive factor")
        ratio = r["L"].e / self.L0.e
        # pixelation delta from the real correction function
        with quiet():
            if toreal(r["px"]) is not None and not z3.is_true(z3.simplify(
                    toreal(r["px"]) == 0)):
                delt = r["px_ns"]["get_pixelation_delta"](
                    feat_corr="deform", feat_absc=self.p["featx"],
                    data_absc=SArr(list(r["x"]), float), px_um=r["px"])
                delt = list(delt)
            else:
                delt = [0.0] * len(r["x"])
        for i in range(len(r["x"])):
            xs = toreal(r["x"][i])
            for _ in range(pw):
                xs = xs / ratio
            dl = z3.If(toreal(r["px"]) == 0, z3.RealVal(0),
                       toreal(delt[i]))
            eng.prove(z3.And(toreal(g["xi"][0][i]) == xs / maxA,
                             toreal(g["xi"][1][i]) ==
                             (self.d[i].e - dl) / maxD),
                      tag + ": event %d is looked up at its scaled area/"
                      "volume and pixelation-corrected deformation" % i)
            # out_i == c_i * G_i ; c_i * v == documented scaling
            Gi = g["res"][i].e
            c = z3.Real("c!%s%d" % (tag, i))
            eng._add(toreal(r["out"][i]) == c * Gi)
            eng._add(Gi != 0)
            want = (r["Q"].e / self.Q0.e) * \
                (toreal(r["etas"][i]) / self.eta0.e) / \
                (ratio * ratio * ratio)
            eng.prove(c * v == want,
                      tag + ": event %d scaled by (Q/Q0)(eta/eta0)(L0/L)^3"
                      % i)
        return g


VISC = "dclab.features.emodulus.viscosity"


def run_visc_args(eng, p):
    """the real viscosity models (dispatcher, range check, shear rate) on a
    per-event temperature array: the caller's array is left untouched. The
    transcendental parts (exp, real powers) return fresh reals -- only the
    data flow into the argument array is decided here."""
    import vf.symnp as snp
    from vf.symx import SReal
    n = p["nev"]
    cnt = [0]

    def fresh(_=None):
        cnt[0] += 1
        return SReal(z3.Real("visc_uf%d" % cnt[0]))
    temps = [eng.real("T%d" % i) for i in range(n)]
    lo, hi = p["range"]
    for t in temps:
        eng.assume((t >= lo) & (t <= hi))
    arr = SArr(list(temps), float)
    npx = SymNP(exp=lambda a: SArr([fresh() for _ in list(a)], float)
                if hasattr(a, "__len__") else fresh())
    ns = shadow(VISC, np=npx)
    old_pow = snp.SArr.__pow__

    def gen_pow(s_, o):
        if isinstance(o, int):
            return old_pow(s_, o)
        return s_._map(fresh)
    snp.SArr.__pow__ = gen_pow
    snp.SArr.__rpow__ = lambda s_, o: s_._map(fresh)
    try:
        with quiet():
            ns["get_viscosity"](medium=p["medium"], channel_width=20.0,
                                flow_rate=0.04, temperature=arr,
                                model=p["model"])
    finally:
        snp.SArr.__pow__ = old_pow
        del snp.SArr.__rpow__
    eng.prove(z3.And([toreal(a) == t.e for a, t in zip(list(arr), temps)]
                     + [z3.BoolVal(len(arr) == n)]),
              "viscosity model: the caller's temperature array is not "
              "modified", info={"model": p["model"]})
    return "ok"


def run(eng, p):
    if p.get("check") == "visc-args":
        return run_visc_args(eng, p)
    w = World(eng, p)
    kind = p["check"]
    if kind == "route":
        r = w.call(p["route"])
        w.spec_check(r, p["route"])
        # caller's arrays and the LUT tuple are unmodified
        eng.prove(z3.And([toreal(a) == b.e for a, b in
                          zip(list(r["xarr"]), w.x)] +
                         [toreal(a) == b.e for a, b in
                          zip(list(r["darr"]), w.d)]),
                  "input arrays are not modified")
        eng.prove(z3.And([toreal(r["lut"].rows[k][0]) == w.A[k].e
                          for k in range(len(w.A))] +
                         [toreal(r["lut"].rows[k][1]) == w.D[k].e
                          for k in range(len(w.A))] +
                         [toreal(r["lut"].rows[k][2]) == w.E[k].e
                          for k in range(len(w.A))]),
                  "the LUT passed by the caller is not modified")
    elif kind == "rescale":
        k = eng.real("k")
        eng.assume(k > 0)
        r1 = w.call(p["route"])
        r2 = w.call(p["route"], scale=k)
        g1, g2 = r1["grid"], r2["grid"]
        eng.prove(z3.And(
            [toreal(a) == toreal(b) for a, b in zip(
                g1["points"][0] + g1["points"][1] + g1["xi"][0] + g1["xi"][1],
                g2["points"][0] + g2["points"][1] + g2["xi"][0] +
                g2["xi"][1])]),
            "joint geometric rescaling: identical look-up")
        for i in range(p["nev"]):
            G = z3.Real("Gshared%d" % i)
            eng._add(z3.And(g1["res"][i].e == G, g2["res"][i].e == G))
        # same values up to the same factor => compare via ratio to E0
        eng.prove(z3.And([toreal(a) * toreal(g2["values"][0]) ==
                          toreal(b) * toreal(g1["values"][0])
                          for a, b in zip(g1["values"], g2["values"])]),
                  "joint geometric rescaling: same LUT values up to scale")
        v1, v2 = z3.Real("v1"), z3.Real("v2")
        eng._add(toreal(g1["values"][0]) == v1 * w.E[0].e)
        eng._add(toreal(g2["values"][0]) == v2 * w.E[0].e)
        for i in range(p["nev"]):
            eng.prove(toreal(r1["out"][i]) * v1 == toreal(r2["out"][i]) * v2,
                      "joint geometric rescaling leaves the modulus "
                      "unchanged")
    elif kind == "second-call":
        lid = p.get("lut_id")
        r1 = w.call(p["route"], lut_id=lid)
        r2 = w.call(p["route"], lut_id=lid)
        if lid is not None:
            with quiet():
                lut3, meta3 = w.ld_ns["load_lut"](lid)
            ref, _ = w.lut()
            eng.prove(z3.And([toreal(a) == toreal(b) for ra, rb in zip(
                list(lut3), list(ref)) for a, b in zip(list(ra), list(rb))]),
                "a registered LUT is not modified by computing with it")
        g1, g2 = r1["grid"], r2["grid"]
        eng.prove(z3.And(
            [toreal(a) == toreal(b) for a, b in zip(
                g1["points"][0] + g1["points"][1] + g1["values"] +
                g1["xi"][0] + g1["xi"][1],
                g2["points"][0] + g2["points"][1] + g2["values"] +
                g2["xi"][0] + g2["xi"][1])]),
            "no state survives between two calls")
    return "ok"


def run_case(name, params):
    eng = Engine(timeout_ms=120000, nra=True)
    eng.explore(lambda e: run(e, params))
    return eng.stats()


def cases(tier, seed):
    out = []
    for model, medium, rng in (("buyukurganci-2022", "0.49% MC-PBS",
                                (22, 37)),
                               ("buyukurganci-2022", "0.83% MC-PBS",
                                (22, 37)),
                               ("herold-2017", "0.49% MC-PBS", (18, 26)),
                               ("kestin-1978", "water", (0, 40))):
        out.append(("viscosity arguments %s %s" % (model, medium), dict(
            check="visc-args", model=model, medium=medium, range=rng,
            nev=2)))
    nluts = [3] if tier == "quick" else [3, 4, 5]
    for featx in ("area_um", "volume"):
        for nl in nluts:
            for nev in (1, 2):
                for route in ("scalar-visc", "scalar-temp", "array-temp"):
                    if nl >= 4 and (nev == 2 or (nl == 5 and
                                                 featx == "volume")):
                        continue
                    out.append(("%s route=%s lut=%d ev=%d" % (
                        featx, route, nl, nev), dict(
                        check="route", route=route, featx=featx, nlut=nl,
                        nev=nev)))
        if featx == "area_um" and tier == "quick":
            for route in ("scalar-visc", "array-temp"):
                out.append(("%s route=%s lut=5 ev=1" % (featx, route), dict(
                    check="route", route=route, featx=featx, nlut=5, nev=1)))
        for route in ("scalar-visc", "array-temp"):
            out.append(("%s rescale %s" % (featx, route), dict(
                check="rescale", route=route, featx=featx, nlut=3, nev=1)))
            out.append(("%s second-call %s" % (featx, route), dict(
                check="second-call", route=route, featx=featx, nlut=3,
                nev=1)))
            for lid in ("verif-registered", "LE-2D-FEM-19"):
                if featx == "volume" and lid != "verif-registered":
                    continue
                out.append(("%s second-call %s lut=%s" % (featx, route, lid),
                            dict(check="second-call", route=route,
                                 featx=featx, nlut=3, nev=1, lut_id=lid)))
    random.Random(seed).shuffle(out)
    return out


# ------------------------------------------------------------------ replay
def replay_registered(p):
    """register a LUT file, compute twice with its identifier: results and
    the table returned by load_lut must not change"""
    import os
    import shutil
    import tempfile
    import dclab.features.emodulus as em
    from dclab.features.emodulus import load as ld
    fails = []
    with quiet(), tempfile.TemporaryDirectory(prefix="verif_c05_") as td:
        src = ld.get_lut_path("LE-2D-FEM-19" if p["featx"] == "area_um"
                              else "LE-2D-FEM-19-volume"
                              if "LE-2D-FEM-19-volume" in
                              ld.get_internal_lut_names_dict()
                              else "LE-2D-FEM-19")
        dst = os.path.join(td, "mylut.txt")
        shutil.copy(src, dst)
        ident = "verif-c05-registered"
        ld.EXTERNAL_LUTS.pop(ident, None)
        ld.register_lut(dst, identifier=ident)
        try:
            lut0, meta0 = ld.load_lut(ident)
            featx = meta0["column features"][0]
            rs = np.random.RandomState(5)
            n = 50
            if featx == "area_um":
                x = rs.uniform(40, 250, n)
            else:
                x = rs.uniform(300, 2500, n)
            d = rs.uniform(0.01, 0.15, n)
            kw = dict(deform=d, medium="CellCarrier", channel_width=20.0,
                      flow_rate=0.04, px_um=0.34, temperature=23.0,
                      visc_model="buyukurganci-2022", lut_data=ident)
            kw[featx] = x
            res = [em.get_emodulus(**kw) for _ in range(3)]
            for i in (1, 2):
                if not np.array_equal(res[0], res[i], equal_nan=True):
                    fails.append("call %d with the registered LUT yields %d "
                                 "valid events, the first call %d" % (
                                     i + 1, np.sum(~np.isnan(res[i])),
                                     np.sum(~np.isnan(res[0]))))
                    break
            lut1, _ = ld.load_lut(ident)
            if not np.array_equal(lut0, lut1):
                fails.append("load_lut(%r) returns a modified table after "
                             "get_emodulus (max %s: %g vs %g)" % (
                                 ident, featx, lut1[:, 0].max(),
                                 lut0[:, 0].max()))
        finally:
            ld.EXTERNAL_LUTS.pop(ident, None)
    if not fails:
        return {"reproduced": False, "key": "not-reproduced",
                "detail": "repeated calls with a registered LUT agree"}
    return {"reproduced": True, "key": "get_emodulus|registered-lut-state",
            "detail": fails[0]}


def replay(case, params, v):
    """real get_emodulus + real scipy on a small concrete LUT built from the
    model values: the two routes and the documented scaling must agree"""
    vals = v.get("values") or {}
    p = params
    if p.get("check") == "visc-args":
        gv = real(VISC, "get_viscosity")
        t0 = np.array([float(vals.get("T%d" % i, p["range"][0]) or 0)
                       for i in range(p["nev"])], dtype=float)
        t = t0.copy()
        with quiet():
            e1 = gv(medium=p["medium"], channel_width=20.0, flow_rate=0.04,
                    temperature=t, model=p["model"])
        if not np.array_equal(t, t0):
            return {"reproduced": True,
                    "key": "get_viscosity|modifies-its-temperature-argument",
                    "detail": "get_viscosity(model=%r, temperature=%r) "
                    "leaves the caller's array as %r" % (
                        p["model"], t0.tolist(), t.tolist())}
        return {"reproduced": False, "key": "not-reproduced",
                "detail": "temperature array unchanged (%r)" % (
                    np.asarray(e1).tolist(),)}
    if p.get("lut_id"):
        return replay_registered(p)
    ge = real(EM, "get_emodulus")
    nl = p["nlut"]

    def val(n, d):
        x = vals.get(n)
        try:
            return float(x) if x is not None else d
        except Exception:
            return d
    # a well-conditioned triangle-rich LUT around the model values
    rs = np.random.RandomState(4)
    A = np.array([30., 120., 60., 200., 90., 150.])
    D = np.array([0.02, 0.03, 0.12, 0.1, 0.06, 0.18])
    E = np.array([1.0, 2.5, 1.7, 3.0, 2.0, 2.2])
    meta = {"channel_width": val("L0", 20.0) or 20.0,
            "flow_rate": val("Q0", 0.04) or 0.04,
            "fluid_viscosity": val("eta0", 15.0) or 15.0,
            "column features": [p["featx"], "deform", "emodulus"]}
    lut = np.stack([A, D, E], axis=1)
    L = abs(val("L", 20.0)) or 20.0
    Q = abs(val("Q", 0.04)) or 0.04
    px = abs(val("px", 0.34))
    x = np.array([100.0, 110.0])[:p["nev"]] * (L / meta["channel_width"]) ** (
        2 if p["featx"] == "area_um" else 3)
    d = np.array([0.07, 0.08])[:p["nev"]]
    eta = abs(val("eta_direct", 5.0)) or 5.0
    fails = []
    with quiet():
        kw = dict(deform=d, channel_width=L, flow_rate=Q, px_um=px,
                  lut_data=(lut.copy(), dict(meta)))
        kw["area_um" if p["featx"] == "area_um" else "volume"] = x
        e1 = ge(medium=eta, temperature=None, visc_model=None, **kw)
        kw2 = dict(kw)
        e2 = ge(medium="CellCarrier", temperature=np.full(len(x), 23.0),
                visc_model="buyukurganci-2022", **kw2)
        e3 = ge(medium="CellCarrier", temperature=23.0,
                visc_model="buyukurganci-2022", **kw2)
        if not np.allclose(e2, e3, equal_nan=True, rtol=1e-9):
            fails.append("per-event temperature array gives %r, the same "
                         "scalar temperature gives %r" % (e2.tolist(),
                                                          e3.tolist()))
        # proportional to viscosity and flow rate
        e4 = ge(medium=2 * eta, temperature=None, visc_model=None, **kw)
        if not np.allclose(e4, 2 * e1, equal_nan=True, rtol=1e-9):
            fails.append("doubling the viscosity gives %r, expected %r" % (
                e4.tolist(), (2 * e1).tolist()))
        kwq = dict(kw, flow_rate=2 * Q)
        e5 = ge(medium=eta, temperature=None, visc_model=None, **kwq)
        if not np.allclose(e5, 2 * e1, equal_nan=True, rtol=1e-9):
            fails.append("doubling the flow rate gives %r, expected %r" % (
                e5.tolist(), (2 * e1).tolist()))
        # joint geometric rescaling (lengths x k, flow rate x k^3) leaves
        # the modulus unchanged
        for k in (2.0, 0.5):
            pw = 2 if p["featx"] == "area_um" else 3
            kwk = dict(kw, channel_width=L * k, flow_rate=Q * k ** 3,
                       px_um=px * k)
            kwk["area_um" if pw == 2 else "volume"] = x * k ** pw
            ek = ge(medium=eta, temperature=None, visc_model=None, **kwk)
            if not np.allclose(ek, e1, equal_nan=True, rtol=1e-9):
                fails.append("joint rescaling by %g (pixel size %g -> %g) "
                             "changes the modulus from %r to %r" % (
                                 k, px, px * k, e1.tolist(), ek.tolist()))
                break
        # single event vs batch
        for i in range(len(x)):
            kws = dict(kw)
            kws["deform"] = d[i:i + 1]
            kws["area_um" if p["featx"] == "area_um" else "volume"] = \
                x[i:i + 1]
            es = ge(medium=eta, temperature=None, visc_model=None, **kws)
            if not np.allclose(es, e1[i:i + 1], equal_nan=True, rtol=1e-9):
                fails.append("event %d alone gives %r, in the batch %r" % (
                    i, es.tolist(), e1[i:i + 1].tolist()))
        # the same on a built-in LUT: events alone vs. in a LUT-spanning
        # batch, scalar vs. per-event temperature
        if not fails and p["featx"] == "area_um":
            rs2 = np.random.RandomState(11)
            n = 2000
            xa = rs2.uniform(20, 290, n)
            da = rs2.uniform(0.005, 0.19, n)
            kwb = dict(channel_width=20.0, flow_rate=0.04, px_um=0.34,
                       lut_data="LE-2D-FEM-19", medium="CellCarrier",
                       visc_model="buyukurganci-2022")
            eb = ge(deform=da, area_um=xa, temperature=23.0, **kwb)
            ea = ge(deform=da, area_um=xa, temperature=np.full(n, 23.0),
                    **kwb)
            if not np.allclose(eb, ea, equal_nan=True, rtol=1e-9):
                fails.append("built-in LUT: scalar and per-event temperature"
                             " routes differ")
            for i in range(n):
                es = ge(deform=da[i:i + 1], area_um=xa[i:i + 1],
                        temperature=23.0, **kwb)
                if not np.allclose(es, eb[i:i + 1], equal_nan=True,
                                   rtol=1e-9):
                    fails.append(
                        "built-in LUT: event (area_um=%.3f, deform=%.4f) "
                        "yields %r alone but %r as part of a batch" % (
                            xa[i], da[i], es.tolist(), eb[i:i + 1].tolist()))
                    break
        if not np.array_equal(lut, np.stack([A, D, E], axis=1)):
            fails.append("the caller's LUT array was modified")
    if not fails:
        return {"reproduced": False, "key": "not-reproduced",
                "detail": "laws hold on the real code with real scipy"}
    key = "joint-rescaling" if fails[0].startswith("joint rescaling") \
        else fails[0][:40]
    return {"reproduced": True, "key": "get_emodulus|" + key,
            "detail": fails[0]}


CANARIES = [
    dict(name="area scaled with the cube", module=EM + ".scale_linear",
         qualname="scale_area_um",
         old="area_um_corr *= (channel_width_out / channel_width_in)**2",
         new="area_um_corr *= (channel_width_out / channel_width_in)**3"),
    dict(name="pixel correction after scaling", module=EM,
         qualname="get_emodulus", old="                                       data_absc=datax,\n",
         new="                                       data_absc=datax * 2,\n"),
    dict(name="emodulus back-scaling forgets the flow rate",
         module=EM + ".scale_linear", qualname="scale_emodulus",
         old="emodulus_corr *= (flow_rate_out / flow_rate_in) \\",
         new="emodulus_corr *= 1 \\"),
    dict(name="LUT not copied", module=EM + ".load", qualname="load_lut",
         old="lut = np.array(lut, copy=True)", new="lut = lut"),
]
