"""C03 -- the combined event filter equals the specification of the current
settings, for every history.

Real code executed symbolically: Filter.update / _init_rtdc_ds / __getitem__ /
_get_rw_array / _get_ro_array / all (shadow of dclab/rtdc_dataset/filter.py)
and downsample_rand (current text of downsampling.pyx).

Inductive pattern: the pre-state (previous settings + cached per-feature box
arrays + cached polygon results + manual array) is ARBITRARY but satisfies the
representation invariant "caches agree with the previous settings"; one real
update() with arbitrary current settings; assert filter.all == stateless
specification of the current settings AND the invariant again.  One step from
an arbitrary invariant-satisfying state covers histories of any length.
"""
import itertools
import random

import numpy as np
import z3

from vf.common import real
from vf.dcsym import shadow, quiet
from vf.symnp import SArr, SymNP
from vf.symx import Engine, SBool, SFloat, SInt, SReal, tobool, toint

from harness.c16 import pyx_module, sym_np

PID = "C03"
FM = "dclab.rtdc_dataset.filter"
FUNCTIONS = [(FM, "Filter.update"), (FM, "Filter._init_rtdc_ds"),
             (FM, "Filter.__getitem__"), (FM, "Filter._get_rw_array"),
             (FM, "Filter._get_ro_array"), (FM, "Filter.reset"),
             (FM, "Filter.__init__")]
FILES = ["dclab/downsampling.pyx"]
BOUNDS = {
    "quick": {"events": 2, "range features": "area_um, deform (each: range "
              "absent/present before x absent/present now, values arbitrary "
              "reals incl. min>max, min==max, equal to data)",
              "polygon filters": "<= 2 (added/removed/kept/modified)",
              "flags": "enable, remove-invalid arbitrary before and now",
              "limit": "0..3", "data": "reals or NaN"},
    "thorough": {"events": 3, "range features": "area_um, deform",
                 "polygon filters": "<= 2", "limit": "0..4"},
}
OUTSIDE = ["point-in-polygon itself (C15): PolygonFilter.filter is an "
           "uninterpreted boolean function of (filter id, version, event)",
           "which events survive the limit (count/subset only)",
           "+-inf data", "more than two ranged features interacting",
           "a range key given without its partner (documented ValueError)",
           "hierarchy children (C04)"]
STUBS = ["numpy shim (vf/symnp.py)", "PolygonFilter.get_instance_from_id -> "
         "stub with .hash (version token), .axes, .filter",
         "rtdc_ds: features_scalar, __len__, __getitem__, identifier, "
         "config['filtering'] as a plain dict with symbolic values "
         "(ConfigurationDict's type conversion is C11)",
         "np.random.choice contract (see C16)"]
ASSUMPTIONS = ["representation invariant of the pre-state: every cached box "
               "array equals the specification of the previous range of its "
               "feature (all True if none); every cached polygon entry is "
               "(hash, result) of the polygon version current at that time "
               "for an id in the previous settings"]
EXPLANATION = "C03: inductive step of Filter.update over arbitrary settings."

FEATS = ["area_um", "deform"]
PFEATS = ["aspect", "tilt"]          # polygon axes (concrete data)


class Cfg(dict):
    pass


class TopCfg(dict):
    def copy(self):
        t = TopCfg()
        for k, v in self.items():
            c = Cfg()
            for kk, vv in v.items():
                c[kk] = list(vv) if isinstance(vv, list) else vv
            t[k] = c
        return t


def box_spec(has, lo, hi, d):
    """z3 Bool: event value d (SFloat) passes the range (lo, hi SReal)"""
    if not has:
        return z3.BoolVal(True)
    a, b = lo.e, hi.e
    mn = z3.If(a <= b, a, b)
    mx = z3.If(a <= b, b, a)
    return z3.If(a == b, z3.BoolVal(True),
                 z3.And(z3.Not(d.nan), mn <= d.v, d.v <= mx))


def poly_bit(pid, version, i):
    return z3.Bool("poly_%d_v%d_ev%d" % (pid, version, i))


class World:
    """symbolic scenario shared by the step and the specification"""

    def __init__(self, eng, p):
        self.eng, self.p = eng, p
        N = self.N = p["N"]
        self.data = {f: [eng.float("%s%d" % (f, i)) for i in range(N)]
                     for f in FEATS}
        for f in PFEATS:
            self.data[f] = [SFloat.lift(float(i)) for i in range(N)]
        self.manual = [eng.bool("manual%d" % i) for i in range(N)]
        self.cur = self._settings("cur", p["has_cur"], p["poly_cur"], False)
        self.old = self._settings("old", p["has_old"], p["poly_old"],
                                  p["fresh"])
        if p.get("limit_mode", "zero") == "zero":
            eng.assume(self.cur["limit"] == 0)
        if p.get("old_flags", "same") == "same":
            # previous flags identical to the current ones (the code only
            # uses "changed?" for range keys); "free" cases lift this
            for k in ("enable", "remove_invalid", "limit"):
                self.old[k] = self.cur[k]
        # polygon versions: old version 0; modified -> version 1
        self.ver_old = {pid: 0 for pid in p["poly_old"]}
        self.ver_cur = {pid: (1 if pid in p["poly_mod"] else 0)
                        for pid in set(p["poly_cur"]) | set(p["poly_old"])}
        for pid in self.ver_cur:       # register the uninterpreted bits
            for ver in (0, 1):
                for i in range(N):
                    eng.bool("poly_%d_v%d_ev%d" % (pid, ver, i))

    def _settings(self, tag, has, polys, fresh):
        eng = self.eng
        s = {"has": dict(zip(FEATS, has)), "polys": list(polys),
             "fresh": fresh}
        for f in FEATS:
            s[f + " min"] = eng.real("%s_%s_min" % (tag, f))
            s[f + " max"] = eng.real("%s_%s_max" % (tag, f))
        s["enable"] = eng.bool(tag + "_enable")
        s["remove_invalid"] = eng.bool(tag + "_remove_invalid")
        s["limit"] = eng.int(tag + "_limit")
        eng.assume((s["limit"] >= 0) & (s["limit"] <= self.N + 1))
        return s

    def cfg(self, s):
        c = Cfg()
        if s["fresh"]:
            return c
        for f in FEATS:
            if s["has"][f]:
                c[f + " min"] = s[f + " min"]
                c[f + " max"] = s[f + " max"]
        c["enable filters"] = s["enable"]
        c["remove invalid events"] = s["remove_invalid"]
        c["limit events"] = s["limit"]
        c["polygon filters"] = list(s["polys"])
        return c

    # ---------------------------------------------------------- the spec
    def spec_box_feat(self, s, f, i):
        return box_spec(s["has"][f] and not s["fresh"], s[f + " min"],
                        s[f + " max"], self.data[f][i])

    def spec_pre_limit(self, s, i, versions):
        box = z3.And([self.spec_box_feat(s, f, i) for f in FEATS])
        inval = z3.Implies(tobool(s["remove_invalid"]), z3.And(
            [z3.Not(self.data[f][i].nan) for f in FEATS + PFEATS]))
        poly = z3.And([poly_bit(pid, versions[pid], i)
                       for pid in s["polys"]] or [True])
        return z3.And(box, inval, poly, tobool(self.manual[i]))


class PFStub:
    def __init__(self, world, pid):
        self.w, self.pid = world, pid
        self.axes = tuple(PFEATS)
        self.unique_id = pid

    @property
    def hash(self):
        return "hash-%d-v%d" % (self.pid, self.w.ver_cur[self.pid])

    def filter(self, datax, datay):
        w = self.w
        return SArr([SBool(poly_bit(self.pid, w.ver_cur[self.pid], i))
                     for i in range(w.N)], bool)


def build(world, variant="first"):
    npx = sym_np(variant)
    mod = pyx_module(npx)

    class DSMod:
        downsample_rand = staticmethod(mod["downsample_rand"])

    class PolygonFilter:
        @staticmethod
        def get_instance_from_id(pid):
            if pid not in world.ver_cur:
                raise KeyError("PolygonFilter with unique_id {} not found."
                               .format(pid))
            return PFStub(world, pid)
    ns = shadow(FM, np=npx, downsampling=DSMod, PolygonFilter=PolygonFilter)
    return ns


class RtdcStub:
    identifier = "mm-stub"

    def __init__(self, world, cfg):
        self.w = world
        self.features_scalar = FEATS + PFEATS
        # everything but the first feature is ancillary and not computed yet
        self.features_loaded = FEATS[:1]
        self.config = TopCfg(filtering=cfg)

    def __len__(self):
        return self.w.N

    def __getitem__(self, feat):
        if feat not in self.features_loaded:    # computed once, then cached
            self.features_loaded = self.features_loaded + [feat]
        return SArr(self.w.data[feat], float)


def run_step(eng, p):
    w = World(eng, p)
    ns = build(w, p.get("variant", "first"))
    Filter = ns["Filter"]
    ds = RtdcStub(w, w.cfg(w.old))
    with quiet():
        filt = Filter(ds)            # real __init__ + reset
    N = w.N
    filt.manual = SArr(w.manual, bool)
    # ---------------- arbitrary pre-state satisfying the invariant
    if not p["fresh"]:
        filt._old_config = w.cfg(w.old)
        for f, cached in zip(FEATS, p["box_cached"]):
            if cached and f not in ds.features_loaded:
                ds.features_loaded = ds.features_loaded + [f]
            if cached:
                filt._box_filters[f] = SArr(
                    [SBool(w.spec_box_feat(w.old, f, i)) for i in range(N)],
                    bool)
        # the result array of the previous application (invalid events
        # excluded iff that was requested then)
        filt._array_props["invalid"] = SArr(
            [SBool(z3.Implies(tobool(w.old["remove_invalid"]), z3.And(
                [z3.Not(w.data[f][i].nan) for f in FEATS + PFEATS])))
             for i in range(N)], bool)
        for pid in p["poly_cached"]:
            filt._poly_filters[pid] = (
                "hash-%d-v%d" % (pid, w.ver_old[pid]),
                SArr([SBool(poly_bit(pid, w.ver_old[pid], i))
                      for i in range(N)], bool))
    if p.get("reset"):
        # the real Filter.reset() (RTDCBase.reset_filter) from this state;
        # afterwards the user edits settings and manual exclusions again
        with quiet():
            filt.reset()
        eng.prove(z3.And([tobool(m) if isinstance(m, (SBool, bool))
                          else z3.BoolVal(bool(m))
                          for m in list(filt.manual)] or [z3.BoolVal(True)]),
                  "reset: manual exclusions cleared")
        filt.manual = SArr(w.manual, bool)
    # ---------------- the step: arbitrary current settings, real update()
    ds.config = TopCfg(filtering=w.cfg(w.cur))
    with quiet():
        filt.update(ds)
    got = list(filt.all)
    eng.prove(z3.BoolVal(len(got) == N), "length")
    pre = [w.spec_pre_limit(w.cur, i, w.ver_cur) for i in range(N)]
    en = tobool(w.cur["enable"])
    lim = toint(w.cur["limit"])
    gt = [tobool(g) if isinstance(g, (SBool, bool)) else z3.BoolVal(bool(g))
          for g in got]
    npre = z3.Sum([z3.If(b, 1, 0) for b in pre])
    ngot = z3.Sum([z3.If(b, 1, 0) for b in gt])
    nolimit = z3.Or(lim <= 0, npre <= lim)
    eng.prove(z3.Implies(z3.Not(en), z3.And(gt)), "disabled => all selected")
    eng.prove(z3.Implies(z3.And(en, nolimit),
                         z3.And([g == s for g, s in zip(gt, pre)])),
              "filter.all == spec(current settings)")
    eng.prove(z3.Implies(z3.And(en, z3.Not(nolimit)),
                         z3.And(ngot == lim,
                                z3.And([z3.Implies(g, s)
                                        for g, s in zip(gt, pre)]))),
              "limit: exactly `limit` of the qualifying events")
    # ---------------- invariant re-established
    for f in FEATS:
        if f in filt._box_filters:
            arr = list(filt._box_filters[f])
            eng.prove(z3.And([tobool(a) == w.spec_box_feat(w.cur, f, i)
                              for i, a in enumerate(arr)]),
                      "invariant: cached box array == spec(current range) "
                      "[%s]" % f)
        else:
            eng.prove(z3.And([w.spec_box_feat(w.cur, f, i)
                              for i in range(N)]),
                      "invariant: missing box array means no active range "
                      "[%s]" % f)
    for pid, (h, arr) in filt._poly_filters.items():
        ok = pid in w.cur["polys"] and h == "hash-%d-v%d" % (
            pid, w.ver_cur[pid])
        eng.prove(z3.BoolVal(ok), "invariant: polygon cache entry current")
        eng.prove(z3.And([tobool(a) == poly_bit(pid, w.ver_cur[pid], i)
                          for i, a in enumerate(list(arr))]),
                  "invariant: polygon cache content")
    oc = filt._old_config
    eng.prove(z3.BoolVal(set(oc.keys()) == set(w.cfg(w.cur).keys())),
              "invariant: remembered settings == current settings")
    return "ok"


# ----------------------------------------------- polygon filter identity
class HKey:
    """hashobj stand-in: structural identity of the hashed object"""

    def __init__(self, parts):
        self.parts = parts

    def eq(self, o):
        if len(self.parts) != len(o.parts):
            return z3.BoolVal(False)
        cs = []
        for a, b in zip(self.parts, o.parts):
            if isinstance(a, str) or isinstance(b, str):
                cs.append(z3.BoolVal(a == b))
            else:
                cs.append(a == b)
        return z3.And(cs) if cs else z3.BoolVal(True)


def _flatten_hash(obj):
    from vf.symx import toreal
    if isinstance(obj, (list, tuple)):
        out = ["["]
        for x in obj:
            out += _flatten_hash(x)
        return out + ["]"]
    if isinstance(obj, (SArr,)) or hasattr(obj, "rows"):
        rows = obj.rows if hasattr(obj, "rows") else [list(obj)]
        out = ["arr%d" % len(rows)]
        for r in rows:
            out += [toreal(v) for v in (r if isinstance(r, list)
                                        else list(r))]
        return out
    if isinstance(obj, (SBool, bool)):
        return [tobool(obj)]
    if isinstance(obj, str):
        return [obj]
    return [toreal(obj)]


def run_pfhash(eng, p):
    """Filter.update decides by `pf.hash` whether a cached polygon result is
    stale: the hash of the real PolygonFilter must change whenever axes,
    points or the inversion flag change"""
    from vf.symnp import SMat
    PF = "dclab.polygon_filter"
    ns = shadow(PF, np=SymNP(), hashobj=lambda o: HKey(_flatten_hash(o)))
    cls = ns["PolygonFilter"]
    pf = cls.__new__(cls)
    n = 3

    def state(tag):
        ax = AXES[p[tag + "_axes"]]
        pts = [[eng.real("%s_x%d" % (tag, i)), eng.real("%s_y%d" % (tag, i))]
               for i in range(n)]
        inv = eng.bool(tag + "_inverted")
        return ax, pts, inv

    def install(st):
        ax, pts, inv = st
        pf.axes = ax
        pf.points = SMat([list(r) for r in pts], float)
        pf.inverted = inv
    s1, s2 = state("s1"), state("s2")
    install(s1)
    with quiet():
        h1 = pf.hash
    install(s2)
    with quiet():
        h2 = pf.hash
    same_state = z3.And([z3.BoolVal(tuple(s1[0]) == tuple(s2[0]))] + [
        a.e == b.e for r1, r2 in zip(s1[1], s2[1]) for a, b in zip(r1, r2)]
        + [s1[2].e == s2[2].e])
    eng.prove(z3.Implies(h1.eq(h2), same_state),
              "PolygonFilter.hash: equal hashes only for equal axes, points "
              "and inversion (otherwise Filter.update keeps a stale polygon "
              "result)")
    eng.prove(z3.Implies(same_state, h1.eq(h2)),
              "PolygonFilter.hash: equal settings give equal hashes")
    return "ok"


AXES = {"ad": ("area_um", "deform"), "da": ("deform", "area_um"),
        "ab": ("area_um", "bright_avg")}


def run_case(name, params):
    eng = Engine(timeout_ms=30000)
    if params.get("kind") == "pfhash":
        eng.explore(lambda e: run_pfhash(e, params))
    else:
        eng.explore(lambda e: run_step(e, params))
    return eng.stats()


def cases(tier, seed):
    out = []
    N = 2 if tier == "quick" else 3
    rnd = random.Random(seed)
    for a1, a2 in (("ad", "ad"), ("ad", "da"), ("ad", "ab")):
        out.append(("polygon hash axes %s -> %s" % (a1, a2),
                    dict(kind="pfhash", s1_axes=a1, s2_axes=a2, N=N)))
    # fresh filter (no previous settings)
    for has_cur in itertools.product([False, True], repeat=2):
        for polys in ([], [5]):
            out.append(("fresh cur=%s polys=%s" % (has_cur, polys), dict(
                N=N, fresh=True, has_old=[False, False], has_cur=list(
                    has_cur), box_cached=[False, False], poly_old=[],
                poly_cur=polys, poly_mod=[], poly_cached=[])))
    # range transitions for both features, no polygons
    for has_old in itertools.product([False, True], repeat=2):
        for has_cur in itertools.product([False, True], repeat=2):
            # cache present iff the feature was filtered before; plus the
            # "present although no range" flavour (reachable: set, apply,
            # set min==max / remove, apply)
            flavours = {tuple(has_old), (True, True)}
            for bc in sorted(flavours):
                out.append(("range old=%s cur=%s cached=%s" % (
                    has_old, has_cur, bc), dict(
                    N=N, fresh=False, has_old=list(has_old),
                    has_cur=list(has_cur), box_cached=list(bc), poly_old=[],
                    poly_cur=[], poly_mod=[], poly_cached=[])))
    # reset between two applications (ranges / polygon set again afterwards)
    for has_old, has_cur, po, pc in (
            ([True, False], [True, False], [], []),
            ([True, True], [False, True], [], []),
            ([True, False], [True, False], [5], [5]),
            ([False, False], [True, True], [5], [])):
        out.append(("reset old=%s cur=%s polys %s -> %s" % (
            has_old, has_cur, po, pc), dict(
            N=N, fresh=False, has_old=has_old, has_cur=has_cur,
            box_cached=has_old, poly_old=po, poly_cur=pc, poly_mod=[],
            poly_cached=po, reset=True)))
    # previous flags arbitrary / event limit arbitrary (simple ranges)
    for has_old, has_cur in (([True, False], [True, False]),
                             ([True, False], [False, False]),
                             ([False, False], [True, False])):
        out.append(("flags-free old=%s cur=%s" % (has_old, has_cur), dict(
            N=N, fresh=False, has_old=has_old, has_cur=has_cur,
            box_cached=has_old, poly_old=[], poly_cur=[], poly_mod=[],
            poly_cached=[], old_flags="free")))
        out.append(("limit-free old=%s cur=%s" % (has_old, has_cur), dict(
            N=N, fresh=False, has_old=has_old, has_cur=has_cur,
            box_cached=has_old, poly_old=[], poly_cur=[], poly_mod=[],
            poly_cached=[], limit_mode="free")))
    out.append(("limit-free fresh", dict(
        N=N, fresh=True, has_old=[False, False], has_cur=[True, False],
        box_cached=[False, False], poly_old=[], poly_cur=[5], poly_mod=[],
        poly_cached=[], limit_mode="free")))
    # polygon transitions (with one ranged feature kept)
    ptrans = [([], [5], [], []), ([5], [5], [], [5]), ([5], [5], [5], [5]),
              ([5], [], [], [5]), ([5], [7], [], [5]),
              ([5, 7], [7], [], [5, 7]), ([5, 7], [5, 7], [7], [5, 7]),
              ([5], [5, 7], [5], [5]), ([5], [5], [], [])]
    for po, pc, pm, pcached in ptrans:
        for has in ([False, False], [True, False]):
            out.append(("poly old=%s cur=%s mod=%s cached=%s has=%s" % (
                po, pc, pm, pcached, has), dict(
                N=N, fresh=False, has_old=has, has_cur=has,
                box_cached=has, poly_old=po, poly_cur=pc, poly_mod=pm,
                poly_cached=pcached)))
    rnd.shuffle(out)
    return out


# ------------------------------------------------------------------ replay
def _fv(vals, name):
    if vals.get(name + ".nan"):
        return float("nan")
    return float(vals.get(name + ".v", 0))


_RN = {}      # replay: harness feature name -> name used in the real dataset


def rn(f):
    return _RN.get(f, f)


def _apply_settings(ds, p, vals, tag, has, polys, pfs):
    cfg = ds.config["filtering"]
    for f, h in zip(FEATS, has):
        if h:
            cfg[rn(f) + " min"] = float(vals.get("%s_%s_min" % (tag, f), 0))
            cfg[rn(f) + " max"] = float(vals.get("%s_%s_max" % (tag, f), 0))
        else:
            cfg.pop(rn(f) + " min", None)
            cfg.pop(rn(f) + " max", None)
    cfg["enable filters"] = bool(vals.get(tag + "_enable", False))
    cfg["remove invalid events"] = bool(vals.get(tag + "_remove_invalid",
                                                 False))
    cfg["limit events"] = int(vals.get(tag + "_limit", 0))
    cfg["polygon filters"] = [pfs[pid].unique_id for pid in polys]


def _poly_points(inside):
    """a polygon (even-odd) containing exactly the grid points (i, i) for i
    in `inside`: small squares joined through a far-away hub"""
    pts = [(-10.0, -10.0)]
    for i in sorted(inside):
        pts += [(i - .25, i - .25), (i + .25, i - .25), (i + .25, i + .25),
                (i - .25, i + .25), (i - .25, i - .25), (-10.0, -10.0)]
    if len(pts) < 3:
        pts = [(-10.0, -10.0), (-11.0, -10.0), (-11.0, -11.0)]
    return np.array(pts)


def replay_pfhash(p, vals):
    from dclab.polygon_filter import PolygonFilter

    def pts(tag):
        return [[float(vals.get("%s_x%d" % (tag, i), i) or 0),
                 float(vals.get("%s_y%d" % (tag, i), i * i) or 0)]
                for i in range(3)]
    with quiet():
        pf = PolygonFilter(axes=AXES[p["s1_axes"]], points=pts("s1"),
                           inverted=bool(vals.get("s1_inverted", False)),
                           unique_id=4711)
        try:
            h1 = pf.hash
            pf.axes = AXES[p["s2_axes"]]
            pf.points = pts("s2")
            pf.inverted = bool(vals.get("s2_inverted", False))
            h2 = pf.hash
            changed = (AXES[p["s1_axes"]] != AXES[p["s2_axes"]] or
                       pts("s1") != pts("s2") or
                       bool(vals.get("s1_inverted", False)) !=
                       bool(vals.get("s2_inverted", False)))
        finally:
            PolygonFilter.remove(4711)
    if changed and h1 == h2:
        return {"reproduced": True, "key": "PolygonFilter.hash|unchanged-"
                "after-edit", "detail": "hash unchanged after the edit "
                "axes %s -> %s, points %r -> %r" % (
                    AXES[p["s1_axes"]], AXES[p["s2_axes"]], pts("s1"),
                    pts("s2"))}
    if not changed and h1 != h2:
        return {"reproduced": True, "key": "PolygonFilter.hash|unstable",
                "detail": "hash differs for identical settings"}
    return {"reproduced": False, "key": "not-reproduced",
            "detail": "hash follows the settings on the real code"}


def replay(case, params, v):
    """replay on an in-memory dataset; when that does not reproduce, once
    more with the second feature provided lazily (a plugin feature that is
    available but not computed yet, as ancillary features are)"""
    if params.get("kind") == "pfhash":
        return replay_pfhash(params, v.get("values") or {})
    r = _replay(params, v, lazy=False)
    if not r["reproduced"]:
        r2 = _replay(params, v, lazy=True)
        if r2["reproduced"]:
            r2["detail"] += " [%s is a plugin feature not computed before " \
                "the filter is applied]" % FEATS[1]
            return r2
    return r


def _replay(params, v, lazy):
    import dclab
    from dclab.polygon_filter import PolygonFilter
    from dclab.rtdc_dataset.feat_anc_plugin import plugin_feature as PF
    vals = v.get("values") or {}
    p = params
    N = p["N"]
    _RN.clear()
    plug = None
    data = {f: np.array([_fv(vals, "%s%d" % (f, i)) for i in range(N)])
            for f in FEATS}
    for f in PFEATS:
        data[f] = np.arange(N, dtype=float)
    manual = np.array([bool(vals.get("manual%d" % i, False))
                       for i in range(N)])

    # a stale cache entry of a polygon that selects every event cannot be
    # observed; the breach of that invariant does not depend on the polygon's
    # content, so the witness uses polygons that exclude the events
    stale_witness = str(v.get("what", "")).startswith(
        "invariant: polygon cache entry current")

    def pbit(pid, ver, i):
        if stale_witness and pid not in params["poly_cur"]:
            return False
        return bool(vals.get("poly_%d_v%d_ev%d" % (pid, ver, i), False))
    # model values of uninterpreted polygon bits are not in `values`
    # (only registered vars are); treat missing as False and make the
    # polygons accordingly
    allp = sorted(set(p["poly_old"]) | set(p["poly_cur"]))
    created = []
    fails = []
    with quiet():
        try:
            if lazy:
                lname = "verif_c03_lazy"
                _RN[FEATS[1]] = lname
                lvals = data[FEATS[1]]
                plug = PF.PlugInFeature(lname, {
                    "method": lambda ds_: {lname: lvals.copy()},
                    "feature names": [lname], "scalar feature": [True]})
                ds = dclab.new_dataset({k: x for k, x in data.items()
                                        if k != FEATS[1]})
            else:
                ds = dclab.new_dataset(data)
            pfs = {}
            for pid in allp:
                inside0 = [i for i in range(N) if pbit(pid, 0, i)]
                pf = PolygonFilter(axes=tuple(PFEATS),
                                   points=_poly_points(inside0),
                                   unique_id=4200 + pid)
                created.append(pf)
                pfs[pid] = pf
            ds.filter.manual[:] = manual
            steps = []
            if not p["fresh"]:
                # flavour "cache present although no range": range first
                pre_has = [bc or h for bc, h in zip(p["box_cached"],
                                                    p["has_old"])]
                if pre_has != list(p["has_old"]):
                    steps.append(("pre", pre_has, p["poly_old"]))
                steps.append(("old", p["has_old"], p["poly_old"]))
            if p.get("reset"):
                steps.append(("reset", [], []))
            steps.append(("cur", p["has_cur"], p["poly_cur"]))
            observe = str(v.get("what", "")).startswith("invariant")
            if observe:
                # make the (hidden) cache state observable: one more apply
                # with everything else switched off
                steps.append(("obs", p["has_cur"], []))
            for tag, has, polys in steps:
                t = "old" if tag == "pre" else tag
                if tag == "reset":
                    ds.reset_filter()
                    ds.filter.manual[:] = manual
                    continue
                if tag == "obs":
                    cfg = ds.config["filtering"]
                    cfg["enable filters"] = True
                    cfg["remove invalid events"] = False
                    cfg["limit events"] = 0
                    cfg["polygon filters"] = []
                    for f in FEATS:   # neutralise the other ranges
                        if "[%s]" % f not in str(v.get("what")) and \
                                rn(f) + " min" in cfg:
                            cfg[rn(f) + " min"] = 0.0
                            cfg[rn(f) + " max"] = 0.0
                    ds.filter.manual[:] = True
                    manual = np.ones(N, dtype=bool)
                    p = dict(p, poly_cur=[])
                    ds.apply_filter()
                    continue
                if tag == "cur":
                    for pid in p["poly_mod"]:
                        inside1 = [i for i in range(N) if pbit(pid, 1, i)]
                        pfs[pid].points = _poly_points(inside1)
                _apply_settings(ds, p, vals, t, has, polys, pfs)
                if tag == "pre":
                    for f, h in zip(FEATS, has):
                        if h:
                            ds.config["filtering"][rn(f) + " min"] = 0.0
                            ds.config["filtering"][rn(f) + " max"] = 1.0
                ds.apply_filter()
            got = np.array(ds.filter.all, dtype=bool)
            cfg = ds.config["filtering"]
            # stateless specification (numpy)
            exp = np.ones(N, dtype=bool)
            for f, h in zip(FEATS, p["has_cur"]):
                if h:
                    a, b = cfg[rn(f) + " min"], cfg[rn(f) + " max"]
                    if a != b:
                        lo, hi = min(a, b), max(a, b)
                        d = data[f]
                        exp &= ~np.isnan(d) & (np.nan_to_num(d) >= lo) & \
                            (np.nan_to_num(d) <= hi)
            if cfg["remove invalid events"]:
                for f in FEATS:
                    exp &= ~np.isnan(data[f])
            for pid in p["poly_cur"]:
                ver = 1 if pid in p["poly_mod"] else 0
                exp &= np.array([pbit(pid, ver, i) for i in range(N)])
            exp &= manual
            if not cfg["enable filters"]:
                if not got.all():
                    fails.append("filters disabled but events excluded: %r"
                                 % got.tolist())
            else:
                lim = cfg["limit events"]
                if lim > 0 and exp.sum() > lim:
                    if got.sum() != lim or np.any(got & ~exp):
                        fails.append("limit %d: selected %r, qualifying %r"
                                     % (lim, got.tolist(), exp.tolist()))
                elif not np.array_equal(got, exp):
                    fails.append(
                        "filter.all = %r but the current settings specify %r"
                        " (history: %s; data %r; settings %r)" % (
                            got.tolist(), exp.tolist(),
                            " -> ".join("%s%s" % (t, list(h))
                                        for t, h, _ in steps),
                            {f: data[f].tolist() for f in FEATS},
                            {k: cfg[k] for k in cfg}))
        except Exception as e:
            fails.append("history raised %r" % (e,))
        finally:
            for pf in created:
                try:
                    PolygonFilter.remove(pf.unique_id)
                except Exception:
                    pass
            if plug is not None:
                PF.remove_plugin_feature(plug)
            _RN.clear()
    if not fails:
        return {"reproduced": False, "key": "not-reproduced",
                "detail": "history passes on the real code: %r %r" % (
                    params, vals)}
    return {"reproduced": True, "key": classify(fails[0], p),
            "detail": fails[0]}


def classify(msg, p):
    removed = [f for f, a, b in zip(FEATS, p["has_old"], p["has_cur"])
               if a and not b]
    if removed and "raised" not in msg:
        return "Filter.update|range-keys-removed|stale-box-filter"
    if "limit" in msg:
        return "Filter.update|limit-events|wrong-count"
    if "raised" in msg:
        return "Filter.update|exception|" + msg[15:60]
    return "Filter.update|filter.all-differs-from-spec"


CANARIES = [
    dict(name="exclusive upper bound", module=FM, qualname="Filter.update",
         old="feat_filt[idx] &= data[idx] <= ivalend",
         new="feat_filt[idx] &= data[idx] < ivalend"),
    dict(name="no swap of reversed range", module=FM,
         qualname="Filter.update",
         old="ivalstart, ivalend = ivalend, ivalstart", new="pass"),
    dict(name="polygon cache ignores hash", module=FM,
         qualname="Filter.update",
         old="or pf.hash != self._poly_filters[pf_id][0]):",
         new="or False):"),
    dict(name="manual exclusions dropped", module=FM,
         qualname="Filter.update",
         old="arr_box & arr_invalid & arr_polygon & self.manual",
         new="arr_box & arr_invalid & arr_polygon"),
    dict(name="NaN passes the range", module=FM, qualname="Filter.update",
         old="feat_filt[disnan] = False", new="pass"),
]
