"""C14 -- basins are only followed when matching, acyclic and permitted.

Real code executed: RTDCBase.basins_retrieve / basins / features_basin /
ignore_basins / _get_basin_feature_data / __getitem__ / __contains__ /
get_measurement_identifier (shadow of core.py) and Basin.__init__ / ds /
features / verify_basin / get_feature_data / load_dataset / BasinProxy
(shadow of feat_basin.py), over a stub universe of files: who names whom as
a basin, run identifiers, formats and availability are symbolic decisions.
"""
import itertools
import random
import types
import warnings

import numpy as np
import z3

from vf.common import real
from vf.dcsym import shadow, quiet
from vf.symx import Engine, SBool

PID = "C14"
CORE = "dclab.rtdc_dataset.core"
FB = "dclab.rtdc_dataset.feat_basin"
HB = "dclab.rtdc_dataset.fmt_hdf5.basin"
FUNCTIONS = [(CORE, "RTDCBase.basins_retrieve"), (CORE, "RTDCBase.basins"),
             (CORE, "RTDCBase.features_basin"),
             (CORE, "RTDCBase.ignore_basins"),
             (CORE, "RTDCBase._get_basin_feature_data"),
             (CORE, "RTDCBase.get_measurement_identifier"),
             (FB, "Basin.__init__"), (FB, "Basin.ds"), (FB, "Basin.features"),
             (FB, "Basin.verify_basin"), (FB, "Basin.get_feature_data"),
             (FB, "Basin._assert_measurement_identifier"),
             (FB, "Basin.load_dataset"), (FB, "basin_priority_sorted_key")]
BOUNDS = {
    "quick": {"files": 3, "basin references": "every subset of 6 ordered "
              "pairs (self reference, 2- and 3-cycles, diamond)",
              "run identifiers": "referrer in {absent, 'ab-c'}; others in "
              "{absent, equal, proper prefix, extension, unrelated, "
              "non-prefix substring} (identifiers are lower-cased by the "
              "configuration, so case variants are equal)",
              "mapping": "same / mapped (basinmap0)",
              "formats": "root local or remote; targets local-file or remote",
              "availability": "every target available or not"},
    "thorough": {"files": 4, "basin references": "all subsets of 7 selected "
                 "ordered pairs over 4 files (chain, diamond, 2-/3-/4-cycles, "
                 "self reference)"},
}
OUTSIDE = ["real HTTP/S3/DCOR access", "path resolution on a real file "
           "system (absolute/relative is a stub)", "more files than the "
           "bound", "internal basins (C07)"]
STUBS = ["the permission flag of a format = the value the real "
         "RTDC_HDF5.__init__ assigns to a class of that format name (run "
         "concretely on a tiny file)",
         "dataset universe: UDS(RTDCBase) with the real basin methods, "
         "innate features as small arrays tagged with their file",
         "Basin subclasses for 'file/hdf5' and 'remote/http' whose "
         "_load_dataset opens a UDS; availability = symbolic bit",
         "BasinAvailabilityChecker thread -> no-op", "pathlib.Path -> stub"]
ASSUMPTIONS = ["a referrer without run identifier cannot verify its basins "
               "(documented: no checks are performed)",
               "termination budget: <= 200 dataset openings per scenario"]
EXPLANATION = "C14: basin graph walk over a symbolic file universe."

REF_ID = "ab-c"
ID_OPTS = [None, "ab-c", "ab", "ab-cd", "xy", "b-c"]
UNIQUE = ["deform", "area_um", "bright_avg", "tilt"]
BUDGET = 200


class Budget(BaseException):
    pass


_PERM = {}


def local_basins_allowed(fmt):
    """run the real RTDC_HDF5.__init__ (the base of the http / s3 / dcor
    formats) on a tiny real file for a class whose format name is `fmt` and
    read the flag it sets"""
    if fmt not in _PERM:
        import os
        import tempfile
        import h5py
        from dclab.rtdc_dataset.fmt_hdf5 import RTDC_HDF5
        cls = RTDC_HDF5 if fmt == "hdf5" else type(
            "RTDC_" + fmt.upper(), (RTDC_HDF5,), {})
        with tempfile.TemporaryDirectory(prefix="verif_c14_") as td:
            pth = os.path.join(td, "t.rtdc")
            with h5py.File(pth, "w") as h:
                h.create_dataset("events/deform", data=np.linspace(.1, .2, 3))
                h.attrs["setup:software version"] = "dclab 0.62.7"
                h.attrs["experiment:event count"] = 3
            with quiet():
                ds = cls(pth)
                try:
                    assert ds.format == fmt
                    _PERM[fmt] = bool(ds._local_basins_allowed)
                finally:
                    ds.close()
    return _PERM[fmt]


def build(world):
    class NoThread:
        def __init__(self, basin, *a, **k):
            pass

        def start(self):
            pass

        def join(self, t=None):
            pass

    class UPath:
        def __init__(self, s):
            self.s = s.s if isinstance(s, UPath) else str(s)

        def exists(self):
            return self.s in world["files"] and \
                world["files"][self.s]["avail"]

        @property
        def parent(self):
            return UPath("")

        def __truediv__(self, o):
            return UPath(o)

        def __str__(self):
            return self.s

        def __fspath__(self):
            return self.s

        def resolve(self):
            return self

    class pathlib_shim:
        Path = UPath

    fbns = shadow(FB, BasinAvailabilityChecker=NoThread)
    fb = types.SimpleNamespace(**fbns)
    corens = shadow(CORE, feat_basin=fb, pathlib=pathlib_shim)
    RTDCBase = corens["RTDCBase"]
    from dclab.rtdc_dataset.config import Configuration

    class UDS(RTDCBase):
        def __init__(self, name, **kw):
            world["openings"] += 1
            if world["openings"] > BUDGET:
                raise Budget()
            RTDCBase.__init__(self, **kw)
            spec = world["files"][name]
            self.spec, self.name = spec, name
            self.format = spec["fmt"]
            # the permission flag is whatever the REAL constructor of the
            # HDF5-based formats assigns for this format name
            self._local_basins_allowed = local_basins_allowed(spec["fmt"])
            self.path = name
            self.title = name
            self.config = Configuration()
            if spec["rid"] is not None:
                self.config["experiment"].data["run identifier"] = spec["rid"]
            k = spec["k"]
            self._events = {f: np.arange(3) + 100 * k + 10 * i
                            for i, f in enumerate(spec["feats"])}
            self._events["basinmap0"] = np.array([0, 2, 1])

        hash = "h"

        def basins_get_dicts(self):
            return [dict(b) for b in self.spec["basins"]]

        def basins_retrieve(self):
            world["stack"].append(self)
            try:
                return RTDCBase.basins_retrieve(self)
            finally:
                world["stack"].pop()

        def close(self):
            pass

    Basin = fbns["Basin"]
    # the REAL availability check of file basins (HDF5Basin.is_available),
    # with module-level state private to this world
    hbns = shadow(HB, pathlib=pathlib_shim)
    for k_, v_ in list(hbns.items()):
        if isinstance(v_, (set, dict, list)) and not k_.startswith("__"):
            hbns[k_] = type(v_)()
    real_is_available = hbns["HDF5Basin"].__dict__["is_available"]

    class UBasinFile(Basin):
        basin_format = "hdf5"
        basin_type = "file"

        def __init__(self, *a, **k):
            creator = world["stack"][-1] if world["stack"] else None
            if creator is not None and creator.spec["fmt"] != "hdf5":
                world["isolation"].append(
                    "file-type basin object created by the %s dataset %s" % (
                        creator.spec["fmt"], creator.name))
            self._available_verified = None
            Basin.__init__(self, *a, **k)

        def _load_dataset(self, location, **kw):
            return UDS(str(location), **kw)

        is_available = real_is_available

    class UBasinHTTP(Basin):
        basin_format = "http"
        basin_type = "remote"

        def _load_dataset(self, location, **kw):
            return UDS(str(location), **kw)

        def is_available(self):
            n = str(self.location)
            return n in world["files"] and world["files"][n]["avail"]

    fb.get_basin_classes = lambda: {"hdf5": UBasinFile, "http": UBasinHTTP}
    return UDS


def pick(eng, name, opts):
    for i, o in enumerate(opts[:-1]):
        if bool(eng.bool("%s_is_%d" % (name, i))):
            return o
    return opts[-1]


def hop_ok(ref, tgt, mapping):
    """specification of one basin hop"""
    if not tgt["avail"]:
        return False
    if tgt["fmt"] == "hdf5" and ref["fmt"] != "hdf5":
        return False            # local basin through a remote dataset
    if ref["rid"] is None:
        return True             # nothing to verify against
    if tgt["rid"] is None:
        return False
    if mapping == "same":
        return tgt["rid"] == ref["rid"]
    return ref["rid"].startswith(tgt["rid"])


def run(eng, p):
    nf = p["nfiles"]
    edges = [tuple(e) for e in p["edges"]]
    world = {"files": {}, "openings": 0, "stack": [], "isolation": []}
    UDS = build(world)
    rids = [p["rid0"]] + [p["rids"][k - 1] if k - 1 < len(p["rids"])
                          else REF_ID for k in range(1, nf)]
    fmts = [p["fmt0"]] + [pick(eng, "fmt%d" % k, ["hdf5", "http"])
                          for k in range(1, nf)]
    avail = [True] + [bool(eng.bool("avail%d" % k)) for k in range(1, nf)]
    adj = {e: bool(eng.bool("e%d%d" % e)) for e in edges}
    for k in range(nf):
        bas = []
        for (i, j) in edges:
            if i == k and adj[(i, j)]:
                d = {"name": "b%d%d" % (i, j), "key": "key%d%d" % (i, j),
                     "mapping": "same" if p["mapping"] == "same"
                     else "basinmap0"}
                if fmts[j] == "hdf5" and p.get("mislabel"):
                    # a definition that CLAIMS to be remote but names the
                    # local-file basin format (wrong or malicious file)
                    d.update(type="remote", format="hdf5", urls=["f%d" % j])
                elif fmts[j] == "hdf5":
                    d.update(type="file", format="hdf5", paths=["f%d" % j])
                else:
                    d.update(type="remote", format="http", urls=["f%d" % j])
                bas.append(d)
        world["files"]["f%d" % k] = dict(
            fmt=fmts[k], rid=rids[k], basins=bas, avail=avail[k], k=k,
            feats=["deform", UNIQUE[k]] if k else ["deform"])
    try:
        with quiet():
            ds = UDS("f0")
            fbas = list(ds.features_basin)
            got = {}
            for f in fbas:
                if f not in ds._events:
                    got[f] = ds[f]
            contains = {UNIQUE[k]: (UNIQUE[k] in ds) for k in range(1, nf)}
    except Budget:
        eng.fail("termination: more than %d dataset openings" % BUDGET)
        return "budget"
    eng.reach()
    F = world["files"]
    mp = p["mapping"]
    # sound reachability (specification): valid hops only
    reach = {0}
    frontier = [0]
    while frontier:
        i = frontier.pop()
        for (a, b) in edges:
            if a == i and adj[(a, b)] and b not in reach and \
                    hop_ok(F["f%d" % a], F["f%d" % b], mp):
                reach.add(b)
                frontier.append(b)
    for k in range(1, nf):
        f = UNIQUE[k]
        eng.prove(z3.BoolVal(True), "scenario-checked")
        if p.get("mislabel"):
            continue      # only isolation / termination are specified
        if f in fbas and k not in reach:
            eng.fail("feature of f%d offered although no chain of matching, "
                     "available, permitted basins leads to it" % k,
                     detail="ids=%r fmts=%r avail=%r edges=%r mapping=%s" % (
                         rids, fmts, avail,
                         [e for e in edges if adj[e]], mp))
        if f in got:
            exp = np.arange(3) + 100 * k + 10
            if mp != "same":
                pass        # composition of maps along the chain: C07
            elif not np.array_equal(np.asarray(got[f]), exp):
                eng.fail("wrong data for feature of f%d" % k)
        if contains[f] != (f in fbas):
            eng.fail("`in` disagrees with features_basin for f%d" % k)
    # completeness for a direct, valid, available basin
    if (0, 1) in adj and adj[(0, 1)] and hop_ok(F["f0"], F["f1"], mp) and \
            UNIQUE[1] not in fbas and not p.get("mislabel"):
        eng.fail("direct matching basin f1 is not offered",
                 detail="ids=%r fmts=%r mapping=%s" % (rids, fmts, mp))
    for msg in world["isolation"]:
        eng.fail("isolation: " + msg)
    return ("ok", tuple(fbas), world["openings"])


def run_multi(eng, p):
    """one basin definition with TWO candidate locations: the basin resolves
    to the first location that holds an available, matching, permitted file
    (a non-matching file at the first location must not hide the second)"""
    world = {"files": {}, "openings": 0, "stack": [], "isolation": []}
    UDS = build(world)
    rid1 = pick(eng, "rid1", ID_OPTS)
    avail = [True, bool(eng.bool("avail1")), bool(eng.bool("avail2"))]
    rids = [REF_ID, rid1, REF_ID]
    mp = "same" if p["mapping"] == "same" else "basinmap0"
    bas = [{"name": "b", "key": "key012", "mapping": mp, "type": "file",
            "format": "hdf5", "paths": ["f1", "f2"]}]
    for k in range(3):
        world["files"]["f%d" % k] = dict(
            fmt="hdf5", rid=rids[k], basins=bas if k == 0 else [],
            avail=avail[k], k=k,
            feats=["deform", UNIQUE[k]] if k else ["deform"])
    with quiet():
        ds = UDS("f0")
        fbas = list(ds.features_basin)
    eng.reach()
    F = world["files"]
    first = None
    for k in (1, 2):
        if hop_ok(F["f0"], F["f%d" % k], p["mapping"]):
            first = k
            break
    for k in (1, 2):
        exp = (k == first)
        eng.prove(z3.BoolVal((UNIQUE[k] in fbas) == exp),
                  "multi-location basin resolves to the first matching "
                  "location", info={"rid of first location": rids[1],
                                    "available": avail[1:],
                                    "offered": fbas, "expected file": first})
    return "ok"


def run_vanish(eng, p):
    """history within one session: the basin file is present (or not) when
    the referrer is opened first, present (or not) when it is opened again;
    the second dataset offers the basin's features iff the file is reachable
    THEN"""
    world = {"files": {}, "openings": 0, "stack": [], "isolation": []}
    UDS = build(world)
    mp = "same" if p["mapping"] == "same" else "basinmap0"
    bas = [{"name": "b", "key": "key01", "mapping": mp, "type": "file",
            "format": "hdf5", "paths": ["f1"]}]
    first = bool(eng.bool("present_first"))
    then = bool(eng.bool("present_then"))
    for k in range(2):
        world["files"]["f%d" % k] = dict(
            fmt="hdf5", rid=REF_ID, basins=bas if k == 0 else [],
            avail=True if k == 0 else first, k=k,
            feats=["deform", UNIQUE[k]] if k else ["deform"])
    with quiet():
        ds = UDS("f0")
        fb1 = list(ds.features_basin)
        world["files"]["f1"]["avail"] = then
        ds2 = UDS("f0")
        fb2 = list(ds2.features_basin)
    eng.reach()
    eng.prove(z3.BoolVal((UNIQUE[1] in fb1) == first),
              "basin features offered iff the basin file is reachable")
    eng.prove(z3.BoolVal((UNIQUE[1] in fb2) == then),
              "re-opened referrer: basin features offered iff the basin file "
              "is reachable at that time",
              info={"present at first opening": first,
                    "present at second opening": then, "offered": fb2})
    return "ok"


def run_case(name, params):
    eng = Engine(timeout_ms=10000, max_paths=400000)
    if params.get("vanish"):
        eng.explore(lambda e: run_vanish(e, params))
        return eng.stats()
    if params.get("multi"):
        eng.explore(lambda e: run_multi(e, params))
    else:
        eng.explore(lambda e: run(e, params))
    return eng.stats()


def cases(tier, seed):
    out = []
    if tier == "quick":
        nf = 3
        edges = [(0, 1), (1, 2), (2, 0), (1, 0), (0, 0), (0, 2)]
        rid_sets = [[a, b] for a in ID_OPTS for b in (None, "ab-c")]
    else:
        nf = 4
        # 7 reference edges over 4 files (chain, diamond, 2-/3-/4-cycles,
        # self reference); sized so that the thorough run stays below ~20 min
        edges = [(0, 1), (1, 2), (2, 3), (3, 0), (0, 2), (2, 1), (0, 0)]
        rid_sets = [[a, b, "ab-c"] for a in ID_OPTS
                    for b in (None, "ab-c", "ab")]
    for rid0 in (None, REF_ID):
        for rids in rid_sets:
            for mapping in ("same", "mapped"):
                for fmt0 in ("hdf5", "http"):
                    out.append(("rid0=%s rids=%s %s root=%s" % (
                        rid0, rids, mapping, fmt0), dict(
                        nfiles=nf, edges=edges, rid0=rid0, rids=rids,
                        mapping=mapping, fmt0=fmt0)))
    for mapping in ("same", "mapped"):
        out.append(("basin file vanishes / appears between two openings %s"
                    % mapping, dict(vanish=True, mapping=mapping, nfiles=2,
                                    edges=[], rid0=REF_ID, rids=[],
                                    fmt0="hdf5")))
    for mapping in ("same", "mapped"):
        out.append(("multi-location basin %s" % mapping,
                    dict(multi=True, mapping=mapping, nfiles=3, edges=[],
                         rid0=REF_ID, rids=[], fmt0="hdf5")))
    for fmt0 in ("hdf5", "http"):
        for mapping in ("same", "mapped"):
            out.append(("mislabelled basin type rid0=%s %s root=%s" % (
                REF_ID, mapping, fmt0), dict(
                nfiles=nf, edges=edges, rid0=REF_ID,
                rids=[REF_ID] * (nf - 1), mapping=mapping, fmt0=fmt0,
                mislabel=True)))
    random.Random(seed).shuffle(out)
    return out


# ------------------------------------------------------------------ replay
def replay(case, params, v):
    """the same scenario with real .rtdc files on disk (local formats only:
    remote members are replayed as absent files)"""
    import os
    import tempfile
    import h5py
    import dclab
    import dclab.rtdc_dataset.writer as W
    vals = v.get("values") or {}
    p = params
    nf = p["nfiles"]
    edges = [tuple(e) for e in p["edges"]]
    adj = {e: bool(vals.get("e%d%d" % e, False)) for e in edges}
    fmts = [p["fmt0"]]
    for k in range(1, nf):
        fmts.append("hdf5" if vals.get("fmt%d_is_0" % k, False) else "http")
    avail = [True] + [bool(vals.get("avail%d" % k, False))
                      for k in range(1, nf)]
    rids = [p["rid0"]] + [p["rids"][k - 1] if k - 1 < len(p["rids"])
                          else REF_ID for k in range(1, nf)]
    what = str(v.get("what", ""))
    if p.get("mislabel"):
        return _replay_mislabel(p)
    if p.get("vanish"):
        return _replay_vanish(p, vals)
    if p.get("multi"):
        return _replay_multi(p, vals)
    if "isolation" in what or p["fmt0"] != "hdf5" or \
            any(f != "hdf5" for f in fmts):
        # needs a non-local dataset format: replay on the stub universe
        # with the UNSHADOWED real classes is not possible offline ->
        # use the symbolic scenario itself as the witness
        return _replay_stub(p, vals, what)
    fails = []
    old_version = W.version
    W.version = "0.62.7"
    try:
        with tempfile.TemporaryDirectory(prefix="verif_c14_") as td, quiet():
            paths = [os.path.join(td, "f%d.rtdc" % k) for k in range(nf)]
            for k in range(nf):
                if not avail[k]:
                    continue
                with W.RTDCWriter(paths[k], mode="reset") as hw:
                    hw.store_feature("deform", np.linspace(.01, .02, 3) + k)
                    if k:
                        hw.store_feature(UNIQUE[k],
                                         np.arange(3) + 100. * k + 10)
                    meta = {"setup": {"channel width": 20.0,
                                      "chip region": "channel",
                                      "flow rate": 0.04, "medium": "other"},
                            "imaging": {"pixel size": 0.34}}
                    if rids[k] is not None:
                        meta["experiment"] = {"run identifier": rids[k]}
                    hw.store_metadata(meta)
                    for (i, j) in edges:
                        if i == k and adj[(i, j)]:
                            kw = {}
                            if p["mapping"] != "same":
                                kw = dict(basin_map=np.array([0, 2, 1]))
                            hw.store_basin(
                                basin_name="b%d%d" % (i, j),
                                basin_type="file", basin_format="hdf5",
                                basin_locs=[paths[j]], verify=False, **kw)
            import signal

            def _alarm(*a):
                raise TimeoutError("did not terminate within 60 s")
            signal.signal(signal.SIGALRM, _alarm)
            signal.alarm(60)
            try:
                with dclab.new_dataset(paths[0]) as ds:
                    fbas = list(ds.features_basin)
                    for f in fbas:
                        if f not in ds.features_innate:
                            ds[f]
            except TimeoutError as e:
                fails.append("termination: %s" % e)
                fbas = []
            except BaseException as e:
                fails.append("reading raised %r" % (e,))
                fbas = []
            finally:
                signal.alarm(0)
            F = {"f%d" % k: dict(fmt="hdf5", rid=rids[k], avail=avail[k])
                 for k in range(nf)}
            reach, frontier = {0}, [0]
            while frontier:
                i = frontier.pop()
                for (a, b) in edges:
                    if a == i and adj[(a, b)] and b not in reach and \
                            hop_ok(F["f%d" % a], F["f%d" % b], p["mapping"]):
                        reach.add(b)
                        frontier.append(b)
            for k in range(1, nf):
                if UNIQUE[k] in fbas and k not in reach:
                    fails.append(
                        "feature '%s' of file %d (run identifier %r, %s "
                        "basin) is offered to the referrer with run "
                        "identifier %r although the identifiers do not match"
                        % (UNIQUE[k], k, rids[k], p["mapping"], rids[0]))
            if adj.get((0, 1)) and hop_ok(F["f0"], F["f1"], p["mapping"]) \
                    and UNIQUE[1] not in fbas and not fails:
                fails.append("direct matching basin not offered (ids %r)"
                             % (rids,))
    finally:
        W.version = old_version
    if not fails:
        return {"reproduced": False, "key": "not-reproduced",
                "detail": "scenario passes with real files: ids=%r adj=%r" %
                          (rids, [e for e in edges if adj[e]])}
    return {"reproduced": True, "key": classify(fails[0], rids, p),
            "detail": fails[0]}


def _replay_multi(p, vals):
    import os
    import tempfile
    import dclab
    import dclab.rtdc_dataset.writer as W
    rid1 = ID_OPTS[-1]
    for i, o in enumerate(ID_OPTS[:-1]):
        if vals.get("rid1_is_%d" % i, False):
            rid1 = o
            break
    avail = [True, bool(vals.get("avail1", False)),
             bool(vals.get("avail2", False))]
    rids = [REF_ID, rid1, REF_ID]
    old_version = W.version
    W.version = "0.62.7"
    fails = []
    try:
        with tempfile.TemporaryDirectory(prefix="verif_c14_") as td, quiet():
            paths = [os.path.join(td, "f%d.rtdc" % k) for k in range(3)]
            for k in (1, 2, 0):
                if not avail[k]:
                    continue
                with W.RTDCWriter(paths[k], mode="reset") as hw:
                    hw.store_feature("deform", np.linspace(.01, .02, 3))
                    if k:
                        hw.store_feature(UNIQUE[k], np.arange(3) + 100. * k)
                    meta = {"setup": {"channel width": 20.0,
                                      "chip region": "channel",
                                      "flow rate": 0.04, "medium": "other"},
                            "imaging": {"pixel size": 0.34}}
                    if rids[k] is not None:
                        meta["experiment"] = {"run identifier": rids[k]}
                    hw.store_metadata(meta)
                    if k == 0:
                        kw = {}
                        if p["mapping"] != "same":
                            kw = dict(basin_map=np.array([0, 2, 1]))
                        hw.store_basin("b", "file", "hdf5",
                                       [paths[1], paths[2]], verify=False,
                                       **kw)
            with dclab.new_dataset(paths[0]) as ds:
                fbas = list(ds.features_basin)
            F = {k: dict(fmt="hdf5", rid=rids[k], avail=avail[k])
                 for k in range(3)}
            first = None
            for k in (1, 2):
                if hop_ok(F[0], F[k], p["mapping"]):
                    first = k
                    break
            for k in (1, 2):
                if (UNIQUE[k] in fbas) != (k == first):
                    fails.append(
                        "basin with locations [f1 (run identifier %r, %s), "
                        "f2 (matching, %s)]: features offered %r, expected "
                        "those of %s" % (
                            rids[1], "present" if avail[1] else "absent",
                            "present" if avail[2] else "absent", fbas,
                            "f%d" % first if first else "no file"))
                    break
    finally:
        W.version = old_version
    if not fails:
        return {"reproduced": False, "key": "not-reproduced",
                "detail": "resolved to the first matching location"}
    return {"reproduced": True,
            "key": "basins_retrieve|multi-location|wrong-resolution",
            "detail": fails[0]}


def _replay_vanish(p, vals):
    import os
    import tempfile
    import dclab
    import dclab.rtdc_dataset.writer as W
    first = bool(vals.get("present_first", False))
    then = bool(vals.get("present_then", False))
    old_version = W.version
    W.version = "0.62.7"
    fails = []
    try:
        with tempfile.TemporaryDirectory(prefix="verif_c14_") as td, quiet():
            paths = [os.path.join(td, "f%d.rtdc" % k) for k in range(2)]

            def write(k):
                with W.RTDCWriter(paths[k], mode="reset") as hw:
                    hw.store_feature("deform", np.linspace(.01, .02, 3))
                    if k:
                        hw.store_feature(UNIQUE[k], np.arange(3) + 100. * k)
                    hw.store_metadata({
                        "setup": {"channel width": 20.0,
                                  "chip region": "channel",
                                  "flow rate": 0.04, "medium": "other"},
                        "imaging": {"pixel size": 0.34},
                        "experiment": {"run identifier": REF_ID}})
                    if k == 0:
                        kw = {}
                        if p["mapping"] != "same":
                            kw = dict(basin_map=np.array([0, 2, 1]))
                        hw.store_basin("b", "file", "hdf5", [paths[1]],
                                       verify=False, **kw)
            write(0)
            if first:
                write(1)
            res = []
            for present in (first, then):
                if present and not os.path.exists(paths[1]):
                    write(1)
                if not present and os.path.exists(paths[1]):
                    os.remove(paths[1])
                try:
                    with dclab.new_dataset(paths[0]) as ds:
                        fbas = list(ds.features_basin)
                        if UNIQUE[1] in fbas:
                            ds[UNIQUE[1]][:]
                except Exception as e:
                    fails.append("basin file %s at the second opening (%s at "
                                 "the first): %s: %s" % (
                                     "present" if then else "absent",
                                     "present" if first else "absent",
                                     type(e).__name__, e))
                    break
                res.append(UNIQUE[1] in fbas)
                if (UNIQUE[1] in fbas) != present:
                    fails.append(
                        "basin file %s when the referrer is opened (history: "
                        "present at first opening=%s, at second opening=%s) "
                        "but its features are %soffered" % (
                            "present" if present else "absent", first, then,
                            "" if UNIQUE[1] in fbas else "not "))
                    break
    finally:
        W.version = old_version
    if not fails:
        return {"reproduced": False, "key": "not-reproduced",
                "detail": "availability follows the file system"}
    return {"reproduced": True,
            "key": "HDF5Basin.is_available|stale-availability",
            "detail": fails[0]}


def _replay_mislabel(p):
    """real files, real classes: a dataset of a NON-local format (a subclass
    of RTDC_HDF5 named RTDC_HTTP, i.e. format 'http', local basins not
    allowed) whose file declares a basin {type: remote, format: hdf5,
    urls: [<local path>]} must not read that local file"""
    import os
    import tempfile
    import dclab
    import dclab.rtdc_dataset.writer as W
    from dclab.rtdc_dataset.fmt_hdf5 import RTDC_HDF5
    old_version = W.version
    W.version = "0.62.7"
    fails = []
    try:
        with tempfile.TemporaryDirectory(prefix="verif_c14_") as td, quiet():
            pa, pb = os.path.join(td, "a.rtdc"), os.path.join(td, "b.rtdc")
            meta = {"setup": {"channel width": 20.0, "chip region": "channel",
                              "flow rate": 0.04, "medium": "other"},
                    "imaging": {"pixel size": 0.34},
                    "experiment": {"run identifier": REF_ID}}
            with W.RTDCWriter(pb, mode="reset") as hw:
                hw.store_feature("deform", np.linspace(.01, .02, 3))
                hw.store_feature("area_um", np.arange(3) + 110.)
                hw.store_metadata(meta)
            with W.RTDCWriter(pa, mode="reset") as hw:
                hw.store_feature("deform", np.linspace(.01, .02, 3))
                hw.store_metadata(meta)
                hw.store_basin(basin_name="mislabelled", basin_type="remote",
                               basin_format="hdf5", basin_locs=[pb],
                               verify=False)

            class RTDC_HTTP(RTDC_HDF5):      # format == "http"
                pass
            with RTDC_HTTP(pa) as ds:
                if ds._local_basins_allowed:
                    fails.append("a dataset of format %r allows local "
                                 "basins" % ds.format)
                elif "area_um" in ds.features_basin:
                    fails.append(
                        "dataset of format %r (local basins not allowed) "
                        "reads the local file %s through a basin declared "
                        "as type 'remote' / format 'hdf5': area_um = %r" % (
                            ds.format, os.path.basename(pb),
                            np.asarray(ds["area_um"]).tolist()))
    finally:
        W.version = old_version
    if not fails:
        return {"reproduced": False, "key": "not-reproduced",
                "detail": "the mislabelled basin is not followed"}
    return {"reproduced": True,
            "key": "basins_retrieve|remote-typed-hdf5-basin|local-file-read",
            "detail": fails[0]}


def _replay_stub(p, vals, what):
    """scenarios that need a remote format: re-run the scenario concretely
    (all decisions pinned to the model) on the stub universe"""
    eng = Engine()

    def pinned(e):
        orig = e.bool

        def b(name):
            r = orig(name)
            e.assume(r if vals.get(name, False) else ~r)
            return r
        e.bool = b
        return run(e, p)
    eng.explore(pinned)
    if eng.violations:
        w = eng.violations[0]["what"]
        return {"reproduced": True,
                "key": classify(w, None, p),
                "detail": w + " | " + str(eng.violations[0].get("detail"))}
    return {"reproduced": False, "key": "not-reproduced", "detail": what}


def classify(msg, rids, p):
    if "termination" in msg:
        return "basins|non-termination"
    if "isolation" in msg:
        return "basins_retrieve|file-basin-through-remote-dataset"
    if "raised" in msg:
        if "TypeError" in msg and p["mapping"] != "same":
            return "verify_basin|mapped-basin-without-identifier|TypeError"
        return "basins|exception|" + msg[-60:]
    if "is offered" in msg or "offered although" in msg:
        if rids is not None and any(r is None for r in rids[1:]) and \
                rids[0] is not None and p["mapping"] == "same":
            return "verify_basin|basin-without-identifier-accepted"
        return "verify_basin|mismatching-identifier-accepted|%s" % \
            p["mapping"]
    return "basins|" + msg[:50]


CANARIES = [
    dict(name="file basins allowed for remote datasets", module=CORE,
         qualname="RTDCBase.basins_retrieve",
         old="if not self._local_basins_allowed:", new="if False:"),
    dict(name="no cycle cut", module=CORE,
         qualname="RTDCBase.basins_retrieve",
         old='if "key" in bdict and bdict["key"] in self._basins_ignored:',
         new="if False:"),
    dict(name="identifier never checked", module=FB,
         qualname="Basin.verify_basin",
         old="if run_identifier and check_avail:", new="if False:"),
]
