"""C10 -- command-line tasks never leave a partial file at the output path and
never touch their inputs.

Real code executed: the bodies of dclab.cli.task_{compress,condense,repack,
join,split,tdms2rtdc} and common.setup_task_paths (shadow modules) over a
file-system model.  Every effectful operation (unlink, rename, open, HDF5
write / group / attribute creation, object copy, file close) is a numbered
fault point; the fault index F is a SYMBOLIC integer, so the solver enumerates
"fault at operation n" for every n that is feasible on the path, in two kinds:
(a) the operation raises OSError, (b) the process is killed just before it.
"""
import copy
import posixpath
import random
import types

import numpy as np
import z3

from vf.common import real
from vf.dcsym import shadow, quiet
from vf.symx import Engine, SInt, toint

PID = "C10"
CLI = "dclab.cli."
FUNCTIONS = [(CLI + "common", "setup_task_paths"),
             (CLI + "task_compress", "compress"),
             (CLI + "task_condense", "condense"),
             (CLI + "task_condense", "condense_dataset"),
             (CLI + "task_repack", "repack"), (CLI + "task_join", "join"),
             (CLI + "task_split", "split"),
             (CLI + "task_tdms2rtdc", "tdms2rtdc")]
BOUNDS = {
    "quick": {"tasks": "compress, condense, repack, join (2 inputs), split "
              "(5 events into 3 parts), tdms2rtdc (1 file)",
              "fault points": "every numbered operation of the run (symbolic "
              "index), kinds: OSError raised / killed before the operation",
              "paths": "output distinct from input, stale output+temp "
              "present or absent; output == input; output + '.rtdc' == input"},
    "thorough": {"tasks": "as quick + join of 3 inputs, split into 4 parts, "
                 "tdms2rtdc of a folder with 2 files"},
}
OUTSIDE = ["power loss / page-cache semantics of rename", "partial writes "
           "inside libhdf5", "the content written (C01/C02/C08)",
           "SIGKILL inside a C call"]
STUBS = ["file system: pathlib.Path + h5py.File + RTDCWriter + new_dataset/"
         "export.hdf5 + rtdc_copy as recording stubs: each performs a fixed "
         "number of numbered write operations on the handle/path it was given",
         "RTDCWriter.__exit__ = 2 metadata writes + close (as the real one: "
         "rectify_metadata, version_brand, close in a finally block)"]
ASSUMPTIONS = ["a file is complete iff no handle on it is open and it "
               "received every write that the fault-free run performs on it",
               "rename is atomic"]
EXPLANATION = "C10: symbolic fault index over a file-system model."


class Kill(BaseException):
    pass


class FileObj:
    def __init__(self, ident, is_input=False, stale=False, broken=False):
        self.ident, self.is_input, self.stale = ident, is_input, stale
        #: a leftover that is NOT a loadable result (placeholder, wreck)
        self.broken = broken
        self.writes = 0
        self.handles = 0
        self.opened_writable = False

    def snap(self):
        return copy.copy(self)


class FS:
    def __init__(self, fault_at, kind):
        self.files = {}
        self.n = 0
        self.fault_at, self.kind = fault_at, kind
        self.log = []
        self.dead = False
        self.snapshot = None
        self.counter = 0
        self.input_violations = []
        self.dirs = {"/d"}

    def new_file(self, path, **kw):
        self.counter += 1
        f = FileObj(self.counter, **kw)
        self.files[path] = f
        return f

    def tick(self, what):
        if self.dead:
            raise Kill()
        self.n += 1
        self.log.append(what)
        fa = self.fault_at
        hit = (fa == self.n)
        if not isinstance(hit, bool):
            hit = bool(hit)                   # symbolic: fork
        if hit:
            if self.kind == "raise":
                raise OSError("injected I/O error at op %d: %s" % (self.n,
                                                                   what))
            self.snapshot = {p: f.snap() for p, f in self.files.items()}
            self.dead = True
            raise Kill(what)

    def state(self):
        return self.snapshot if self.snapshot is not None else self.files


def make_world(fs):
    class FPath:
        def __init__(self, s, *more):
            s = s.s if isinstance(s, FPath) else str(s)
            for m in more:
                s = posixpath.join(s, str(m))
            self.s = s
            # the file the path refers to (spelling-independent); equality
            # and hashing stay literal, as for pathlib
            self.k = posixpath.normpath(s) if s else s

        def __fspath__(self):
            return self.s

        def __str__(self):
            return self.s

        def __repr__(self):
            return "FPath(%r)" % self.s

        def __eq__(self, o):
            return isinstance(o, FPath) and o.s == self.s

        def __hash__(self):
            return hash(self.s)

        def __lt__(self, o):
            return self.s < o.s

        @property
        def name(self):
            return posixpath.basename(self.s)

        @property
        def suffix(self):
            n = self.name
            i = n.rfind(".")
            return n[i:] if i > 0 else ""

        @property
        def stem(self):
            n = self.name
            return n[:len(n) - len(self.suffix)]

        @property
        def parent(self):
            return FPath(posixpath.dirname(self.s))

        def __truediv__(self, o):
            return FPath(posixpath.join(self.s, str(o)))

        def with_name(self, n):
            return FPath(posixpath.join(posixpath.dirname(self.s), n))

        def with_suffix(self, suf):
            return self.with_name(self.stem + suf)

        def relative_to(self, o):
            return FPath(posixpath.relpath(self.s, str(o)))

        def resolve(self):
            return FPath(self.k)

        def exists(self):
            return self.k in fs.files or self.k in fs.dirs

        def is_dir(self):
            return self.k in fs.dirs

        def is_file(self):
            return self.k in fs.files

        def mkdir(self, parents=False, exist_ok=False):
            fs.dirs.add(self.k)

        def touch(self, mode=0o666, exist_ok=True):
            # creates an EMPTY (unloadable) file if there is none
            if self.k in fs.files:
                if not exist_ok:
                    raise FileExistsError(self.s)
                return
            fs.log.append("touch %s" % self.s)
            f = fs.new_file(self.k)
            f.broken = True
            f.touched = True

        def unlink(self, missing_ok=False):
            if self.k not in fs.files:
                if missing_ok:
                    return
                raise FileNotFoundError(self.s)
            # not a fault point (the statement's points are HDF5 writes,
            # creations, copies, file close and rename)
            fs.log.append("unlink %s" % self.s)
            f = fs.files.pop(self.k)
            if f.is_input:
                fs.input_violations.append("input %s unlinked" % self.s)

        def rename(self, dst):
            dst = FPath(dst)
            fs.tick("rename %s -> %s" % (self.s, dst.s))
            f = fs.files.pop(self.k)
            if f.is_input:
                fs.input_violations.append("input %s renamed" % self.s)
            old = fs.files.get(dst.k)
            if old is not None and old.is_input:
                fs.input_violations.append("input %s overwritten by rename"
                                           % dst.s)
            fs.files[dst.k] = f

    class pathlib_shim:
        Path = FPath

    class Handle:
        def __init__(self, path, mode):
            self.path, self.mode = FPath(path).k, mode
            self.filename = self.path
            fs.tick("open %s %s" % (self.path, mode))
            if mode == "w":
                old = fs.files.get(self.path)
                if old is not None and old.is_input:
                    fs.input_violations.append("input %s truncated" %
                                               self.path)
                self.f = fs.new_file(self.path)
            else:
                if self.path not in fs.files:
                    if mode == "a":
                        self.f = fs.new_file(self.path)
                    else:
                        raise FileNotFoundError(self.path)
                self.f = fs.files[self.path]
            if mode != "r":
                self.f.opened_writable = True
                if self.f.is_input:
                    fs.input_violations.append(
                        "input %s opened with mode %s" % (self.path, mode))
            self.f.handles += 1
            self.closed = False

        def write(self, what):
            fs.tick("write %s: %s" % (self.path, what))
            self.f.writes += 1
            if self.f.is_input:
                fs.input_violations.append("input %s written" % self.path)

        def close(self):
            if self.closed or fs.dead:
                return
            fs.tick("close %s" % self.path)
            self.closed = True
            self.f.handles -= 1

        def __enter__(self):
            return self

        def __exit__(self, *a):
            self.close()
            return False

    class H5Group(dict):
        def __init__(self, h):
            self.h = h

        def __setitem__(self, k, v):
            self.h.write("link %s" % k)
            dict.__setitem__(self, k, v)

        def __delitem__(self, k):
            self.h.write("del %s" % k)
            dict.__delitem__(self, k)

    class H5File(Handle):
        def __init__(self, path, mode="r", **kw):
            Handle.__init__(self, path, mode)
            self.groups = {}

        def require_group(self, name):
            if name not in self.groups:
                self.write("create group %s" % name)
                self.groups[name] = H5Group(self)
            return self.groups[name]

        def __getitem__(self, k):
            return self.groups.setdefault(k, H5Group(self))

        def __contains__(self, k):
            return k in self.groups

        def get(self, k, d=None):
            return self.groups.get(k, d)

        def visititems(self, fn):
            for name in ("events", "events/deform"):
                r = fn(name, H5Dataset() if "/" in name else self)
                if r is not None:
                    return r

    class H5Dataset:
        pass

    class h5py_shim:
        File = H5File
        Group = H5File
        Dataset = H5Dataset

    class shutil_shim:
        """whole-file operations: one step each"""
        @staticmethod
        def copy2(src, dst, **kw):
            src, dst = FPath(src), FPath(dst)
            fs.tick("copy %s -> %s" % (src.s, dst.s))
            if src.k not in fs.files:
                raise FileNotFoundError(src.s)
            old = fs.files.get(dst.k)
            if old is not None and old.is_input:
                fs.input_violations.append("input %s overwritten by copy"
                                           % dst.s)
            f = fs.new_file(dst.k)
            f.writes += 1
            return dst
        copy = copyfile = copy2

        @staticmethod
        def move(src, dst, **kw):
            FPath(src).rename(dst)
            return dst

    def rtdc_copy(src_h5file, dst_h5file, **kw):
        for i in range(2):
            dst_h5file.write("rtdc_copy object %d" % i)
        dst_h5file.groups.setdefault("events", H5Group(dst_h5file))
        dict.__setitem__(dst_h5file.groups["events"], "deform", 1)

    class RTDCWriter:
        def __init__(self, path_or_h5file, mode="append",
                     compression_kwargs=None, **kw):
            if isinstance(path_or_h5file, Handle):
                self.h5file = path_or_h5file
                self.owns = False
            else:
                self.h5file = H5File(path_or_h5file,
                                     "w" if mode == "reset" else "a")
                self.owns = True

        def store_log(self, name, lines):
            self.h5file.write("log %s" % name)

        def store_feature(self, feat, data, **kw):
            self.h5file.write("feature %s" % feat)

        def store_metadata(self, meta):
            self.h5file.write("metadata")

        def store_table(self, name, cmp_array, **kw):
            self.h5file.write("table %s" % name)

        def __enter__(self):
            return self

        def __exit__(self, *a):
            try:
                self.h5file.write("rectify_metadata")
                self.h5file.write("version_brand")
            finally:
                if self.owns:
                    self.h5file.close()
            return False

    class Export:
        def __init__(self, ds):
            self.ds = ds

        def hdf5(self, path, features=None, override=False, **kw):
            p = FPath(path)
            if not override and p.exists():
                raise OSError("File already exists: %s" % p)
            h = H5File(p, "w")
            try:
                for i in range(2):
                    h.write("export chunk %d" % i)
            finally:
                h.close()
            if getattr(fs, "warn", False):
                # a dataset that makes dclab warn while it is exported
                # (unknown configuration key, limited export size, ...)
                import warnings
                warnings.warn("verif: warning during export", UserWarning)

    class Cfg(dict):
        def tostring(self, sections=None):
            return "[experiment]\nrun index = 1"

    class DS:
        """stand-in for a dataset opened with new_dataset(path)"""
        format = "hdf5"

        def __init__(self, path, **kw):
            self.path = FPath(path)
            self.handle = Handle(path, "r")
            self.h5file = self.handle
            k = sorted(fs.files).index(self.path.k) if \
                self.path.k in fs.files else 0
            self.config = Cfg(
                experiment={"date": "2020-01-0%d" % (k + 1),
                            "time": "10:00:00", "run index": 1,
                            "sample": "s"},
                imaging={"frame rate": 2000.0},
                fmt_tdms={"video frame offset": 0})
            self.features_innate = ["deform", "time", "frame"]
            self.features = self.features_innate + ["area_ratio"]
            self.features_scalar = list(self.features)
            self.features_loaded = list(self.features_innate)
            self.features_basin = []
            self.features_ancillary = ["area_ratio"]
            self.logs = {"log0": ["a"]}
            self.tables = {}
            self.export = Export(self)

            class Filt:
                manual = np.ones(5, dtype=bool)
            self.filter = Filt()

        def __len__(self):
            return 5

        def __contains__(self, f):
            return f in self.features

        def __getitem__(self, f):
            return np.arange(5, dtype=float)

        def apply_filter(self):
            pass

        def __enter__(self):
            return self

        def __exit__(self, *a):
            self.handle.close()
            return False

    def new_dataset(path, **kw):
        return DS(path, **kw)

    util_shim = types.SimpleNamespace(
        hashfile=lambda p, **k: "md5", hashobj=lambda o: "md5")
    common_ns = shadow(CLI + "common", pathlib=pathlib_shim)
    common_ns["get_command_log"] = lambda paths, custom_dict=None: ["log"]
    common_ns["get_job_info"] = lambda: {}
    common = types.SimpleNamespace(**common_ns)
    fmt_hdf5 = types.SimpleNamespace(RTDC_HDF5=DS)

    class _EI:
        # distinct classes: the task ignores these two categories, which
        # must not silence the other warnings of a conversion
        SlowVideoWarning = type("SlowVideoWarning", (UserWarning,), {})
        InitialFrameMissingWarning = type("InitialFrameMissingWarning",
                                          (UserWarning,), {})
    fmt_tdms = types.SimpleNamespace(
        NPTDMS_AVAILABLE=False, event_image=_EI,
        get_tdms_files=lambda p: sorted(
            FPath(x) for x in fs.files if x.startswith(str(p) + "/") and
            x.endswith(".tdms")))
    shims = dict(shutil=shutil_shim,
                 is_properly_compressed=lambda obj: bool(fs.compressed),
                 pathlib=pathlib_shim, h5py=h5py_shim, rtdc_copy=rtdc_copy,
                 RTDCWriter=RTDCWriter, new_dataset=new_dataset,
                 common=common, util=util_shim, fmt_hdf5=fmt_hdf5,
                 fmt_tdms=fmt_tdms)
    tasks = {}
    for mod, fn in (("task_compress", "compress"),
                    ("task_condense", "condense"), ("task_repack", "repack"),
                    ("task_join", "join"), ("task_split", "split"),
                    ("task_tdms2rtdc", "tdms2rtdc")):
        ns = shadow(CLI + mod, **{k: v for k, v in shims.items()})
        tasks[fn] = ns[fn]
    return tasks, FPath


def scenario(fs, FPath, p):
    """populate the file system, return (callable, inputs, outputs)"""
    task = p["task"]
    ext = ".tdms" if task == "tdms2rtdc" else ".rtdc"
    nin = p.get("n_inputs", 2) if task == "join" else 1
    inputs = ["/d/in%d%s" % (i, ext) for i in range(nin)]
    if task == "tdms2rtdc" and p.get("folder"):
        fs.dirs.add("/d/src")
        inputs = ["/d/src/M1_data.tdms", "/d/src/M2_data.tdms"]
    for x in inputs:
        fs.new_file(x, is_input=True)
    variant = p["out"]
    if variant == "distinct":
        out = "/d/out.rtdc"
    elif variant == "same-as-input":
        out = inputs[0]
    elif variant == "other-spelling-of-input":
        # the same file, spelled differently (".." component)
        out = "/d/sub/../" + inputs[0].rsplit("/", 1)[1] if ext == ".rtdc" \
            else "/d/sub/../in0"
        fs.dirs.add("/d/sub")
        if ext != ".rtdc":
            fs.new_file("/d/in0.rtdc", is_input=True)
            inputs = inputs + ["/d/in0.rtdc"]
    elif variant == "input-without-suffix":
        out = inputs[0][:-len(ext)] if ext == ".rtdc" else "/d/in0"
        if ext != ".rtdc":
            fs.new_file("/d/in0.rtdc", is_input=True)
            inputs = inputs + ["/d/in0.rtdc"]
    outs = [out]
    if p.get("stale") and variant == "distinct":
        fs.new_file("/d/out.rtdc", stale=True,
                    broken=p["stale"] == "broken")
        fs.new_file("/d/out.rtdc~", stale=True, broken=True)
    return inputs, outs


def call_task(tasks, FPath, p, inputs, outs):
    t = p["task"]
    if t == "compress":
        tasks[t](path_in=inputs[0], path_out=outs[0])
    elif t == "condense":
        tasks[t](path_in=inputs[0], path_out=outs[0])
    elif t == "repack":
        tasks[t](path_in=inputs[0], path_out=outs[0])
    elif t == "join":
        tasks[t](paths_in=list(inputs[:p.get("n_inputs", 2)]),
                 path_out=outs[0])
    elif t == "split":
        tasks[t](path_in=FPath(inputs[0]), path_out=FPath("/d/parts"),
                 split_events=p.get("split_events", 2))
    elif t == "tdms2rtdc":
        if p.get("folder"):
            tasks[t](path_tdms=FPath("/d/src"), path_rtdc=FPath("/d/dst"))
        else:
            tasks[t](path_tdms=FPath(inputs[0]), path_rtdc=FPath(outs[0]))


def expected_outputs(p, outs):
    if p["task"] == "split":
        n = -(-5 // p.get("split_events", 2))
        return ["/d/parts/in0_%04d.rtdc" % (i + 1) for i in range(n)]
    if p["task"] == "tdms2rtdc" and p.get("folder"):
        return ["/d/dst/M1_data.rtdc", "/d/dst/M2_data.rtdc"]
    o = outs[0]
    return [o if o.endswith(".rtdc") else o + ".rtdc"]


def run_once(p, fault_at, kind):
    fs = FS(fault_at, kind)
    fs.warn = bool(p.get("warn"))
    fs.compressed = bool(p.get("compressed"))
    tasks, FPath = make_world(fs)
    inputs, outs = scenario(fs, FPath, p)
    in_ids = {x: fs.files[x].ident for x in inputs}
    outcome = "done"
    try:
        with quiet():
            call_task(tasks, FPath, p, inputs, outs)
    except Kill:
        outcome = "killed"
    except OSError as e:
        outcome = "oserror"
    except ValueError as e:
        outcome = "refused: %s" % e
    return fs, inputs, in_ids, outs, outcome


def run(eng, p):
    # fault-free reference run: how many writes does each output receive?
    ref, inputs, in_ids, outs, outcome = run_once(p, 0, "raise")
    exp = expected_outputs(p, outs)
    refw = {o: (ref.files[o].writes if o in ref.files else None) for o in exp}
    F = eng.int("fault_at")
    eng.assume((F >= 0) & (F <= ref.n + 2))
    fs, inputs, in_ids, outs, outcome = run_once(p, F, p["kind"])
    st = fs.state()
    fault = fs.log[-1] if fs.log and outcome in ("killed", "oserror") \
        else "none"
    eng.reach()
    same_io = any(o in inputs for o in exp)
    # ---- outputs: absent or complete
    if not same_io:
        for o in exp:
            f = st.get(o)
            if f is None:
                continue
            if f.stale and f.writes == 0 and f.handles == 0 and \
                    not f.broken:
                continue      # untouched complete result of an earlier run
            ok = (not f.stale) and f.handles == 0 and refw[o] is not None \
                and f.writes == refw[o]
            if not ok:
                eng.fail("partial output", detail="%s: %s exists after %s "
                         "at op %d (%s) with %d/%s writes, %d open handle(s)"
                         "%s" % (p["task"], o, outcome, fs.n, fault,
                                 f.writes, refw[o], f.handles,
                                 ", unloadable leftover of an earlier run"
                                 if f.stale and f.broken else
                                 ", stale file from an earlier run"
                                 if f.stale else ""))
    # ---- inputs: untouched
    for x in inputs:
        f = st.get(x)
        if f is None or f.ident != in_ids[x] or f.writes or \
                f.opened_writable:
            eng.fail("input modified", detail="%s: input %s %s (outcome %s,"
                     " fault %s; output path %s)" % (
                         p["task"], x, "is gone" if f is None else
                         "was replaced/modified/opened writable", outcome,
                         fault, outs[0]))
    for msg in fs.input_violations:
        eng.fail("input modified", detail="%s: %s (output path %s)" % (
            p["task"], msg, outs[0]))
    eng.prove(z3.BoolVal(True), "scenario-checked")
    return outcome, fs.n


def run_case(name, params):
    eng = Engine(timeout_ms=10000)
    eng.explore(lambda e: run(e, params))
    return eng.stats()


def cases(tier, seed):
    out = []
    tasks = ["compress", "condense", "repack", "join", "split", "tdms2rtdc"]
    for t in tasks:
        for kind in ("raise", "kill"):
            for stale in (False, True, "broken"):
                out.append(("%s %s distinct stale=%s" % (t, kind, stale),
                            dict(task=t, kind=kind, out="distinct",
                                 stale=stale)))
        if True:      # every task, incl. tdms2rtdc (its own warnings log)
            for kind in ("raise", "kill"):
                out.append(("%s %s distinct warnings" % (t, kind),
                            dict(task=t, kind=kind, out="distinct",
                                 stale=False, warn=True)))
        if t in ("compress", "repack"):
            for kind in ("raise", "kill"):
                out.append(("%s %s distinct, input already compressed" % (
                    t, kind), dict(task=t, kind=kind, out="distinct",
                                   stale=False, compressed=True)))
        if t != "split":
            for variant in ("same-as-input", "input-without-suffix",
                            "other-spelling-of-input"):
                if t == "tdms2rtdc":
                    continue      # .tdms inputs cannot be .rtdc outputs
                out.append(("%s raise %s" % (t, variant),
                            dict(task=t, kind="raise", out=variant,
                                 stale=False)))
    if tier == "thorough":
        for kind in ("raise", "kill"):
            out.append(("join3 %s" % kind, dict(task="join", kind=kind,
                                                out="distinct", stale=False,
                                                n_inputs=3)))
            out.append(("split4 %s" % kind, dict(task="split", kind=kind,
                                                 out="distinct", stale=False,
                                                 split_events=1)))
            out.append(("tdms2rtdc folder %s" % kind, dict(
                task="tdms2rtdc", kind=kind, out="distinct", stale=False,
                folder=True)))
    random.Random(seed).shuffle(out)
    return out


# ------------------------------------------------------------------ replay
_RCACHE = {}


def replay(case, params, v):
    """real files + the real task; faults are injected by wrapping the real
    h5py / pathlib operations that the task performs (in a forked child)"""
    key = (params["task"], params["out"], str(v.get("what")),
           bool(params.get("warn")), str(params.get("stale")),
           bool(params.get("compressed")))
    if key not in _RCACHE:
        _RCACHE[key] = _replay(case, params, v)
    return _RCACHE[key]


def _replay(case, params, v):
    p = params
    WARN_INPUT[0] = bool(p.get("warn"))
    vals = v.get("values") or {}
    what = str(v.get("what"))
    if what == "input modified" and p["out"] != "distinct":
        return replay_same_path(p)
    if p["task"] in ("tdms2rtdc",) and (
            p.get("folder") or what.startswith("exception:")):
        return {"reproduced": False, "key": "no-replay",
                "detail": "tdms replay: single-file fault cases only: %r" %
                          (v.get("detail"),)}
    if what.startswith("exception:"):
        return replay_plain(p, what, str(v.get("detail")))
    return replay_fault(p, int(vals.get("fault_at", 0)), what,
                        str(v.get("detail")))


WARN_INPUT = [False]


def _make_input(path, k=0):
    import dclab.rtdc_dataset.writer as W
    if WARN_INPUT[0]:
        _make_input_plain(path, k)
        import h5py
        with h5py.File(path, "a") as h:
            # opening this file makes dclab emit an
            # UnknownConfigurationKeyWarning
            h.attrs["setup:verif unknown key"] = 1
        return
    _make_input_plain(path, k)


def _make_input_plain(path, k=0):
    import dclab.rtdc_dataset.writer as W
    with W.RTDCWriter(path, mode="reset") as hw:
        hw.store_feature("deform", np.linspace(.01, .02, 5) + k)
        hw.store_feature("area_um", np.linspace(50, 60, 5))
        hw.store_feature("frame", np.arange(5) + 1 + 10 * k)
        hw.store_feature("time", (np.arange(5) + 1 + 10 * k) / 2000.)
        hw.store_metadata({
            "experiment": {"date": "2020-01-0%d" % (k + 1),
                           "time": "10:00:00", "run index": 1,
                           "sample": "s", "event count": 5},
            "imaging": {"frame rate": 2000.0, "pixel size": .34},
            "setup": {"channel width": 20.0, "flow rate": .04,
                      "chip region": "channel", "medium": "other"}})
        hw.store_log("log0", ["a"])


def replay_same_path(p):
    import hashlib
    import os
    import tempfile
    import dclab.cli as cli
    import dclab.rtdc_dataset.writer as W
    old = W.version
    W.version = "0.62.7"
    fails = []
    try:
        with tempfile.TemporaryDirectory(prefix="verif_c10_") as td, quiet():
            pin = os.path.join(td, "in0.rtdc")
            pin2 = os.path.join(td, "in1.rtdc")
            _make_input(pin)
            _make_input(pin2, 1)
            h0 = hashlib.sha256(open(pin, "rb").read()).hexdigest()
            pout = pin if p["out"] == "same-as-input" else pin[:-5]
            if p["out"] == "other-spelling-of-input":
                os.mkdir(os.path.join(td, "sub"))
                pout = os.path.join(td, "sub", "..", os.path.basename(pin))
            try:
                if p["task"] == "join":
                    cli.join(paths_in=[pin, pin2], path_out=pout)
                else:
                    getattr(cli, p["task"])(path_in=pin, path_out=pout)
            except BaseException:
                pass
            if not os.path.exists(pin):
                fails.append("dclab-%s with output path %r deleted its input"
                             " %r" % (p["task"], os.path.basename(pout),
                                      os.path.basename(pin)))
            elif hashlib.sha256(open(pin, "rb").read()).hexdigest() != h0:
                fails.append("dclab-%s with output path %r overwrote its "
                             "input %r" % (p["task"], os.path.basename(pout),
                                           os.path.basename(pin)))
    finally:
        W.version = old
    if not fails:
        return {"reproduced": False, "key": "not-reproduced",
                "detail": "input untouched on the real code"}
    return {"reproduced": True,
            "key": "setup_task_paths|output-path-is-an-input|input-"
                   "destroyed", "detail": fails[0]}


def replay_plain(p, what, detail):
    """the model raised an exception: does the real task fail without any
    injected fault?"""
    import multiprocessing
    import os
    import tempfile
    import dclab.rtdc_dataset.writer as W
    ctx = multiprocessing.get_context("fork")
    old = W.version
    W.version = "0.62.7"
    try:
        with tempfile.TemporaryDirectory(prefix="verif_c10_") as td, quiet():
            pins = [os.path.join(td, "in%d.rtdc" % i) for i in range(3)]
            for i, x in enumerate(pins):
                _make_input(x, i)
            d = os.path.join(td, "run")
            os.mkdir(d)
            _child(ctx, p, pins, d, 0, "count")
            sig = _signature(p, d)
    finally:
        W.version = old
    bad = [k for k, s_ in sig.items() if isinstance(s_, str)]
    if not sig or bad:
        return {"reproduced": True, "key": "%s|fails-without-fault" %
                p["task"], "detail": "dclab-%s without any fault produces "
                "%r (model: %s %s)" % (p["task"], sig, what, detail[:200])}
    return {"reproduced": False, "key": "not-reproduced",
            "detail": "the real task succeeds (model raised %s: %s)" % (
                what, detail[:300])}


def replay_fault(p, fault_at, what, detail):
    """run the real task on real files in a forked child; the child's h5py
    low-level write entry points and pathlib rename/unlink are counted and
    the fault is injected at the first operation AFTER the output path came
    into existence incomplete (searching all injection points)"""
    import multiprocessing
    import os
    import tempfile
    import dclab.rtdc_dataset.writer as W
    ctx = multiprocessing.get_context("fork")
    old = W.version
    W.version = "0.62.7"
    fails = []
    try:
        with tempfile.TemporaryDirectory(prefix="verif_c10_") as td, quiet():
            pins = [os.path.join(td, "in%d.rtdc" % i) for i in range(3)]
            if p["task"] == "tdms2rtdc":
                # the repository's own .tdms fixture (fluorescence + image;
                # converting it without skipping the initial empty image
                # makes dclab record warnings)
                import zipfile
                from vf.common import REPO
                zdir = os.path.join(td, "tdms")
                with zipfile.ZipFile(os.path.join(
                        str(REPO), "tests", "data",
                        "fmt-tdms_fl-image_2016.zip")) as z:
                    z.extractall(zdir)
                pins = sorted(
                    os.path.join(r, f) for r, _, fs_ in os.walk(zdir)
                    for f in fs_ if f.endswith(".tdms"))[:1]
            for i, x in enumerate(pins):
                if p["task"] == "tdms2rtdc":
                    break
                if p.get("compressed"):
                    # the product of an earlier dclab-compress run
                    import dclab.cli as cli
                    _make_input(x + ".raw.rtdc", i)
                    cli.compress(path_in=x + ".raw.rtdc", path_out=x)
                    os.remove(x + ".raw.rtdc")
                else:
                    _make_input(x, i)
            # reference
            ref_dir = os.path.join(td, "ref")
            os.mkdir(ref_dir)
            nops = _child(ctx, p, pins, ref_dir, 0, "count")
            ref_sig = _signature(p, ref_dir)
            if nops is None or not ref_sig:
                return {"reproduced": False, "key": "replay-error",
                        "detail": "reference run failed"}
            # partial outputs can only arise late (after a rename or a
            # direct write to the output path): scan backwards
            # (a .tdms conversion takes seconds and performs hundreds of
            # write-like operations: only the last 40 injection points)
            first = max(0, nops - 40) if p["task"] == "tdms2rtdc" else 0
            for n in range(nops, first, -1):
                for kind in ("raise", "kill"):
                    d = os.path.join(td, "%s%d" % (kind, n))
                    os.mkdir(d)
                    _child(ctx, p, pins, d, n, kind)
                    sig = _signature(p, d)
                    for name, s in sig.items():
                        if s != ref_sig.get(name):
                            fails.append(
                                "dclab-%s, %s at write-like operation %d/%d:"
                                " output %s exists but is not the complete "
                                "result (%s vs %s)" % (
                                    p["task"], kind, n, nops, name, s,
                                    ref_sig.get(name)))
                    if fails:
                        break
                if fails:
                    break
    finally:
        W.version = old
    if not fails:
        return {"reproduced": False, "key": "not-reproduced",
                "detail": "no fault point leaves a partial output on the "
                          "real code (model said: %s)" % detail}
    return {"reproduced": True, "key": "%s|partial-output-at-output-path" %
            p["task"], "detail": fails[0]}


def _signature(p, d):
    """what is visible at the requested output paths"""
    import os
    import h5py
    sig = {}
    for fn in sorted(os.listdir(d)):
        if not fn.endswith(".rtdc"):
            continue
        try:
            with h5py.File(os.path.join(d, fn), "r") as h:
                ev = h["events"]
                import re
                ref = "deform" if "deform" in ev else sorted(
                    k for k in ev if hasattr(ev[k], "shape"))[0]
                sig[fn] = (sorted(ev.keys()), int(ev[ref].shape[0]),
                           sorted(re.sub(r"_\d{4}-\d{2}-\d{2}_[\d.]+", "",
                                         k) for k in h.get("logs", {})),
                           int(h.attrs.get("experiment:event count", -1)))
        except BaseException as e:
            sig[fn] = "unreadable: %s" % type(e).__name__
    return sig


def _child(ctx, p, pins, outdir, fault_at, kind):
    import os
    q = ctx.Queue()

    def target():
        import h5py
        import pathlib
        import dclab.cli as cli
        counter = [0]

        def hit(what):
            counter[0] += 1
            if fault_at and counter[0] == fault_at:
                if kind == "kill":
                    os._exit(9)
                raise OSError("injected at %s" % what)

        def wrap(cls, name):
            orig = getattr(cls, name)

            def w(*a, **k):
                hit(name)
                return orig(*a, **k)
            setattr(cls, name, w)
        wrap(h5py.Group, "create_dataset")
        wrap(h5py.Group, "create_group")
        wrap(h5py.Group, "require_group")
        wrap(h5py.AttributeManager, "__setitem__")
        wrap(h5py.AttributeManager, "create")
        wrap(h5py.Dataset, "resize")
        wrap(h5py.Dataset, "__setitem__")
        wrap(h5py.File, "close")
        wrap(pathlib.Path, "rename")
        try:
            t = p["task"]
            out = os.path.join(outdir, "out.rtdc")
            if p.get("stale") == "broken" and t != "split":
                with open(out, "wb") as fd:      # unloadable leftover
                    fd.write(b"not an hdf5 file")
            if t == "join":
                cli.join(paths_in=pins[:p.get("n_inputs", 2)], path_out=out)
            elif t == "split":
                cli.split(path_in=pathlib.Path(pins[0]),
                          path_out=pathlib.Path(outdir),
                          split_events=p.get("split_events", 2))
            elif t == "tdms2rtdc":
                cli.tdms2rtdc(path_tdms=pathlib.Path(pins[0]),
                              path_rtdc=pathlib.Path(out),
                              skip_initial_empty_image=not p.get("warn"))
            else:
                getattr(cli, t)(path_in=pins[0], path_out=out)
        except BaseException:
            pass
        q.put(counter[0])
    pr = ctx.Process(target=target)
    pr.start()
    pr.join(120)
    if pr.is_alive():
        pr.terminate()
    try:
        return q.get(timeout=1)
    except Exception:
        return None


CANARIES = [
    dict(name="repack writes directly to the output path",
         module=CLI + "task_repack", qualname="repack",
         old='h5py.File(path_temp, "w") as hc:',
         new='h5py.File(path_out, "w") as hc:'),
    dict(name="compress renames before the log is written",
         module=CLI + "task_compress", qualname="compress",
         old="    with RTDCWriter(path_temp,",
         new="    path_temp.rename(path_out)\n    path_temp = path_out\n"
             "    with RTDCWriter(path_temp,"),
    dict(name="split renames each part right after export",
         module=CLI + "task_split", qualname="split",
         old="                paths_temp.append(pt)",
         new="                paths_temp.append(pp)"),
]
