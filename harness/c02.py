"""C02 -- HDF5/TSV export contains exactly the selected events and features.

Real code executed: export.yield_filtered_array_stacks (both routes),
export.store_filtered_feature, the feature loop / length check / fast-path
predicate of Export.hdf5 and the selection of Export.tsv, on top of the real
RTDCWriter over the in-memory h5py stand-in.  Event payloads are provenance
tokens `src[i]` whose index i is a SYMBOLIC integer, so "exactly the selected
events in order" becomes an equality of index terms decided by z3.
"""
import itertools
import random
import types

import numpy as np
import z3

from vf import symh5
from vf.common import real
from vf.dcsym import shadow, sym_writer, quiet, build_class
from vf.symnp import SArr, SymNP, Tok
from vf.symx import Engine, SBool, SInt, SReal, toint, tobool, srange

PID = "C02"
EX = "dclab.rtdc_dataset.export"
W = "dclab.rtdc_dataset.writer"
FUNCTIONS = [(EX, "yield_filtered_array_stacks"),
             (EX, "store_filtered_feature"), (EX, "Export.hdf5"),
             (EX, "Export.tsv"), (W, "RTDCWriter.store_feature"),
             (W, "RTDCWriter.write_ndarray")]
BOUNDS = {
    "quick": {"stack generator": "k = 0..25 selected events (symbolic, "
              "strictly increasing indices into a source of symbolic "
              "length), export chunk size 10, sliceable and non-sliceable "
              "sources, image / trace / user-shaped / contour / scalar",
              "Export.hdf5": "N = 4 events, arbitrary filter, filtered or "
              "not, formats hdf5/dict/hierarchy/tdms tag, features "
              "{deform (scalar), image, mask, trace, contour, a registered non-scalar temporary feature}, "
              "duplicate feature names, one feature shorter by one event; "
              "output path new, or holding an earlier export (override=True, "
              "N = 3)",
              "Export.tsv": "N = 3 events x 2 scalar features"},
    "thorough": {"stack generator": "k = 0..45"},
}
OUTSIDE = ["np.savetxt number formatting", "fcs / avi export", "real tdms "
           "and DCOR readers (a 'non-sliceable' source stands in)",
           "libhdf5", "basin definitions written on export (C07)"]
STUBS = ["event sources: objects whose item i is the token src[i] (i "
         "symbolic); with or without __array__", "dataset: features, "
         "filter.all (symbolic), format tag, real Configuration",
         "h5py stand-in, pathlib.Path stub, np.savetxt recorder"]
ASSUMPTIONS = ["the selection indices are strictly increasing (they come "
               "from np.where)"]
EXPLANATION = "C02: chunked filtered export over symbolic selections."

ITEM = (1024, 1024)
NSFEAT = "verif_nonscalar"          # a temporary non-scalar feature


def _register():
    import dclab.definitions as dfn
    if not dfn.feature_exists(NSFEAT):
        from dclab.rtdc_dataset.feat_temp import register_temporary_feature
        register_temporary_feature(NSFEAT, is_scalar=False)


_register()


class At:
    """payload of event `idx` (symbolic) of source `src`"""
    __slots__ = ("src", "idx", "shape")

    def __init__(self, src, idx, shape=()):
        self.src, self.idx, self.shape = src, idx, tuple(shape)

    def __repr__(self):
        return "At(%s,%r)" % (self.src, self.idx)

    def __len__(self):
        return self.shape[0]


class Source:
    """array-like feature data of symbolic length"""

    def __init__(self, name, n, item_shape=ITEM, dtype=np.uint8,
                 sliceable=True):
        self.name, self.n = name, n
        self.shape = (n,) + tuple(item_shape)
        self.item_shape = tuple(item_shape)
        self.dtype = np.dtype(dtype)
        if sliceable:
            self.__array__ = lambda *a, **k: (_ for _ in ()).throw(
                NotImplementedError("full array not needed"))

    def __len__(self):
        return Engine.cur.concretize(self.n) if isinstance(
            self.n, SInt) else self.n

    def __getitem__(self, k):
        if isinstance(k, SArr):
            if k.dtype == bool:
                idx = [i for i, b in enumerate(k.elems) if bool(b)]
                return SArr([At(self.name, i, self.item_shape) for i in idx],
                            self.dtype, self.item_shape)
            return SArr([At(self.name, i, self.item_shape) for i in k.elems],
                        self.dtype, self.item_shape)
        if isinstance(k, (list, np.ndarray)):
            return SArr([At(self.name, i, self.item_shape) for i in k],
                        self.dtype, self.item_shape)
        if isinstance(k, slice):
            raise NotImplementedError("slice of a symbolic source")
        return At(self.name, k, self.item_shape)


def zeros_nd(shape, dtype=float):
    if isinstance(shape, tuple) and len(shape) >= 2:
        return SArr([0] * int(shape[0]), dtype, tuple(shape[1:]))
    return SymNP.zeros(shape, dtype)


def make_np():
    npx = SymNP(zeros=zeros_nd)
    return npx


def check_tokens(eng, got, src, idx_terms, what):
    got = list(got)
    eng.prove(z3.BoolVal(len(got) == len(idx_terms)), what + " (count)",
              info={"got": len(got), "expected": len(idx_terms)})
    if len(got) != len(idx_terms):
        return
    conds = []
    for g, t in zip(got, idx_terms):
        if not isinstance(g, At) or g.src != src:
            eng.fail(what + " (foreign payload %r)" % (g,))
            return
        conds.append(toint(g.idx) == toint(t))
    eng.prove(z3.And(conds or [True]), what)


# -------------------------------------------------- (a) filtered storage
def run_stacks(eng, p):
    k = p["k"]
    N = eng.int("N")
    eng.assume((N >= k) & (N <= k + 40))
    idx = []
    prev = None
    for j in range(k):
        v = eng.int("i%d" % j)
        eng.assume((v >= 0) & (v < N))
        if prev is not None:
            eng.assume(v > prev)
        prev = v
        idx.append(v)
    npx = make_np()
    f = symh5.File("out.rtdc", "w")
    Wr = sym_writer(np=npx)
    hw = Wr.__new__(Wr)
    hw.mode, hw.compression_kwargs, hw.h5file = "append", {}, f
    hw._group_sizes, hw.owns_path, hw.path = {}, False, "out.rtdc"
    from harness.c20 import _init_attrs
    for kk, vv in _init_attrs().items():
        setattr(hw, kk, vv)
    ns = shadow(EX, np=npx, RTDCWriter=Wr, range=srange)
    feat = p["feat"]
    filt = _Filt(idx, N)
    with quiet():
        if feat in ("image", "mask"):
            src = Source("img", N, ITEM, np.uint8, p["sliceable"])
            _store_with_indices(ns, hw, feat, src, idx, filt)
            got = f["events"][feat].data.elems if feat in f.get(
                "events", {}) else []
        elif feat == "trace":
            src = Source("tr", N, (524288,), np.int16, p["sliceable"])
            _store_with_indices(ns, hw, "trace", {"fl1_raw": src}, idx, filt)
            ev = f.get("events", {})
            got = ev["trace"]["fl1_raw"].data.elems if "trace" in ev else []
            src = src
        elif feat == "userdef":
            src = Source("ud", N, (512, 2048), np.uint8, p["sliceable"])
            _store_with_indices(ns, hw, NSFEAT, src, idx, filt)
            ev = f.get("events", {})
            got = ev[NSFEAT].data.elems if NSFEAT in ev else []
    name = src.name if not isinstance(src, dict) else "tr"
    check_tokens(eng, got, name, idx,
                 "filtered storage: stored events == source events at the "
                 "selected indices, in order")
    return "ok"


class _Filt:
    """boolean filter array standing for a symbolic index selection"""

    def __init__(self, idx, N):
        self.idx, self.N = idx, N


def _store_with_indices(ns, hw, feat, data, idx, filt):
    """store_filtered_feature with np.where(filtarr)[0] == idx"""
    npx = ns["np"]
    real_where = npx.where

    def where(c, *a):
        if c is filt:
            return (SArr(list(idx), int),)
        return real_where(c, *a)
    npx._over["where"] = where
    try:
        ns["store_filtered_feature"](hw, feat, data, filt)
    finally:
        npx._over.pop("where", None)


# ------------------------------------------------------- (b) Export.hdf5
def run_export(eng, p):
    N = p["N"]
    npx = make_np()
    bits = [eng.bool("f%d" % i) for i in range(N)]
    feats = p["feats"]
    short = p.get("short")

    class Filt:
        all = SArr(bits, bool)

    from dclab.rtdc_dataset.config import Configuration

    class DS:
        format = p["format"]
        features_innate = list(dict.fromkeys(feats))
        config = Configuration()
        logs = {}
        tables = {}
        basins = []
        path = "/d/in.rtdc"
        filter = Filt()

        def __len__(self):
            return N

        def get_measurement_identifier(self):
            return "mid"

        def __getitem__(self, feat):
            n = N - 1 if feat == short else N
            sl = p["format"] == "hdf5"
            if feat == "deform":
                return SArr([SReal(z3.Real("deform%d" % i))
                             for i in range(n)], float)
            if feat in ("image", "mask"):
                return _ConcSource(feat, n, (4, 4), np.uint8, sl)
            if feat == "trace":
                return {"fl1_raw": _ConcSource("trace", n, (8,), np.int16,
                                               sl)}
            if feat == "contour":
                return [np.full((5, 2), i) for i in range(n)]
            if feat == NSFEAT:
                return _ConcSource(NSFEAT, n, (3, 3), float, sl)
            raise KeyError(feat)
    DS.config["experiment"]["sample"] = "s"
    files = {}

    class P:
        def __init__(self, s):
            self.s = str(s)
            self.suffix = "." + self.s.rsplit(".", 1)[-1] if "." in \
                self.s.rsplit("/", 1)[-1] else ""
            self.name = self.s.rsplit("/", 1)[-1]

        @property
        def parent(self):
            return P(self.s.rsplit("/", 1)[0])

        def __truediv__(self, o):
            return P(self.s + "/" + str(o))

        def exists(self):
            return self.s in files

        def unlink(self):
            files.pop(self.s, None)

        def mkdir(self, **k):
            pass

        def __fspath__(self):
            return self.s

        def __str__(self):
            return self.s

    class pathlib_shim:
        Path = P

    class H5(symh5.File):
        # a path that exists keeps its content unless opened with "w"
        def __new__(cls, path, mode="r", **kw):
            if mode != "w" and str(path) in files:
                return files[str(path)]
            return symh5.File.__new__(cls)

        def __init__(self, path, mode="r", **kw):
            if mode != "w" and files.get(str(path)) is self:
                self.closed = False
                return
            symh5.File.__init__(self, str(path), "w")
            files[str(path)] = self

    class h5shim:
        File = H5
        Group = symh5.Group
        Dataset = symh5.Dataset
        h5o = symh5.h5o
    Wr = sym_writer(np=npx, h5py=h5shim, pathlib=pathlib_shim)
    ns = shadow(EX, np=npx, RTDCWriter=Wr, pathlib=pathlib_shim,
                range=srange)
    kw = {}
    if p.get("existing"):
        # an earlier export is already present at the output path
        old = H5("/d/out.rtdc", "w")
        oev = old.require_group("events")
        for feat in dict.fromkeys(feats):
            if feat == "deform":
                oev.create_dataset("deform", data=SArr(
                    [SReal(z3.Real("stale%d" % i)) for i in range(2)], float),
                    chunks=(10,), maxshape=(None,))
        old.attrs["experiment:event count"] = 2
        old.close()
        kw["override"] = True
    with quiet():
        ns["Export"](DS()).hdf5("/d/out.rtdc", features=list(feats),
                                filtered=p["filtered"],
                                skip_checks=False, **kw)
    out = files["/d/out.rtdc"]
    out.closed = False
    ev = out.get("events", None)
    n_min = N - 1 if short in feats else N
    sel = [i for i in range(n_min) if (not p["filtered"]) or bool(bits[i])]
    for feat in dict.fromkeys(feats):
        if ev is None or feat not in ev:
            eng.prove(z3.BoolVal(len(sel) == 0),
                      "export: feature %s missing although events are "
                      "selected" % feat, info={"selected": sel})
            continue
        if feat == "trace":
            got = list(ev["trace"]["fl1_raw"].data.elems)
        elif feat == "contour":
            cg = ev["contour"]
            got = [At("contour", int(cg[str(i)].data.flat[0]))
                   for i in range(len(cg))]
        elif feat == "deform":
            got = [At("deform", int(str(x.e)[6:])) if isinstance(
                x, SReal) and str(x.e).startswith("deform") else x
                for x in ev[feat].data.elems]
        else:
            got = list(ev[feat].data.elems)
        ok = len(got) == len(sel) and all(
            isinstance(g, At) and g.src == feat and int(g.idx) == i
            for g, i in zip(got, sel))
        eng.prove(z3.BoolVal(ok), "export: %s holds exactly the selected "
                  "events in order" % feat,
                  info={"got": [repr(g) for g in got], "selected": sel})
    with quiet():
        cnt = out.attrs.get("experiment:event count")
    eng.prove(z3.BoolVal(cnt is None and not sel or (
        cnt is not None and int(cnt) == len(sel))),
        "export: event count matches", info={"count": cnt, "sel": sel})
    return "ok"


class _ConcSource(Source):
    """source with a concrete length (for the Export.hdf5 loop)"""

    def __getitem__(self, k):
        if isinstance(k, (int, np.integer)):
            if k < 0 or k >= self.n:
                raise IndexError("index %d out of range" % k)
            return At(self.name, int(k), self.item_shape)
        if isinstance(k, SArr) and k.dtype != bool:
            return SArr([At(self.name, int(Engine.cur.concretize(i) if
                                           isinstance(i, SInt) else i),
                            self.item_shape) for i in k.elems],
                        self.dtype, self.item_shape)
        if isinstance(k, slice):
            return SArr([At(self.name, i, self.item_shape)
                         for i in range(*k.indices(self.n))],
                        self.dtype, self.item_shape)
        return Source.__getitem__(self, k)

    def __iter__(self):
        return iter([At(self.name, i, self.item_shape)
                     for i in range(self.n)])

    def keys(self):
        raise AttributeError


# -------------------------------------------------------------- (c) tsv
def run_tsv(eng, p):
    N = p["N"]
    npx = make_np()
    bits = [eng.bool("f%d" % i) for i in range(N)]
    vals = {f: [eng.real("%s%d" % (f, i)) for i in range(N)]
            for f in ("area_um", "deform")}
    rec = {}

    def savetxt(fd, arr, fmt=None, delimiter=None):
        rec["arr"] = arr
    npx._over["savetxt"] = savetxt

    class Tr:
        def __init__(self, cols):
            self.cols = cols

        def transpose(self):
            return self
    npx._over["array"] = lambda data, *a, **k: Tr([list(c) for c in data]) \
        if isinstance(data, list) and data and isinstance(data[0], SArr) \
        else SymNP.array(data, *a, **k)

    class Filt:
        all = SArr(bits, bool)

    class Cfg(dict):
        def as_dict(self):
            return {}

    class DS:
        features_scalar = ["area_um", "deform"]
        filter = Filt()
        config = Cfg()

        def __getitem__(self, f):
            return SArr(vals[f], float)

    class FD:
        def write(self, x):
            pass

        def __enter__(self):
            return self

        def __exit__(self, *a):
            return False

    class P:
        def __init__(self, s):
            self.s = str(s)
            self.suffix = ".tsv"
            self.name = "o.tsv"

        def exists(self):
            return False

        def open(self, *a, **k):
            return FD()

    class pathlib_shim:
        Path = P
    dfn_real = __import__("dclab.definitions", fromlist=["x"])
    ns = shadow(EX, np=npx, pathlib=pathlib_shim)
    with quiet():
        ns["Export"](DS()).tsv("/d/o.tsv", features=["deform", "area_um"],
                               filtered=p["filtered"])
    cols = rec["arr"].cols
    sel = [i for i in range(N) if (not p["filtered"]) or bool(bits[i])]
    for name, col in zip(["area_um", "deform"], cols):
        eng.prove(z3.BoolVal(len(col) == len(sel)),
                  "tsv: number of rows == number of selected events")
        if len(col) == len(sel):
            eng.prove(z3.And([c.e == vals[name][i].e
                              for c, i in zip(col, sel)] or [True]),
                      "tsv: column %s holds the selected values in order" %
                      name)
    return "ok"


def run_case(name, params):
    eng = Engine(timeout_ms=20000, max_paths=400000)
    fn = {"stacks": run_stacks, "export": run_export, "tsv": run_tsv}[
        params["kind"]]
    eng.explore(lambda e: fn(e, params))
    return eng.stats()


def cases(tier, seed):
    out = []
    kmax = 25 if tier == "quick" else 45
    ks = [0, 1, 2, 9, 10, 11, 19, 20, 21, kmax] if tier == "quick" else \
        list(range(0, kmax + 1))
    for k in ks:
        for feat in ("image", "trace", "userdef"):
            for sl in (True, False):
                if tier == "quick" and feat != "image" and k not in (
                        1, 10, 11, 20):
                    continue
                out.append(("stacks %s k=%d sliceable=%s" % (feat, k, sl),
                            dict(kind="stacks", feat=feat, k=k,
                                 sliceable=sl)))
    fsets = [["deform", "image"], ["deform", "mask", "trace"],
             ["contour", "deform"], ["deform", NSFEAT, "image", "image"],
             ["image"]]
    for fmt in ("hdf5", "dict", "hierarchy", "tdms"):
        for filtered in (True, False):
            for feats in fsets:
                out.append(("export %s filtered=%s %s" % (fmt, filtered,
                                                          feats),
                            dict(kind="export", N=4, format=fmt,
                                 filtered=filtered, feats=feats)))
            out.append(("export %s filtered=%s short image" % (fmt,
                                                               filtered),
                        dict(kind="export", N=4, format=fmt,
                             filtered=filtered, feats=["deform", "image"],
                             short="image")))
    for filtered in (True, False):
        out.append(("export hdf5 filtered=%s over an existing file" %
                    filtered, dict(kind="export", N=3, format="hdf5",
                                   filtered=filtered, existing=True,
                                   feats=["deform", "image"])))
    for filtered in (True, False):
        out.append(("tsv filtered=%s" % filtered,
                    dict(kind="tsv", N=3, filtered=filtered)))
    random.Random(seed).shuffle(out)
    return out


# ------------------------------------------------------------------ replay
def replay(case, params, v):
    import os
    import tempfile
    import h5py
    import dclab
    vals = v.get("values") or {}
    p = params
    fails = []
    with tempfile.TemporaryDirectory(prefix="verif_c02_") as td, quiet():
        if p["kind"] == "stacks":
            k = p["k"]
            idx = [int(vals.get("i%d" % j, j)) for j in range(k)]
            N = max([int(vals.get("N", k))] + [i + 1 for i in idx] + [1])
            # a lazy (non-sliceable) or array (sliceable) source of 1 MiB
            # items whose content encodes the event number

            class Lazy:
                def __init__(self, shape, dtype):
                    self.shape = (N,) + shape
                    self.dtype = np.dtype(dtype)

                def __len__(self):
                    return N

                def __getitem__(self, i):
                    if isinstance(i, (int, np.integer)):
                        return np.full(self.shape[1:], i % 250,
                                       dtype=self.dtype)
                    return np.stack([self[int(j)] for j in i])

            class Arr(Lazy):
                def __array__(self, *a, **k):
                    return np.stack([self[i] for i in range(N)])
            shapes = {"image": ((1024, 1024), np.uint8),
                      "trace": ((524288,), np.int16),
                      "userdef": ((512, 2048), np.uint8)}
            shp, dt = shapes[p["feat"]]
            src = (Arr if p["sliceable"] else Lazy)(shp, dt)
            RTDCWriter = real(W, "RTDCWriter")
            sff = real(EX, "store_filtered_feature")
            path = os.path.join(td, "o.rtdc")
            filt = np.zeros(N, dtype=bool)
            filt[idx] = True
            with RTDCWriter(path, mode="append") as hw:
                if p["feat"] == "trace":
                    sff(hw, "trace", {"fl1_raw": src}, filt)
                elif p["feat"] == "userdef":
                    sff(hw, NSFEAT, src, filt)
                else:
                    sff(hw, "image", src, filt)
            with h5py.File(path, "r") as h:
                name = {"image": "image", "trace": "trace/fl1_raw",
                        "userdef": NSFEAT}[p["feat"]]
                if "events" not in h or name.split("/")[0] not in \
                        h["events"]:
                    got = []
                else:
                    d = h["events"][name]
                    got = [int(d[i].flat[0]) for i in range(len(d))]
            exp = [i % 250 for i in idx]
            if got != exp:
                fails.append("exporting %d selected events (%s, %s source):"
                             " file holds %d events %r..., expected %r..." %
                             (len(idx), p["feat"], "array-like" if
                              p["sliceable"] else "lazy", len(got), got[:12],
                              exp[:12]))
            key = "store_filtered_feature|%s|%s" % (
                p["feat"], "sliceable" if p["sliceable"] else "lazy")
        elif p["kind"] == "export":
            N = p["N"]
            bits = [bool(vals.get("f%d" % i, False)) for i in range(N)]
            d = {"deform": np.linspace(.01, .02, N),
                 "area_um": np.linspace(50, 60, N)}
            if "image" in p["feats"]:
                d["image"] = (np.arange(N)[:, None, None] * np.ones(
                    (1, 4, 4))).astype(np.uint8)
            if "mask" in p["feats"]:
                m = np.zeros((N, 6, 6), dtype=bool)
                for i in range(N):
                    m[i, 1:3 + i % 3, 1:4] = True
                d["mask"] = m
            short = p.get("short")
            n_min = N - 1 if short in p["feats"] else N
            if p["format"] == "hdf5":
                # a real HDF5 source (also with one feature shorter)
                import dclab.rtdc_dataset.writer as Wm
                Wm.version = "0.62.7"
                src = os.path.join(td, "src.rtdc")
                with Wm.RTDCWriter(src, mode="reset") as hw:
                    hw.store_metadata({"experiment": {"event count": N},
                                       "setup": {"channel width": 20.0}})
                    for f, arr in d.items():
                        hw.store_feature(f, arr[:N - 1] if f == short
                                         else arr)
                with h5py.File(src, "a") as h:
                    h.attrs["experiment:event count"] = N
                ds = dclab.new_dataset(src)
            else:
                ds = dclab.new_dataset(d)
                if short in d:
                    ds._events[short] = d[short][:N - 1]
            if p["format"] != "hdf5":
                # event-wise (non-sliceable) access, as for tdms / DCOR /
                # lazily computed image stacks
                class LazyStack:
                    def __init__(self, arr):
                        self.arr = arr
                        self.shape, self.dtype = arr.shape, arr.dtype

                    def __len__(self):
                        return len(self.arr)

                    def __getitem__(self, i):
                        if not isinstance(i, (int, np.integer)):
                            raise TypeError("event-wise access only")
                        return self.arr[i]
                for f in ("image", "mask"):
                    if f in ds._events:
                        ds._events[f] = LazyStack(
                            d[f][:N - 1] if f == short else d[f])
            ds.filter.manual[:] = bits
            ds.apply_filter()
            feats = [f for f in p["feats"] if f in d]
            path = os.path.join(td, "o.rtdc")
            kw = {}
            if p.get("existing"):
                with Wm.RTDCWriter(path, mode="reset") as hw:
                    hw.store_feature("deform", np.array([.5, .6]))
                    hw.store_metadata({"experiment": {"event count": 2}})
                kw["override"] = True
            try:
                ds.export.hdf5(path, features=feats, filtered=p["filtered"],
                               **kw)
            except Exception as e:
                return {"reproduced": True, "key": "Export.hdf5|raises",
                        "detail": "export of %r (filtered=%s, %s source, "
                        "short=%s) raises %s: %s" % (
                            feats, p["filtered"], p["format"], short,
                            type(e).__name__, e)}
            sel = [i for i in range(n_min)
                   if bits[i] or not p["filtered"]]
            with h5py.File(path, "r") as h:
                ev = h.get("events", {})
                for f in set(feats):
                    if f not in ev:
                        if sel:
                            fails.append("%s missing" % f)
                        continue
                    got = ev[f][:]
                    exp = d[f][sel]
                    if f == "mask":
                        got = got.astype(bool)
                    if got.shape != exp.shape or not np.allclose(got, exp):
                        fails.append("feature %s differs for selection %r" %
                                     (f, sel))
            key = "Export.hdf5|selection"
        else:
            return {"reproduced": False, "key": "no-replay",
                    "detail": "tsv: %r" % (vals,)}
    if not fails:
        return {"reproduced": False, "key": "not-reproduced",
                "detail": "export ok on the real code (%r)" % (p,)}
    return {"reproduced": True, "key": key, "detail": fails[0]}


CANARIES = [
    dict(name="remainder dropped when the last chunk is full", module=EX,
         qualname="yield_filtered_array_stacks",
         old="        if stop < len(indices):", new="        if stop + 1 < "
             "len(indices):"),
    dict(name="lazy route yields one event too many", module=EX,
         qualname="yield_filtered_array_stacks",
         old="            yield chunk[:jj]", new="            yield chunk[:jj"
             " + 1]"),
    dict(name="scalar features ignore the filter", module=EX,
         qualname="store_filtered_feature",
         old="hw.store_feature(feat, data[filtarr])",
         new="hw.store_feature(feat, data[:])"),
    dict(name="tsv ignores the filter", module=EX, qualname="Export.tsv",
         old="data = [ds[c][ds.filter.all] for c in features]",
         new="data = [ds[c] for c in features]"),
]
