"""C06 -- computed (ancillary) features always reflect the current data and
settings; availability <=> reading succeeds.

Real code executed: RTDCBase.__getitem__/__contains__/
_get_ancillary_feature_data, AncillaryFeature.is_available/hash/compute/
available_features, the registered compute methods (af_emodulus, af_basic,
af_fl_max_ctc, af_image_contour) on a real RTDC_Dict dataset whose
configuration holds SYMBOLIC numeric values.  Numeric kernels
(features.emodulus.get_emodulus, get_volume, ...) are uninterpreted functions
of their arguments; md5 is injective on the concatenation of its updates.

2-safety by construction: history = read; change/delete/set one key to a new
symbolic value; read again.  The second read takes the real cache-hit branch
under the path condition "stored hash == current hash" and z3 is asked whether
the arguments the cached result was computed from can differ from the
arguments a fresh dataset with the current configuration computes from.
"""
import contextlib
import importlib
import itertools
import random
import re

import numpy as np
import z3

from vf.common import real
from vf.dcsym import quiet
from vf.symx import (Engine, SBool, SInt, SReal, NotModelled, tobool, toreal)

PID = "C06"
CORE = "dclab.rtdc_dataset.core"
AFM = "dclab.rtdc_dataset.feat_anc_core.ancillary_feature"
AEM = "dclab.rtdc_dataset.feat_anc_core.af_emodulus"
ABM = "dclab.rtdc_dataset.feat_anc_core.af_basic"
ACM = "dclab.rtdc_dataset.feat_anc_core.af_fl_max_ctc"
AIM = "dclab.rtdc_dataset.feat_anc_core.af_image_contour"
FUNCTIONS = [(CORE, "RTDCBase.__getitem__"), (CORE, "RTDCBase.__contains__"),
             (CORE, "RTDCBase._get_ancillary_feature_data"),
             (AFM, "AncillaryFeature.hash"),
             (AFM, "AncillaryFeature.is_available"),
             (AFM, "AncillaryFeature.compute"),
             (AFM, "AncillaryFeature.available_features"),
             (AEM, "compute_emodulus"), (AEM, "compute_emodulus_known_media"),
             (AEM, "compute_emodulus_visc_only"), (AEM, "is_channel"),
             (AEM, "register"), (ABM, "compute_area_um"),
             (ABM, "compute_time"), (ACM, "compute_ctc"), (ACM, "register"),
             (AIM, "compute_volume"), (AIM, "compute_bright_bc"),
             (AIM, "register")]
BOUNDS = {
    "quick": {"emodulus": "all 2^5 presence patterns of the calculation keys "
              "x medium in {CellCarrier, other} x temp feature yes/no; "
              "history: read, one edit (set to a NEW arbitrary value / delete"
              " / add) of any relevant key, availability test, read",
              "other features": "every registered core ancillary feature; "
              "edits of every key of its recipe + every key its method reads",
              "values": "arbitrary reals (numeric keys), enumerated strings"},
    "thorough": {"emodulus": "as quick + chip region + two edits",
                 "other features": "as quick"},
}
OUTSIDE = ["the numeric kernels themselves (C05, C18)", "plugin / ML "
           "features (user code)", "hashing of real array bytes (tobytes)",
           "hierarchy children (C04)", "type conversion of the real "
           "Configuration (C11): config values here are not converted",
           "histories with more than two edits"]
STUBS = ["hashlib.md5: injective on the concatenation of updates; symbolic "
         "numbers are atomic, self-delimiting tokens in the hashed text",
         "numeric kernels: uninterpreted functions of their keyword "
         "arguments (result tokens compare equal iff all arguments do)",
         "dataset configuration: nested plain dicts with symbolic values"]
ASSUMPTIONS = ["feature data are constant (same on the long-lived and the "
               "fresh dataset); only the configuration has a history",
               "reading 'succeeds' = no exception"]
EXPLANATION = "C06: cache-staleness as a 2-safety query over config values."

N = 2
KERNELS = [("dclab.features.emodulus", "get_emodulus", 1),
           ("dclab.features.volume", "get_volume", 1),
           ("dclab.features.bright", "get_bright", 2),
           ("dclab.features.bright_bc", "get_bright_bc", 2),
           ("dclab.features.bright_perc", "get_bright_perc", 2),
           ("dclab.features.inert_ratio", "get_inert_ratio_cvx", 1),
           ("dclab.features.inert_ratio", "get_inert_ratio_prnc", 1),
           ("dclab.features.inert_ratio", "get_inert_ratio_raw", 1),
           ("dclab.features.inert_ratio", "get_tilt", 1),
           ("dclab.features.contour", "get_contour_lazily", 1)]


# ----------------------------------------------------------- symbolic text
class SNum(SReal):
    """symbolic config number that survives str.format() as a placeholder"""
    TABLE = []

    def __format__(self, spec):
        SNum.TABLE.append(self)
        return "\x00%d\x00" % (len(SNum.TABLE) - 1)

    __str__ = lambda s: s.__format__("")
    __repr__ = __str__

    def __deepcopy__(self, memo):
        return self

    def __hash__(self):
        return id(self)


import numbers  # noqa: E402
numbers.Number.register(SNum)

_PH = re.compile(rb"(\x00\d+\x00|\x01\d+\x01)")


def text_equal(a, b):
    """z3 Bool / bool: two byte strings with number / digest placeholders
    are equal"""
    ta, tb = _PH.split(a), _PH.split(b)
    if len(ta) != len(tb):
        return False
    conds = []
    for i, (x, y) in enumerate(zip(ta, tb)):
        if i % 2 == 0:
            if x != y:
                return False
        else:
            if x[:1] != y[:1]:
                return False
            ix, iy = int(x[1:-1]), int(y[1:-1])
            if x[:1] == b"\x00":
                conds.append(SNum.TABLE[ix].e == SNum.TABLE[iy].e)
            else:
                r = text_equal(SymHash.TABLE[ix], SymHash.TABLE[iy])
                if r is False:
                    return False
                if r is not True:
                    conds.append(r)
    return z3.And(conds) if conds else True


class SymHash(str):
    """hex digest of the injective md5 stub: a str (so that it can be hashed
    again, formatted, compared) that remembers the digested text"""
    TABLE = []

    def __new__(cls, data):
        SymHash.TABLE.append(data)
        obj = str.__new__(cls, "\x01%d\x01" % (len(SymHash.TABLE) - 1))
        obj.data = data
        return obj

    def __eq__(self, o):
        if not isinstance(o, SymHash):
            return False
        r = text_equal(self.data, o.data)
        return r if isinstance(r, bool) else SBool(r)

    def __ne__(self, o):
        r = self.__eq__(o)
        return (not r) if isinstance(r, bool) else ~r

    def __hash__(self):
        return 7


class MD5:
    def __init__(self, *a):
        self.parts = list(a)

    def update(self, b):
        self.parts.append(bytes(b))

    def hexdigest(self):
        return SymHash(b"".join(self.parts))


class hashlib_shim:
    md5 = MD5


# ------------------------------------------------------ uninterpreted calls
class UF:
    """result of an uninterpreted numeric kernel"""

    def __init__(self, name, kwargs, part=0):
        self.name, self.kwargs, self.part = name, dict(kwargs), part
        self.shape = (N, 2, 2) if name == "get_contour_lazily" else (N,)
        self.ndim = len(self.shape)
        self.dtype = np.dtype(float)

    def __len__(self):
        return N

    @property
    def identifier(self):
        return "UF:%s#%d(%s)" % (self.name, self.part, ",".join(
            "%s=%s" % (k, _ident(v)) for k, v in sorted(self.kwargs.items())))

    def setflags(self, **kw):
        pass


def _ident(v):
    if isinstance(v, UF):
        return v.identifier
    if isinstance(v, np.ndarray):
        return "arr%s" % (v.tobytes().hex()[:24],)
    return format(v) if isinstance(v, SNum) else repr(v)


def val_equal(a, b):
    """z3 Bool: two kernel arguments / results are equal"""
    if isinstance(a, UF) or isinstance(b, UF):
        if not (isinstance(a, UF) and isinstance(b, UF)):
            return z3.BoolVal(False)
        if a.name != b.name or a.part != b.part or \
                set(a.kwargs) != set(b.kwargs):
            return z3.BoolVal(False)
        return z3.And([val_equal(a.kwargs[k], b.kwargs[k])
                       for k in a.kwargs] or [True])
    if isinstance(a, (SReal, SInt)) or isinstance(b, (SReal, SInt)):
        if a is None or b is None or isinstance(a, str) or \
                isinstance(b, str):
            return z3.BoolVal(False)
        if (isinstance(a, np.ndarray) and a.size != 1) or (
                isinstance(b, np.ndarray) and b.size != 1):
            return z3.BoolVal(False)      # array vs. scalar
        return toreal(a) == toreal(b)
    if isinstance(a, np.ndarray) or isinstance(b, np.ndarray):
        a, b = np.asarray(a), np.asarray(b)
        if a.dtype == object or b.dtype == object:
            if a.shape != b.shape:
                return z3.BoolVal(False)
            return z3.And([val_equal(x, y) for x, y in zip(a.ravel(),
                                                           b.ravel())]
                          or [True])
        return z3.BoolVal(a.shape == b.shape and bool(
            np.array_equal(a, b, equal_nan=True)))
    if isinstance(a, dict) and isinstance(b, dict):
        if set(a) != set(b):
            return z3.BoolVal(False)
        return z3.And([val_equal(a[k], b[k]) for k in a] or [True])
    try:
        return z3.BoolVal(bool(a == b))
    except Exception:
        return z3.BoolVal(a is b)


class _Mat3:
    def __init__(self, rows):
        self.rows = rows

    def __getitem__(self, idx):
        r, c = idx
        assert r == slice(None)
        return _Col([row[c] for row in self.rows])


class _Col(list):
    def flatten(self):
        return self


class _LinAlg:
    @staticmethod
    def inv(m):
        a = [[x if isinstance(x, SReal) else SReal(toreal(x)) for x in row]
             for row in m.rows]

        def det2(p, q, r, s_):
            return p * s_ - q * r
        cof = [[None] * 3 for _ in range(3)]
        for i in range(3):
            for j in range(3):
                rr = [x for x in range(3) if x != i]
                cc = [x for x in range(3) if x != j]
                d = det2(a[rr[0]][cc[0]], a[rr[0]][cc[1]],
                         a[rr[1]][cc[0]], a[rr[1]][cc[1]])
                cof[i][j] = d if (i + j) % 2 == 0 else -d
        det = a[0][0] * cof[0][0] + a[0][1] * cof[0][1] + a[0][2] * cof[0][2]
        Engine.cur.assume(det != 0)      # invertible spill matrix
        return _Mat3([[cof[j][i] / det for j in range(3)] for i in range(3)])


class _CtNP:
    """numpy for dclab.features.fl_crosstalk: symbolic 3x3 inverse"""
    linalg = _LinAlg

    @staticmethod
    def array(rows):
        return _Mat3([list(r) for r in rows])


@contextlib.contextmanager
def patched():
    saved = []
    ctm = importlib.import_module("dclab.features.fl_crosstalk")
    saved.append((ctm, "np", ctm.np))
    ctm.np = _CtNP
    afm = importlib.import_module(AFM)
    saved.append((afm, "hashlib", afm.hashlib))
    afm.hashlib = hashlib_shim
    for modname, fn, nout in KERNELS:
        mod = importlib.import_module(modname)
        saved.append((mod, fn, getattr(mod, fn)))

        def stub(*args, _name=fn, _nout=nout, **kw):
            if args:
                kw = dict(kw, **{"arg%d" % i: a for i, a in enumerate(args)})
            if _nout == 1:
                return UF(_name, kw)
            return tuple(UF(_name, kw, part=i) for i in range(_nout))
        setattr(mod, fn, stub)
    try:
        yield
    finally:
        for mod, name, val in saved:
            setattr(mod, name, val)


# -------------------------------------------------------------- the world
class Sec(dict):
    pass


class Cfg(dict):
    def copy(self):
        c = Cfg()
        for k, v in self.items():
            c[k] = Sec(v)
        return c


@contextlib.contextmanager
def plugin(spec):
    """register a user plug-in feature through the real PlugInFeature API:
    circ_per_area = circ / area_um (area_um is itself ancillary and depends
    on [imaging] pixel size, which the plug-in does NOT list)"""
    if not spec:
        yield
        return
    from dclab.rtdc_dataset.feat_anc_plugin import plugin_feature as pf

    def compute(mm):
        return {"circ_per_area": mm["circ"] / mm["area_um"]}
    info = {"method": compute, "feature names": ["circ_per_area"],
            "features required": ["circ", "area_um"],
            "description": "verification plug-in", "version": "0.1.0"}
    inst = pf.PlugInFeature("circ_per_area", info)

    # a second plug-in whose recipe lists one configuration section in two
    # separate entries
    def compute2(mm):
        return {"circ_px_rate": mm["circ"] * mm.config["imaging"][
            "pixel size"] + mm.config["imaging"]["frame rate"]}
    info2 = {"method": compute2, "feature names": ["circ_px_rate"],
             "features required": ["circ"],
             "config required": [["imaging", ["pixel size"]],
                                 ["imaging", ["frame rate"]]],
             "description": "verification plug-in 2", "version": "0.1.0"}
    inst2 = pf.PlugInFeature("circ_px_rate", info2)
    try:
        yield
    finally:
        pf.remove_plugin_feature(inst)
        pf.remove_plugin_feature(inst2)


def base_data(feats):
    rs = np.random.RandomState(3)
    d = {}
    for f in feats:
        if f in ("image", "image_bg"):
            d[f] = rs.randint(0, 255, size=(N, 4, 4)).astype(np.uint8)
        elif f == "mask":
            m = np.zeros((N, 4, 4), dtype=bool)
            m[:, 1:3, 1:3] = True
            d[f] = m
        elif f == "frame":
            d[f] = np.arange(1, N + 1) * 10
        else:
            d[f] = rs.rand(N) + 1.0
    return d


def temp_data(feat, version):
    """concrete data of a temporary feature; versions differ in every event"""
    rs = np.random.RandomState(abs(hash(feat)) % 1000 + 17 * version)
    if feat.startswith("ml_score"):
        # every new version of a score changes which class wins
        base = {"ml_score_abc": [0.9, 0.1], "ml_score_xyz": [0.5, 0.5]}.get(
            feat, [0.3, 0.7])
        arr = np.array((base * N)[:N])
        return arr if version % 2 == 0 else 1.0 - arr + 0.01 * version
    if feat == "temp":
        return 20.0 + version + rs.rand(N)
    return rs.rand(N) + 1.0 + version


def new_ds(feats, cfg, temps=None):
    import dclab
    from dclab.rtdc_dataset import feat_temp
    ds = dclab.new_dataset(base_data(feats))
    for f, ver in (temps or {}).items():
        feat_temp.set_temporary_feature(ds, f, temp_data(f, ver))
    for sec in ds.config.keys():
        if sec not in cfg:
            cfg[sec] = Sec(dict(ds.config[sec]))
    ds.config = cfg
    return ds


FAIL = (Exception,)


def try_read(ds, feat):
    import dclab.rtdc_dataset.feat_anc_core.af_fl_max_ctc as ctc
    try:
        with quiet():
            return True, ds[feat]
    except NotModelled:
        raise
    except (Exception, ctc.MissingCrosstalkMatrixElementsError) as e:
        return False, e


STR_ALT = {
    "emodulus medium": ["CellCarrier", "other", "water"],
    "emodulus lut": ["LE-2D-FEM-19", "HE-3D-FEM-22"],
    "emodulus viscosity model": ["herold-2017", "buyukurganci-2022"],
    "chip region": ["channel", "reservoir"],
}


def run_history(eng, p):
    """p: feats, cfg (sec -> key -> 'num' | str), target, edits"""
    SNum.TABLE.clear()
    SymHash.TABLE.clear()
    cnt = [0]

    def fresh_num(tag):
        cnt[0] += 1
        v = z3.Real("%s#%d" % (tag, cnt[0]))
        eng.vars["%s#%d" % (tag, cnt[0])] = v
        if tag.startswith("crosstalk"):
            eng.assume(v >= 0)       # documented: non-negative spill
        return SNum(v)

    cfg = Cfg()
    for sec, kv in p["cfg"].items():
        cfg[sec] = Sec()
        for k, v in kv.items():
            cfg[sec][k] = fresh_num(k) if v == "num" else v
    feat = p["target"]
    with patched(), plugin(p.get("plugin")):
        temps = dict(p.get("temps", {}))
        ds = new_ds(p["feats"], cfg, temps)
        steps = [("read",)] + [tuple(e) for e in p["edits"]] + [("check",)]
        for st in steps:
            if st[0] == "read":
                try_read(ds, feat)
            elif st[0] == "temp":
                # set / replace a temporary feature (public API)
                from dclab.rtdc_dataset import feat_temp
                temps[st[1]] = st[2]
                with quiet():
                    feat_temp.set_temporary_feature(
                        ds, st[1], temp_data(st[1], st[2]))
            elif st[0] == "set":
                _, sec, key, val = st
                ds.config.setdefault(sec, Sec())[key] = \
                    fresh_num(key) if val == "num" else val
            elif st[0] == "del":
                ds.config.get(st[1], {}).pop(st[2], None)
            elif st[0] == "readf":
                try_read(ds, st[1])
            elif st[0] == "check":
                with quiet():
                    avail = feat in ds
                ok, data = try_read(ds, feat)
                eng.reach()
                if bool(avail) != ok:
                    eng.fail("availability: `feat in ds` is %s but reading "
                             "%s" % (bool(avail), "succeeds" if ok else
                                     "raises %s" % type(data).__name__),
                             detail=repr(data)[:200])
                with quiet():
                    listed = feat in ds.features
                if bool(listed) != bool(avail):
                    eng.fail("availability: `ds.features` %s the feature "
                             "but `feat in ds` is %s" % (
                                 "lists" if listed else "does not list",
                                 bool(avail)))
                # fresh dataset, same data, same current configuration
                ds2 = new_ds(p["feats"], ds.config.copy(), temps)
                ok2, data2 = try_read(ds2, feat)
                if ok != ok2:
                    eng.fail("long-lived dataset %s but a fresh dataset %s"
                             % ("reads" if ok else "fails",
                                "reads" if ok2 else "fails"))
                elif ok:
                    eng.prove(val_equal(data, data2),
                              "value == value computed by a fresh dataset "
                              "with the current configuration")
                    check_precedence(eng, ds, feat, data)
    return "ok"


def check_precedence(eng, ds, feat, data):
    if feat != "emodulus" or not isinstance(data, UF):
        return
    calc = ds.config.get("calculation", {})
    kw = data.kwargs
    medium = str(calc.get("emodulus medium", "other")).lower()
    if "emodulus temperature" in calc and "emodulus viscosity" not in calc:
        # scenario C beats A: the configured temperature is used
        eng.prove(val_equal(kw.get("temperature"),
                            calc["emodulus temperature"]),
                  "scenario C: configured temperature is used")
    elif "emodulus viscosity" in calc and medium == "other":
        eng.prove(z3.And(val_equal(kw.get("medium"),
                                   calc["emodulus viscosity"]),
                         z3.BoolVal(kw.get("temperature") is None)),
                  "scenario B: configured viscosity is used")
    elif "temp" in ds._events:
        eng.prove(val_equal(kw.get("temperature"), ds._events["temp"]),
                  "scenario A: per-event temperature feature is used")


def run_case(name, params):
    eng = Engine(timeout_ms=20000, nra=params["target"].endswith("_ctc"))
    eng.explore(lambda e: run_history(e, params))
    return eng.stats()


# ------------------------------------------------------------------ cases
EMOD_KEYS = ["emodulus lut", "emodulus medium", "emodulus temperature",
             "emodulus viscosity", "emodulus viscosity model"]
EMOD_DEF = {"emodulus lut": "LE-2D-FEM-19", "emodulus medium": "CellCarrier",
            "emodulus temperature": "num", "emodulus viscosity": "num",
            "emodulus viscosity model": "buyukurganci-2022"}


def edits_for(sec, key, cur):
    """all single edits of one key"""
    out = []
    if cur is not None:
        out.append(("del", sec, key))
    if key in STR_ALT:
        for alt in STR_ALT[key]:
            if alt != cur:
                out.append(("set", sec, key, alt))
    else:
        out.append(("set", sec, key, "num"))
    return out


def cases(tier, seed):
    out = []
    # ----------------------------------------------------------- emodulus
    for pres in itertools.product([False, True], repeat=len(EMOD_KEYS)):
        for medium in ("CellCarrier", "other"):
            for has_temp in (False, True):
                calc = {k: (medium if k == "emodulus medium" else EMOD_DEF[k])
                        for k, pz in zip(EMOD_KEYS, pres) if pz}
                cfg = {"calculation": calc,
                       "imaging": {"pixel size": "num"},
                       "setup": {"flow rate": "num", "channel width": "num",
                                 "chip region": "channel"}}
                feats = ["area_um", "deform"] + (["temp"] if has_temp else [])
                keys = [("calculation", k) for k in EMOD_KEYS] + \
                    [("imaging", "pixel size"), ("setup", "flow rate"),
                     ("setup", "channel width")]
                if tier == "thorough":
                    keys.append(("setup", "chip region"))
                tag = "emod %s %s temp=%s" % ("".join(
                    "1" if z else "0" for z in pres), medium, has_temp)
                out.append((tag + " noedit", dict(
                    feats=feats, cfg=cfg, target="emodulus", edits=[])))
                for sec, key in keys:
                    for ed in edits_for(sec, key, cfg[sec].get(key)):
                        out.append(("%s %s" % (tag, ed), dict(
                            feats=feats, cfg=cfg, target="emodulus",
                            edits=[list(ed)])))
    # ----------------------------------------------- other core features
    recipes = [
        ("area_um", ["area_cvx"], {"imaging": {"pixel size": "num"}}),
        ("time", ["frame"], {"imaging": {"frame rate": "num"}}),
        ("volume", ["mask", "pos_x", "pos_y"],
         {"imaging": {"pixel size": "num"}}),
        ("deform", ["circ"], {}),
        ("aspect", ["size_x", "size_y"], {}),
        ("area_ratio", ["area_cvx", "area_msd"], {}),
        ("bright_avg", ["image", "mask"], {}),
        ("bright_bc_avg", ["image", "image_bg", "mask"], {}),
        ("bright_perc_10", ["image", "image_bg", "mask", "bg_off"], {}),
        ("inert_ratio_cvx", ["mask"], {}),
        ("tilt", ["mask"], {}),
    ]
    for feat, feats, cfg in recipes:
        cfg = {"imaging": {}, "setup": {}, "calculation": {}, **cfg}
        out.append(("%s noedit" % feat, dict(feats=feats, cfg=cfg,
                                             target=feat, edits=[])))
        for sec in cfg:
            for key in cfg[sec]:
                for ed in edits_for(sec, key, cfg[sec][key]):
                    out.append(("%s %s" % (feat, ed), dict(
                        feats=feats, cfg=cfg, target=feat,
                        edits=[list(ed)])))
    # plug-in feature on top of an ancillary feature (chain of caches)
    pcfg = {"imaging": {"pixel size": "num"}, "setup": {}, "calculation": {}}
    pfeats = ["circ", "area_cvx"]
    e_set = ["set", "imaging", "pixel size", "num"]
    hist = [[], [e_set], [e_set, ["readf", "circ_per_area"], e_set],
            [["readf", "area_um"], e_set],
            [["readf", "circ_per_area"], e_set],
            [e_set, ["readf", "area_um"], e_set],
            [["del", "imaging", "pixel size"]],
            [e_set, ["readf", "circ_per_area"], e_set,
             ["readf", "circ_per_area"], e_set]]
    for i, h in enumerate(hist):
        out.append(("plugin chain history %d" % i, dict(
            feats=pfeats, cfg=pcfg, target="circ_per_area", edits=h,
            plugin=True)))
        out.append(("area_um chain history %d" % i, dict(
            feats=pfeats, cfg=pcfg, target="area_um", edits=h,
            plugin=True)))
    p2cfg = {"imaging": {"pixel size": "num", "frame rate": "num"},
             "setup": {}, "calculation": {}}
    e_fr = ["set", "imaging", "frame rate", "num"]
    for i, h in enumerate([[e_set], [e_fr], [["del", "imaging",
                                              "pixel size"]],
                           [["del", "imaging", "frame rate"]],
                           [e_set, ["readf", "circ_px_rate"], e_fr]]):
        out.append(("plugin with a two-entry recipe, history %d" % i, dict(
            feats=["circ"], cfg=p2cfg, target="circ_px_rate", edits=h,
            plugin=True)))
    # temporary features that feed a computed feature are set / replaced
    mcfg = {"imaging": {}, "setup": {}, "calculation": {}}
    for tag, temps, edits in (
            ("replace one score", {"ml_score_abc": 0, "ml_score_xyz": 0},
             [["temp", "ml_score_abc", 1]]),
            ("replace both scores", {"ml_score_abc": 0, "ml_score_xyz": 0},
             [["temp", "ml_score_abc", 1], ["temp", "ml_score_xyz", 2]]),
            ("add a third score", {"ml_score_abc": 0, "ml_score_xyz": 0},
             [["temp", "ml_score_new", 1]]),
            ("replace, read, replace", {"ml_score_abc": 0, "ml_score_xyz": 0},
             [["temp", "ml_score_abc", 1], ["readf", "ml_class"],
              ["temp", "ml_score_abc", 3]])):
        out.append(("ml_class temporary scores: %s" % tag, dict(
            feats=["deform"], cfg=mcfg, target="ml_class", temps=temps,
            edits=edits)))
    ecfg = {"calculation": {"emodulus lut": "LE-2D-FEM-19",
                            "emodulus medium": "CellCarrier",
                            "emodulus viscosity model": "buyukurganci-2022"},
            "imaging": {"pixel size": "num"},
            "setup": {"flow rate": "num", "channel width": "num",
                      "chip region": "channel"}}
    out.append(("emodulus temporary temp feature replaced", dict(
        feats=["area_um", "deform"], cfg=ecfg, target="emodulus",
        temps={"temp": 0}, edits=[["temp", "temp", 1]])))
    # crosstalk: every channel subset x coefficient presence
    ct_keys = ["crosstalk fl%d%d" % (i, j) for i in (1, 2, 3)
               for j in (1, 2, 3) if i != j]
    for chans in ([1, 2, 3], [1, 2], [1, 3], [2, 3]):
        feats = ["fl%d_max" % c for c in chans]
        for full in (True, False):
            present = ct_keys if full else [
                k for k in ct_keys if int(k[-2]) in chans and
                int(k[-1]) in chans]
            cfg = {"calculation": {k: "num" for k in present},
                   "imaging": {}, "setup": {}}
            target = "fl%d_max_ctc" % chans[0]
            tag = "ctc ch=%s allkeys=%s" % (chans, full)
            out.append((tag + " noedit", dict(feats=feats, cfg=cfg,
                                              target=target, edits=[])))
            for key in ct_keys:
                for ed in edits_for("calculation", key,
                                    cfg["calculation"].get(key)):
                    out.append(("%s %s" % (tag, ed), dict(
                        feats=feats, cfg=cfg, target=target,
                        edits=[list(ed)])))
    random.Random(seed).shuffle(out)
    return out


# ------------------------------------------------------------------ replay
def _concrete_cfg(ds, cfgspec, numvals):
    for sec, kv in cfgspec.items():
        for k, v in kv.items():
            ds.config[sec][k] = numvals(k) if v == "num" else v


def replay(case, params, v):
    """the same history on the real dataset with the real Configuration and
    the real numeric kernels (concrete numbers from the model)"""
    import dclab
    import dclab.rtdc_dataset.feat_anc_core.af_fl_max_ctc as ctc
    vals = v.get("values") or {}
    p = params
    counter = {}

    def num(key):
        counter[key] = counter.get(key, 0)
        # model values are named "<key>#<n>" in creation order
        cands = sorted((int(k.split("#")[1]), k) for k in vals
                       if k.split("#")[0] == key)
        idx = counter[key]
        counter[key] += 1
        raw = float(vals[cands[idx][1]]) if idx < len(cands) else 1.0
        if key.startswith("crosstalk"):
            return raw
        return _physical(key, raw)

    def _physical(key, raw):
        # keep the model's equalities/disequalities but map into a range the
        # real kernels accept
        base = {"emodulus temperature": 23.0, "emodulus viscosity": 5.0,
                "pixel size": 0.34, "flow rate": 0.04,
                "channel width": 20.0, "frame rate": 2000.0}.get(key, 0.1)
        return base * (1.0 + 0.05 * np.tanh(raw))

    feats = p["feats"]
    fails = []
    with quiet(), plugin(p.get("plugin")):
        from dclab.rtdc_dataset import feat_temp
        temps = dict(p.get("temps", {}))

        def make():
            d = base_data(feats)
            if "area_um" in d:
                d["area_um"] = np.array([80.0, 120.0])
                d["deform"] = np.array([0.05, 0.08])
            if "temp" in d:
                d["temp"] = np.array([22.5, 23.5])
            dsn = dclab.new_dataset(d)
            for f, ver in temps.items():
                feat_temp.set_temporary_feature(dsn, f, temp_data(f, ver))
            return dsn
        ds = make()
        _concrete_cfg(ds, p["cfg"], num)
        feat = p["target"]

        def rd(x):
            try:
                return True, np.array(x[feat], dtype=float)
            except (Exception, ctc.MissingCrosstalkMatrixElementsError) as e:
                return False, e
        rd(ds)
        for ed in p["edits"]:
            if ed[0] == "set":
                ds.config[ed[1]][ed[2]] = num(ed[2]) if ed[3] == "num" \
                    else ed[3]
            elif ed[0] == "readf":
                try:
                    ds[ed[1]]
                except Exception:
                    pass
            elif ed[0] == "temp":
                temps[ed[1]] = ed[2]
                feat_temp.set_temporary_feature(ds, ed[1],
                                                temp_data(ed[1], ed[2]))
            else:
                ds.config[ed[1]].pop(ed[2], None)
        avail = feat in ds
        ok, data = rd(ds)
        if (feat in ds.features) != bool(avail):
            fails.append("listing: ds.features %s %r although `%s in ds` is "
                         "%s (edits %r)" % (
                             "lists" if feat in ds.features else "omits",
                             feat, feat, bool(avail), p["edits"]))
        if bool(avail) != ok:
            fails.append("availability: `%s in ds` is %s but reading %s "
                         "(config %r)" % (
                             feat, bool(avail), "succeeds" if ok else
                             "raises %r" % (data,),
                             {k: dict(ds.config[k]) for k in
                              ("calculation",)}))
        if feat == "emodulus" and ok and str(v.get("what", "")).startswith(
                "scenario"):
            # documented precedence of the temperature sources
            from dclab.features.emodulus import get_emodulus
            calc = ds.config["calculation"]
            med = calc.get("emodulus medium", "other")
            if "emodulus temperature" in calc and \
                    "emodulus viscosity" not in calc:
                temp = calc["emodulus temperature"]
                src = "[calculation] emodulus temperature (scenario C)"
            elif "temp" in ds and "emodulus viscosity" not in calc:
                temp = ds["temp"]
                src = "the temp feature (scenario A)"
            else:
                temp = None
            if temp is not None:
                try:
                    exp = get_emodulus(
                        deform=ds["deform"], area_um=ds["area_um"],
                        medium=med, channel_width=ds.config["setup"][
                            "channel width"],
                        flow_rate=ds.config["setup"]["flow rate"],
                        px_um=ds.config["imaging"]["pixel size"],
                        temperature=temp, lut_data=calc["emodulus lut"],
                        visc_model=calc.get("emodulus viscosity model"))
                    if not np.allclose(data, exp, equal_nan=True,
                                       rtol=1e-12, atol=0):
                        fails.append("precedence: emodulus is %r, with %s it "
                                     "must be %r" % (data.tolist(), src,
                                                     np.asarray(exp).tolist()))
                except Exception:
                    pass
        ds2 = make()
        for sec in ("calculation", "imaging", "setup"):
            for k in list(ds2.config[sec].keys()):
                if k not in ds.config[sec]:
                    ds2.config[sec].pop(k)
            for k in ds.config[sec]:
                ds2.config[sec][k] = ds.config[sec][k]
        ok2, data2 = rd(ds2)
        if ok and ok2 and not np.allclose(data, data2, equal_nan=True,
                                          rtol=1e-12, atol=0):
            fails.append("stale value: long-lived dataset returns %r, a "
                         "fresh dataset with the same configuration %r "
                         "(edit %r)" % (data.tolist(), data2.tolist(),
                                        p["edits"]))
        elif ok != ok2:
            fails.append("long-lived dataset %s, fresh dataset %s" % (ok,
                                                                      ok2))
    if not fails:
        return {"reproduced": False, "key": "not-reproduced",
                "detail": "history passes on the real code %r" % (p,)}
    return {"reproduced": True, "key": classify(fails[0], p, v),
            "detail": fails[0]}


def final_cfg(p):
    cfg = {sec: dict(kv) for sec, kv in p["cfg"].items()}
    for ed in p["edits"]:
        if ed[0] == "set":
            cfg.setdefault(ed[1], {})[ed[2]] = ed[3]
        elif ed[0] == "del":
            cfg.get(ed[1], {}).pop(ed[2], None)
    return cfg


def classify(msg, p, v):
    feat = p["target"]
    fam = "fl_max_ctc" if feat.endswith("_ctc") else feat
    calc = final_cfg(p).get("calculation", {})
    if msg.startswith("availability"):
        if "does not exist" in msg:
            return "%s|in-ds-True-but-KeyError|cached-result-outlives-" \
                   "availability" % fam
        med = str(calc.get("emodulus medium", "other"))
        if "You must not set the 'emodulus viscosity'" in msg and \
                "emodulus viscosity" in calc and med.lower() != "other":
            return "emodulus|available-but-raises|known-medium+viscosity"
        if "Only the following media are supported" in msg and \
                med.lower() == "other" and "emodulus viscosity" not in calc:
            return "emodulus|available-but-raises|medium-not-supported"
        nct = len([k for k in calc if k.startswith("crosstalk fl")])
        if "MissingCrosstalkMatrixElementsError" in msg and nct < 6 and \
                len(p["feats"]) == 3:
            return "fl_max_ctc|available-but-raises|three-channels-" \
                   "incomplete-matrix"
        return fam + "|availability|" + msg.split("but reading")[1][:60]
    if msg.startswith("precedence"):
        return "emodulus|temperature-precedence"
    if msg.startswith("listing"):
        return "%s|features-list-disagrees-with-availability" % fam
    if msg.startswith("stale"):
        eds = [e for e in p["edits"] if e[0] in ("set", "del")]
        ed = eds[-1] if eds else ["?", "?", "?"]
        k = ed[2]
        if k.startswith("crosstalk"):
            k = "crosstalk-coefficient-not-in-recipe"
        return "%s|stale-after-edit|%s" % (fam, k)
    if msg.startswith("long-lived"):
        return "%s|cached-value-although-fresh-dataset-fails" % fam
    return fam + "|" + msg[:40]


CANARIES = [
    dict(name="hash ignores config values", module=AFM,
         qualname="AncillaryFeature.hash",
         old='data = "{}:{}={}".format(sec, key, val)',
         new='data = "{}:{}".format(sec, key)'),
    dict(name="cache hit without hash comparison", module=CORE,
         qualname="RTDCBase._get_ancillary_feature_data",
         old="if self._ancillaries[feat][0] == anhash:", new="if True:"),
    dict(name="temp feature beats configured temperature", module=AEM,
         qualname="compute_emodulus",
         old="if temperature is not None:\n            # case C",
         new="if temperature is not None and \"temp\" not in mm:\n"
             "            # case C"),
]
