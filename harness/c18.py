"""C18 -- contour-, image- and fluorescence-derived features obey their
definitions.

Real code executed symbolically (exact reals, nlsat): cont_moments_cv
(translation invariance, axis swap), vol_revolve (orientation flip, cubic
scaling), get_bright / get_bright_bc / get_bright_perc (mean under the mask,
offsets shift one-to-one for every container kind), correct_crosstalk /
get_compensation_matrix (inverts the modelled spill-over).
"""
import itertools
import random

import numpy as np
import z3

from vf.common import real
from vf.dcsym import shadow, quiet
from vf.symnp import SArr, SMat, SymNP, nanreduce
from vf.symx import (Engine, SBool, SFloat, SInt, SReal, NotModelled, tobool,
                     toint, toreal)

PID = "C18"
CASE_TIMEOUT = 240
IR = "dclab.features.inert_ratio"
VO = "dclab.features.volume"
BR = "dclab.features.bright"
BC = "dclab.features.bright_bc"
BP = "dclab.features.bright_perc"
CT = "dclab.features.fl_crosstalk"
FUNCTIONS = [(IR, "cont_moments_cv"), (VO, "vol_revolve"), (BR, "get_bright"),
             (BC, "get_bright_bc"), (BP, "get_bright_perc"),
             (CT, "correct_crosstalk"), (CT, "get_compensation_matrix")]
BOUNDS = {
    "quick": {"moments": "contours of 3..4 real vertices, any translation; "
              "float32 / float16 contours: coordinate products must be "
              "formed in 64 bit (dtype flow; numerical witness in the "
              "replay)",
              "volume": "3..4 contour points, r >= 0, any scale > 0",
              "brightness": "1..2 events, 3 pixels each, integer images and "
              "backgrounds, any mask with >= 1 pixel, offset scalar / per "
              "event in every container kind",
              "crosstalk": "any non-negative invertible 3x3 spill matrix "
              "(unit diagonal), any real signals"},
    "thorough": {"moments": "3..5 vertices", "volume": "3..5 points"},
}
OUTSIDE = ["marching-squares contour tracing and 'refilling reproduces the "
           "mask' (compiled _find_contours_cy; 16 cases per cell)",
           "rotation invariance of the principal inertia ratio (arctan2, "
           "cos, sin)", "convergence of the volume to analytic values "
           "(limit statement)", "convex hull (Qhull)", "floating point "
           "rounding (exact reals)", "np.std / np.percentile themselves "
           "(uninterpreted functions of the selected pixels)"]
STUBS = ["numpy shim incl. roll, diff, resize, symbolic 3x3 inverse "
         "(adjugate / determinant)", "np.std, np.percentile: uninterpreted"]
ASSUMPTIONS = ["contours have non-vanishing area where the code requires it",
               "spill matrices are invertible with non-negative entries"]
EXPLANATION = "C18: algebraic laws of the feature kernels over the reals."


# ---------------------------------------------------------------- moments
def run_moments(eng, p):
    n = p["n"]
    xs = [eng.real("x%d" % i) for i in range(n)]
    ys = [eng.real("y%d" % i) for i in range(n)]
    npx = SymNP()
    ns = shadow(IR, np=npx, abs=abs)
    f = ns["cont_moments_cv"]
    if p.get("dtype"):
        # a contour given in a narrow floating-point type: the products of
        # pixel coordinates must be formed in 64 bit (the model's values are
        # exact reals; the loss of precision is shown by the replay)
        import vf.symnp as _snp

        def hook(dt):
            eng.fail("moments: coordinates of a %s contour are multiplied "
                     "in %s (translation invariance is lost to rounding)"
                     % (p["dtype"], dt))
        _snp.NARROW_FLOAT_HOOK = hook
        try:
            f(SMat([[a, b] for a, b in zip(xs, ys)], p["dtype"]))
        finally:
            _snp.NARROW_FLOAT_HOOK = None
        eng.reach()
        return "ok"
    m1 = f(SMat([[a, b] for a, b in zip(xs, ys)], float))
    if p["law"] == "translation":
        tx, ty = eng.real("tx"), eng.real("ty")
        m2 = f(SMat([[a + tx, b + ty] for a, b in zip(xs, ys)], float))
        eng.prove(z3.BoolVal((m1 is None) == (m2 is None)),
                  "moments: degenerate-contour decision is translation "
                  "invariant")
        if m1 is not None and m2 is not None:
            for k in ("m00", "mu20", "mu02", "mu11"):
                eng.prove(toreal(m1[k]) == toreal(m2[k]),
                          "moments: %s is translation invariant" % k)
    else:
        m2 = f(SMat([[b, a] for a, b in zip(xs, ys)], float))
        eng.prove(z3.BoolVal((m1 is None) == (m2 is None)),
                  "moments: degenerate-contour decision is symmetric in x/y")
        if m1 is not None and m2 is not None:
            eng.prove(z3.And(toreal(m1["mu20"]) == toreal(m2["mu02"]),
                             toreal(m1["mu02"]) == toreal(m2["mu20"]),
                             toreal(m1["m00"]) == toreal(m2["m00"])),
                      "moments: exchanging the axes exchanges mu20 and mu02 "
                      "(inertia ratio becomes its reciprocal)")
    return "ok"


# ----------------------------------------------------------------- volume
def run_volume(eng, p):
    n = p["n"]
    rs = [eng.real("r%d" % i) for i in range(n)]
    zs = [eng.real("z%d" % i) for i in range(n)]
    for r in rs:
        eng.assume(r >= 0)
    npx = SymNP()
    ns = shadow(VO, np=npx, len=len)
    f = ns["vol_revolve"]
    v1 = f(SArr(rs, float), SArr(zs, float), 1.0)
    if p["law"] == "flip":
        v2 = f(SArr(rs[::-1], float), SArr(zs[::-1], float), 1.0)
        eng.prove(toreal(v2) == -toreal(v1),
                  "volume: reversing the orientation flips the sign")
    else:
        s = eng.real("scale")
        eng.assume(s > 0)
        v2 = f(SArr(rs, float), SArr(zs, float), s)
        eng.prove(toreal(v2) == toreal(v1) * s.e * s.e * s.e,
                  "volume: scales with the cube of the pixel size")
    return "ok"


def run_get_volume(eng, p):
    """get_volume (the per-event wrapper): a contour with n >= 4 points has
    a volume (not NaN), and repeating one vertex -- a zero-length segment --
    does not change it"""
    from vf.symnp import SMat
    from vf.symx import SFloat
    n = p["n"]
    xs = [eng.real("cx%d" % i) for i in range(n)]
    ys = [eng.real("cy%d" % i) for i in range(n)]
    px, py = eng.real("posx"), eng.real("posy")
    npx = SymNP()
    ns = shadow(VO, np=npx, len=len, min=min)
    gv = ns["get_volume"]

    def vol(xl, yl):
        cont = SMat([[a, b] for a, b in zip(xl, yl)], float)
        with quiet():
            return gv(cont, px, py, 1.0)
    v1 = SFloat.lift(vol(xs, ys))
    eng.prove(z3.Not(v1.nan) if n >= 4 else v1.nan,
              "get_volume: a contour of >= 4 points has a volume, fewer "
              "points give NaN")
    if n >= 4:
        k = p["dup"]
        v2 = SFloat.lift(vol(xs[:k + 1] + xs[k:], ys[:k + 1] + ys[k:]))
        eng.prove(z3.And(z3.Not(v2.nan), v2.v == v1.v),
                  "get_volume: repeating a vertex does not change the "
                  "volume")
    return "ok"


def _lazy_masks(n):
    out = []
    for i in range(n):
        m = np.zeros((10, 10), dtype=bool)
        m[2:5 + i % 3, 2:5 + i // 3] = True
        out.append(m)
    return out


def run_lazy(eng, p):
    """LazyContourList (bounded cache of computed contours): whatever the
    access history, item i is the contour of mask i (real class; the contour
    tracer itself is replaced by a tag of the mask it was given)"""
    CO = "dclab.features.contour"
    n, k, cap = p["n"], p["k"], p["cap"]
    masks = _lazy_masks(n)
    ns = shadow(CO, get_contour=lambda m: ("contour-of", m.tobytes()))
    lst = ns["LazyContourList"](masks, max_events=cap)
    for j in range(k):
        i = eng.int("i%d" % j)
        eng.assume((i >= 0) & (i < n))
        ii = int(eng.concretize(i))
        got = lst[ii]
        eng.prove(z3.BoolVal(got == ("contour-of", masks[ii].tobytes())),
                  "LazyContourList[i] is the contour of mask i",
                  info={"access": j, "index": ii})
    return "ok"


def run_dedup(eng, p):
    """features.contour.remove_duplicates: consecutive duplicate points of a
    (circular) contour are removed, nothing else -- in particular the last
    point of an OPEN contour (mask touching the image border) is kept"""
    from vf.symnp import SMat
    CO = "dclab.features.contour"
    n = p["n"]
    xs = [eng.int("px%d" % i) for i in range(n)]
    ys = [eng.int("py%d" % i) for i in range(n)]
    for v in xs + ys:
        eng.assume((v >= 0) & (v <= 3))
    ns = shadow(CO, np=SymNP(), len=len)
    cont = SMat([[a, b] for a, b in zip(xs, ys)], int)
    with quiet():
        out = ns["remove_duplicates"](cont)
    got = [(r[0], r[1]) for r in (out.rows if hasattr(out, "rows")
                                  else list(out))]
    # specification on this path (equalities were decided while executing)
    pts = list(zip(xs, ys))

    def eqp(a, b):
        return bool(eng.branch(z3.And(toint(a[0]) == toint(b[0]),
                                      toint(a[1]) == toint(b[1]))))
    exp = [pts[0]]
    for i in range(1, n):
        if not eqp(pts[i], pts[i - 1]):
            exp.append(pts[i])
    if eqp(pts[-1], pts[0]) and len(exp) >= 1:
        exp = exp[:-1]           # circular: closing duplicate of the start
    ok = len(got) == len(exp)
    eng.prove(conj_eq(got, exp) if ok else z3.BoolVal(False),
              "remove_duplicates == contour without consecutive (circular) "
              "duplicates", info={"points kept": len(got),
                                  "expected": len(exp)})
    return "ok"


def conj_eq(a, b):
    return z3.And([z3.And(toint(p[0]) == toint(q[0]),
                          toint(p[1]) == toint(q[1]))
                   for p, q in zip(a, b)] or [z3.BoolVal(True)])


# ------------------------------------------------------------- brightness
class UFs:
    """uninterpreted std / percentile: same pixels -> same symbol"""

    def __init__(self, eng):
        self.eng = eng
        self.calls = []

    def _get(self, name, elems, extra=()):
        for nm, el, ex, res in self.calls:
            if nm == name and ex == extra and len(el) == len(elems) and all(
                    z3.is_true(z3.simplify(toreal(a) == toreal(b)))
                    for a, b in zip(el, elems)):
                return res
        res = [SReal(z3.Real("%s_%d_%d" % (name, len(self.calls), i)))
               for i in range(max(1, len(extra)))]
        # congruence with earlier calls whose arguments are not literally
        # the same terms: equal arguments => equal results
        for nm, el, ex, pres in self.calls:
            if nm == name and ex == extra and len(el) == len(elems):
                self.eng._add(z3.Implies(
                    z3.And([toreal(a) == toreal(b)
                            for a, b in zip(el, elems)] or [True]),
                    z3.And([a.e == b.e for a, b in zip(res, pres)])))
        self.calls.append((name, list(elems), extra, res))
        return res

    def std(self, a):
        return self._get("std", list(a))[0]

    def percentile(self, a, q=None):
        return self._get("perc", list(a), tuple(q))


class ListLike:
    """container that is neither list nor ndarray (e.g. an HDF5 dataset)"""

    def __init__(self, items):
        self.items = list(items)

    def __len__(self):
        return len(self.items)

    def __getitem__(self, i):
        return self.items[i]

    def __iter__(self):
        return iter(self.items)


def make_offset(eng, kind, nev):
    offs = [eng.real("off%d" % i) for i in range(nev)]
    if kind == "none":
        return None, [None] * nev
    if kind == "scalar":
        return offs[0], [offs[0]] * nev
    if kind == "list":
        return list(offs), offs
    if kind == "array":
        return SArr(offs, float), offs
    if kind == "h5like":
        return ListLike(offs), offs
    raise ValueError(kind)


def run_bright(eng, p):
    nev, npx_ = p["nev"], 3
    uf = UFs(eng)
    npx = SymNP(std=uf.std, percentile=uf.percentile)
    imgs, bgs, masks = [], [], []
    for e in range(nev):
        # gray values of up to 16 bit (8-, 12- and 16-bit cameras)
        imgs.append(SArr([eng.int("img%d_%d" % (e, i)) for i in range(npx_)],
                         np.uint16))
        bgs.append(SArr([eng.int("bg%d_%d" % (e, i)) for i in range(npx_)],
                        np.uint16))
        for v in imgs[-1].elems + bgs[-1].elems:
            eng.assume((v >= 0) & (v <= 65535))
        mb = [eng.bool("m%d_%d" % (e, i)) for i in range(npx_)]
        eng.assume(SBool(z3.Or([b.e for b in mb])))
        masks.append(SArr(mb, bool))
    fn = p["fn"]
    mod = {"bright": BR, "bright_bc": BC, "bright_perc": BP}[fn]
    ns = shadow(mod, np=npx, min=min, len=len)
    off, offs = make_offset(eng, p["off"], nev)
    with quiet():
        if fn == "bright":
            avg, sd = ns["get_bright"](mask=masks, image=imgs,
                                       ret_data="avg,sd")
        elif fn == "bright_bc":
            avg, sd = ns["get_bright_bc"](mask=masks, image=imgs,
                                          image_bg=bgs, bg_off=off,
                                          ret_data="avg,sd")
        else:
            p10, p90 = ns["get_bright_perc"](mask=masks, image=imgs,
                                             image_bg=bgs, bg_off=off)
    for e in range(nev):
        sel = [i for i in range(npx_) if bool(masks[e].elems[i])]
        pix = [imgs[e].elems[i] if fn == "bright" else
               imgs[e].elems[i] - bgs[e].elems[i] for i in sel]
        tot = z3.Sum([z3.ToReal(toint(x)) for x in pix])
        mean = tot / len(pix)
        o = offs[e]
        shift = toreal(o) if o is not None else z3.RealVal(0)
        if fn in ("bright", "bright_bc"):
            got = SFloat.lift(list(avg)[e])
            eng.prove(z3.And(z3.Not(got.nan), got.v == mean - shift),
                      "%s: average == mean of the (corrected) image under "
                      "the mask minus the offset" % fn)
        else:
            ref = uf.percentile(SArr(pix, int), q=[10, 90])
            for got, r, nm in ((list(p10)[e], ref[0], "p10"),
                               (list(p90)[e], ref[1], "p90")):
                g = SFloat.lift(got)
                eng.prove(z3.And(z3.Not(g.nan), g.v == r.e - shift),
                          "bright_perc: %s == percentile of the corrected "
                          "image under the mask minus the offset" % nm)
    return "ok"


# -------------------------------------------------------------- crosstalk
def run_crosstalk(eng, p):
    from harness.c06 import _CtNP
    ns = shadow(CT, np=_CtNP, int=int)
    c = {}
    for i in (1, 2, 3):
        for j in (1, 2, 3):
            if i != j:
                c[(i, j)] = eng.real("ct%d%d" % (i, j))
                eng.assume(c[(i, j)] >= 0)
            else:
                c[(i, j)] = SReal(z3.RealVal(1))
    if p["chan"] == 2:
        for k in ((1, 3), (3, 1), (2, 3), (3, 2)):
            eng.assume(c[k] == 0)
    s = [eng.real("s%d" % i) for i in (1, 2, 3)]
    # measured signals: f_j = sum_i s_i * c_ij
    f = [s[0] * c[(1, j)] + s[1] * c[(2, j)] + s[2] * c[(3, j)]
         for j in (1, 2, 3)]
    for ch in (1, 2, 3):
        out = ns["correct_crosstalk"](
            fl1=f[0], fl2=f[1], fl3=f[2], fl_channel=ch,
            ct21=c[(2, 1)], ct31=c[(3, 1)], ct12=c[(1, 2)],
            ct32=c[(3, 2)], ct13=c[(1, 3)], ct23=c[(2, 3)])
        eng.prove(toreal(out) == s[ch - 1].e,
                  "crosstalk correction recovers the original signal of "
                  "channel %d" % ch)
    return "ok"


def run_case(name, params):
    eng = Engine(timeout_ms=60000, nra=params["kind"] in (
        "moments", "volume", "crosstalk", "get_volume"))
    fn = {"moments": run_moments, "volume": run_volume, "bright": run_bright,
          "crosstalk": run_crosstalk, "get_volume": run_get_volume,
          "dedup": run_dedup, "lazy": run_lazy}[
        params["kind"]]
    eng.explore(lambda e: fn(e, params))
    return eng.stats()


def cases(tier, seed):
    out = []
    nmax = 4 if tier == "quick" else 5
    for n in range(3, nmax + 1):
        for law in ("translation", "swap"):
            out.append(("moments n=%d %s" % (n, law),
                        dict(kind="moments", n=n, law=law)))
    for dt in ("float32", "float16"):
        out.append(("moments of a %s contour" % dt,
                    dict(kind="moments", n=3, law="translation", dtype=dt)))
        for law in ("flip", "scale"):
            out.append(("volume n=%d %s" % (n, law),
                        dict(kind="volume", n=n, law=law)))
    for n in ((2, 3) if tier == "quick" else (2, 3, 4)):
        out.append(("remove_duplicates n=%d" % n, dict(kind="dedup", n=n)))
    for cap in (1, 2):
        out.append(("lazy contour list, cache of %d, 4 accesses" % cap,
                    dict(kind="lazy", n=3, k=4, cap=cap)))
    out.append(("get_volume n=3", dict(kind="get_volume", n=3, dup=0)))
    for dup in ((0, 3) if tier == "quick" else (0, 1, 2, 3)):
        out.append(("get_volume n=4 dup=%d" % dup,
                    dict(kind="get_volume", n=4, dup=dup)))
    if tier == "thorough":
        out.append(("get_volume n=5 dup=2", dict(kind="get_volume", n=5,
                                                 dup=2)))
    for nev in (1, 2):
        out.append(("bright nev=%d" % nev, dict(kind="bright", fn="bright",
                                                nev=nev, off="none")))
        for fn in ("bright_bc", "bright_perc"):
            for off in ("none", "scalar", "list", "array", "h5like"):
                out.append(("%s nev=%d off=%s" % (fn, nev, off),
                            dict(kind="bright", fn=fn, nev=nev, off=off)))
    for chan in (2, 3):
        out.append(("crosstalk %d channels" % chan,
                    dict(kind="crosstalk", chan=chan)))
    random.Random(seed).shuffle(out)
    return out


# ------------------------------------------------------------------ replay
def replay(case, params, v):
    vals = v.get("values") or {}
    p = params
    k = p["kind"]
    fails = []
    if k == "bright":
        nev = p["nev"]
        imgs = [np.array([[int(vals.get("img%d_%d" % (e, i), 0)) % 65536
                           for i in range(3)]], dtype=np.uint16)
                for e in range(nev)]
        bgs = [np.array([[int(vals.get("bg%d_%d" % (e, i), 0)) % 65536
                          for i in range(3)]], dtype=np.uint16)
               for e in range(nev)]
        masks = [np.array([[bool(vals.get("m%d_%d" % (e, i), False))
                            for i in range(3)]]) for e in range(nev)]
        for m in masks:
            if not m.any():
                m[0, 0] = True
        offs = [float(vals.get("off%d" % i, 0.0)) for i in range(nev)]
        kind = p["off"]
        off = {"none": None, "scalar": offs[0], "list": list(offs),
               "array": np.array(offs), "h5like": ListLike(offs)}[kind]
        eff = [0.0] * nev if kind == "none" else (
            [offs[0]] * nev if kind == "scalar" else offs)
        try:
            with quiet():
                if p["fn"] == "bright":
                    avg, _ = real(BR, "get_bright")(masks, imgs, "avg,sd")
                    exp = [np.mean(imgs[e][masks[e]]) for e in range(nev)]
                    got = list(avg)
                elif p["fn"] == "bright_bc":
                    avg, _ = real(BC, "get_bright_bc")(
                        masks, imgs, bgs, bg_off=off, ret_data="avg,sd")
                    exp = [np.mean((imgs[e].astype(int) - bgs[e])[masks[e]])
                           - eff[e] for e in range(nev)]
                    got = list(avg)
                else:
                    p10, p90 = real(BP, "get_bright_perc")(masks, imgs, bgs,
                                                           bg_off=off)
                    exp = [np.percentile((imgs[e].astype(int) - bgs[e])[
                        masks[e]], 10) - eff[e] for e in range(nev)]
                    got = list(p10)
            if not np.allclose(got, exp):
                fails.append("%s with bg_off=%r (%s): got %r, expected %r" %
                             (p["fn"], off, kind, got, exp))
        except Exception as e:
            fails.append("get_%s(bg_off=%s of %d values) raised %r" % (
                p["fn"], kind, nev, e))
        key = "%s|offset-%s" % (p["fn"], "raises" if fails and
                                "raised" in fails[0] else "wrong")
    elif k == "crosstalk":
        cc = {(i, j): float(vals.get("ct%d%d" % (i, j), 0.0))
              for i in (1, 2, 3) for j in (1, 2, 3) if i != j}
        s = [float(vals.get("s%d" % i, 0.0)) for i in (1, 2, 3)]
        C = np.eye(3)
        for (i, j), val in cc.items():
            C[i - 1, j - 1] = val
        f = np.array(s) @ C
        for ch in (1, 2, 3):
            out = real(CT, "correct_crosstalk")(
                f[0], f[1], f[2], ch, ct21=cc[(2, 1)], ct31=cc[(3, 1)],
                ct12=cc[(1, 2)], ct32=cc[(3, 2)], ct13=cc[(1, 3)],
                ct23=cc[(2, 3)])
            if not np.isclose(out, s[ch - 1], rtol=1e-6, atol=1e-9):
                fails.append("crosstalk correction of channel %d returns %r, "
                             "signal was %r (matrix %r)" % (ch, out,
                                                            s[ch - 1], cc))
        key = "correct_crosstalk|not-inverse"
    elif k == "moments" and p.get("dtype"):
        # numerical witness: a regular polygon far from the origin, given in
        # the narrow type, against the same polygon at the origin in float64
        n = max(p["n"], 8)
        ang = np.linspace(0, 2 * np.pi, n, endpoint=False)
        base = np.stack([12 * np.cos(ang), 7 * np.sin(ang)], axis=1)
        f = real(IR, "cont_moments_cv")
        m1 = f(base)
        m2 = f((base + np.array([250., 250.])).astype(p["dtype"]))
        for a in ("mu20", "mu02", "mu11"):
            if m2 is None or not np.isclose(m1[a], m2[a], rtol=1e-5,
                                            atol=1e-3):
                fails.append("moments of a %s contour shifted by (250, 250): "
                             "%s=%r, unshifted float64 contour: %r" % (
                                 p["dtype"], a, None if m2 is None else
                                 float(m2[a]), float(m1[a])))
        key = "cont_moments_cv|narrow-float-contour|not-translation-invariant"
    elif k == "moments":
        n = p["n"]
        cont = np.array([[float(vals.get("x%d" % i, 0)),
                          float(vals.get("y%d" % i, 0))] for i in range(n)])
        f = real(IR, "cont_moments_cv")
        m1 = f(cont)
        if p["law"] == "translation":
            t = np.array([float(vals.get("tx", 0)), float(vals.get("ty", 0))])
            m2 = f(cont + t)
            names = [("mu20", "mu20"), ("mu02", "mu02"), ("mu11", "mu11")]
        else:
            m2 = f(cont[:, ::-1].copy())
            names = [("mu20", "mu02"), ("mu02", "mu20")]
        if (m1 is None) != (m2 is None):
            fails.append("degenerate decision differs")
        elif m1 is not None:
            for a, b in names:
                if not np.isclose(m1[a], m2[b], rtol=1e-6, atol=1e-9):
                    fails.append("moments %s: %s=%r vs %s=%r for contour %r"
                                 % (p["law"], a, m1[a], b, m2[b],
                                    cont.tolist()))
        key = "cont_moments_cv|%s" % p["law"]
    elif k == "lazy":
        from dclab.features.contour import LazyContourList, get_contour
        masks = _lazy_masks(p["n"])
        lst = LazyContourList(masks, max_events=p["cap"])
        hist = [int(vals.get("i%d" % j, 0)) for j in range(p["k"])]
        for j, i in enumerate(hist):
            got = np.asarray(lst[i])
            exp = np.asarray(get_contour(masks[i]))
            if got.shape != exp.shape or not np.all(got == exp):
                fails.append("LazyContourList(max_events=%d): after the "
                             "accesses %r, item %d is not the contour of "
                             "mask %d" % (p["cap"], hist[:j], i, i))
                break
        key = "LazyContourList|wrong-contour-after-eviction"
    elif k == "dedup":
        from dclab.features.contour import remove_duplicates
        n = p["n"]
        cont = np.array([[int(vals.get("px%d" % i, 0) or 0),
                          int(vals.get("py%d" % i, 0) or 0)]
                         for i in range(n)])
        got = remove_duplicates(cont).tolist()
        pts = cont.tolist()
        exp = [pts[0]] + [pts[i] for i in range(1, n)
                          if pts[i] != pts[i - 1]]
        if pts[-1] == pts[0]:
            exp = exp[:-1]
        if got != exp:
            fails.append("remove_duplicates(%r) == %r, expected %r" % (
                pts, got, exp))
        key = "remove_duplicates|" + ("open-contour" if pts[-1] != pts[0]
                                      else "closed-contour")
    elif k == "get_volume":
        n = p["n"]
        gv = real(VO, "get_volume")
        cont = np.array([[float(vals.get("cx%d" % i, 0) or 0),
                          float(vals.get("cy%d" % i, 0) or 0)]
                         for i in range(n)])
        pos = (float(vals.get("posx", 0) or 0), float(vals.get("posy", 0)
                                                      or 0))
        trials = [cont, np.array([[0., 1.], [2., 1.], [2., 3.], [0., 3.]][:n]
                                 + [[1., 4.]] * max(0, n - 4))]
        for c in trials:
            v1 = gv(c, pos[0], pos[1], 1.0)
            if n >= 4 and np.isnan(v1):
                fails.append("get_volume of the %d-point contour %r is NaN"
                             % (n, c.tolist()))
                break
            if n >= 4:
                kd = p["dup"]
                c2 = np.concatenate([c[:kd + 1], c[kd:]])
                v2 = gv(c2, pos[0], pos[1], 1.0)
                if not np.isclose(v1, v2, rtol=1e-9, atol=1e-12,
                                  equal_nan=False):
                    fails.append("get_volume changes from %r to %r when "
                                 "vertex %d of %r is repeated" % (
                                     v1, v2, kd, c.tolist()))
                    break
        key = "get_volume|contour-size"
    elif k == "volume":
        n = p["n"]
        r = np.array([float(vals.get("r%d" % i, 0)) for i in range(n)])
        z = np.array([float(vals.get("z%d" % i, 0)) for i in range(n)])
        f = real(VO, "vol_revolve")
        v1 = f(r, z, 1.0)
        if p["law"] == "flip":
            v2 = f(r[::-1], z[::-1], 1.0)
            ok = np.isclose(v2, -v1, rtol=1e-6, atol=1e-9)
        else:
            s = float(vals.get("scale", 1.0))
            v2 = f(r, z, s)
            ok = np.isclose(v2, v1 * s ** 3, rtol=1e-6, atol=1e-9)
        if not ok:
            fails.append("vol_revolve %s law: %r vs %r (r=%r z=%r)" % (
                p["law"], v1, v2, r.tolist(), z.tolist()))
        key = "vol_revolve|%s" % p["law"]
    if not fails:
        return {"reproduced": False, "key": "not-reproduced",
                "detail": "law holds on the real code for the model values"}
    return {"reproduced": True, "key": key, "detail": fails[0]}


CANARIES = [
    dict(name="moments: wrong centroid term", module=IR,
         qualname="cont_moments_cv",
         old='m["mu20"] = m["m20"] - m["m10"]*cx',
         new='m["mu20"] = m["m20"] - m["m10"]*cy'),
    dict(name="volume: quadratic scaling", module=VO, qualname="vol_revolve",
         old="vol = np.sum(v) * point_scale ** 3",
         new="vol = np.sum(v) * point_scale ** 2"),
    dict(name="brightness: offset added", module=BC,
         qualname="get_bright_bc", old="avg -= bg_off", new="avg += bg_off"),
    dict(name="crosstalk: transposed matrix", module=CT,
         qualname="correct_crosstalk",
         old="col = minv[:, fl_channel - 1].flatten()",
         new="col = minv[fl_channel - 1, :].flatten()"),
]
