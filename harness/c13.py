"""C13 -- the integrity checker accepts the writer's output and flags real
inconsistencies.

Pipeline per case: (1) the REAL RTDCWriter (store_metadata, store_feature,
write_image_grayscale, store_log, rectify_metadata) writes a file with
complete metadata into the in-memory HDF5 model; feature payloads are
symbolic; (2) zero, one or two CORRUPTIONS with symbolic parameters are
applied with raw (model) h5py calls; (3) the REAL IntegrityChecker.check
(every check_* method, ICue sorting, check_dataset, hdf5_has_external) runs on
a thin reader view of that file; (4) z3 proves, on every path, that the set
of violation cues is exactly the set the independent specification derives
from the corrupted state (no corruption => no violation; each inconsistency
=> its violation), and that the copy made by the real rtdc_copy receives the
same violations.
"""
import itertools
import random

import numpy as np
import z3

from vf import symh5
from vf.common import real
from vf.dcsym import shadow, quiet, sym_writer
from vf.symnp import SArr, SymNP, Tok
from vf.symx import (Engine, SBool, SFloat, SInt, SReal, NotModelled, tobool,
                     toint, toreal, smax, smin, srange)
from vf.symx import Infeasible as symx_Infeasible

PID = "C13"
CK = "dclab.rtdc_dataset.check"
W = "dclab.rtdc_dataset.writer"
CP = "dclab.rtdc_dataset.copier"
FUNCTIONS = [(CK, "IntegrityChecker.check"), (CK, "check_dataset"),
             (CK, "hdf5_has_external"), (CK, "ICue.__lt__"),
             (CK, "IntegrityChecker.has_fluorescence"),
             (W, "RTDCWriter.rectify_metadata"),
             (W, "RTDCWriter.store_metadata"),
             (W, "RTDCWriter.write_image_grayscale"),
             (W, "RTDCWriter.store_feature"), (CP, "rtdc_copy")] + [
    (CK, "IntegrityChecker." + n) for n in (
        "check_basin_features_internal", "check_compression", "check_empty",
        "check_external_links", "check_feat_index", "check_feature_size",
        "check_features_unknown_hdf5", "check_fl_metadata_channel_names",
        "check_fl_num_channels", "check_fl_num_lasers",
        "check_fl_samples_per_event", "check_fl_max_positive",
        "check_flow_rate", "check_fmt_hdf5", "check_info",
        "check_metadata_bad", "check_metadata_bad_greater_zero",
        "check_metadata_choices", "check_metadata_hdf5_type",
        "check_metadata_missing", "check_temperature_zero_zmd")]
BOUNDS = {
    "quick": {"events": 3, "datasets": "scalar-only / +image / +image+mask "
              "/ +mask only / +fluorescence (fl1_max, fl2_max, trace) / trace without "
              "fl?_max", "corruptions": "every single corruption kind with "
              "symbolic parameter (new length 0..5, new event count, new ROI "
              "size, new index value, counts, laser power, set-up value: "
              "arbitrary ints / reals) and selected pairs",
              "image": "2x3 pixels", "trace samples": 4},
    "thorough": {"corruptions": "all pairs of kinds", "events": "3 and 4"},
}
OUTSIDE = ["bytes on disk, real libhdf5 (external link / virtual dataset "
           "detection is a stub attribute)", "tdms files", "ancillary "
           "features visible to the checker (fl?_max_ctc, ml_class)",
           "alerts and info cues (only violations are specified)",
           "type conversion of metadata values (C11)", "command-line exit "
           "codes (one line: exit 4/3/0 from the three lists)",
           "h5repack (external tool); 'compressed copy' = real rtdc_copy"]
STUBS = ["h5py stand-in (vf/symh5.py)", "reader view of the file: config = "
         "attributes split at ':', features = members of /events known to "
         "dclab, len = [experiment] event count (as RTDCBase._get_length), "
         "scalar features as array-likes, filter.all = all True",
         "numpy shim"]
ASSUMPTIONS = ["complete metadata = all keys of IMPORTANT_KEYS (and "
               "IMPORTANT_KEYS_FL plus channel names / laser lambda+power "
               "for fluorescence data)",
               "specification of 'fluorescence data present': an fl?_max "
               "feature, a trace, or a [fluorescence] section"]
EXPLANATION = "C13: real writer -> symbolic corruption -> real checker."

N = 3
H, WID, SAMPLES = 2, 3, 4
FLKEYS = ["bit depth", "channel count", "channels installed", "laser count",
          "lasers installed", "sample rate", "samples per event",
          "signal max", "signal min", "trace median"]


def base_meta(p):
    meta = {
        "experiment": {"date": "2020-01-01", "event count": N,
                       "run index": 1, "sample": "s", "time": "12:00:00"},
        "imaging": {"flash device": "LED", "flash duration": 2.0,
                    "frame rate": 2000., "pixel size": 0.34,
                    "roi position x": 1, "roi position y": 2,
                    "roi size x": WID, "roi size y": H},
        "setup": {"channel width": 20., "chip region": "channel",
                  "flow rate": 0.04, "medium": "CellCarrier"},
    }
    if p.get("stale"):
        # values the writer is documented to rectify
        meta["experiment"]["event count"] = 99
        meta["imaging"]["roi size x"] = 9
        meta["imaging"]["roi size y"] = 11
    if p["ds"] in ("fl", "trace", "fl3"):
        nfl = {"fl": 2, "fl3": 1}.get(p["ds"], 0)
        meta["fluorescence"] = {
            "bit depth": 16, "channel count": nfl, "channels installed": 3,
            "laser count": 2, "lasers installed": 3, "sample rate": 1e6,
            "samples per event": SAMPLES, "signal max": 1., "signal min": -1.,
            "trace median": 0, "laser 1 lambda": 488., "laser 1 power": 5.,
            "laser 2 lambda": 561., "laser 2 power": 7.}
        for i in ((3,) if p["ds"] == "fl3" else range(1, nfl + 1)):
            meta["fluorescence"]["channel %d name" % i] = "FL%d" % i
        if p.get("stale"):
            meta["fluorescence"]["samples per event"] = 77
    return meta


class Ghost:
    """the state the specification is computed from"""

    def __init__(self):
        self.len = {}            # feature (or trace/<name>) -> length
        self.count = N
        self.roi = {"roi size x": WID, "roi size y": H}
        self.shape = {}          # image-like feature -> (h, w)
        self.index = None
        self.unknown = []
        self.missing = set()
        self.chcount = None
        self.nfl = 0
        self.lasercount = None
        self.laser = {}          # i -> (has lambda, power or None)
        self.spe = None
        self.samples = {}
        self.external = None
        self.setup = {}
        self.flsection = False
        self.flfeat = False
        self.trace = False


def make_writer(f):
    from harness.c01 import make_writer as mw
    hw = mw(f)
    hw.path = f.filename
    return hw


def build(eng, p):
    f = symh5.File("c13.rtdc", "w")
    hw = make_writer(f)
    g = Ghost()
    kind = p["ds"]
    with quiet():
        hw.store_metadata(base_meta(p))
        vals = [eng.real("deform%d" % i) for i in range(N)]
        hw.store_feature("deform", SArr(vals, float))
        hw.store_feature("area_um", np.linspace(50, 60, N))
        hw.store_feature("index", np.arange(1, N + 1))
        g.index = list(range(1, N + 1))
        for ft in ("deform", "area_um", "index"):
            g.len[ft] = N
        if kind in ("image", "mask"):
            hw.store_feature("image", SArr([Tok("im", i, (H, WID))
                                            for i in range(N)], np.uint8,
                                           (H, WID)))
            g.len["image"], g.shape["image"] = N, (H, WID)
        if kind in ("mask", "maskonly"):
            hw.store_feature("mask", np.arange(N * H * WID).reshape(
                N, H, WID) % 2 == 0)
            g.len["mask"], g.shape["mask"] = N, (H, WID)
        if kind in ("fl", "trace", "fl3"):
            hw.store_feature("trace", {"fl1_raw": SArr(
                [Tok("tr", i, (SAMPLES,)) for i in range(N)], np.int16,
                (SAMPLES,))})
            g.len["trace/fl1_raw"] = N
            g.samples["fl1_raw"] = SAMPLES
            g.trace = True
            g.flsection = True
            g.spe = SAMPLES
            g.lasercount = 2
            g.laser = {1: (True, 5.), 2: (True, 7.)}
        if kind in ("fl", "fl3"):
            chans = (1, 2) if kind == "fl" else (3,)
            for i in chans:
                fv = [eng.real("fl%d_%d" % (i, j)) for j in range(N)]
                hw.store_feature("fl%d_max" % i, SArr(fv, float))
                g.len["fl%d_max" % i] = N
            g.nfl = len(chans)
            g.flfeat = True
        if kind in ("fl", "trace", "fl3"):
            g.chcount = g.nfl
        hw.store_log("log", ["a line", "another line"])
        hw.rectify_metadata()
    return f, g


# ------------------------------------------------------------- corruptions
def corrupt(eng, f, g, c, tag):
    """apply one corruption with raw h5py calls; update the ghost state"""
    kind = c[0]
    ev = f["events"]
    if kind == "len":
        feat = c[1]
        m = eng.int(tag + "_newlen")
        eng.assume((m >= 0) & (m <= N + 2))
        mc = eng.concretize(m.e)
        ds = ev[feat] if "/" not in feat else ev["trace"][feat.split("/")[1]]
        if ds.chunks is None:
            ds.chunks = (1,) + tuple(ds.shape[1:])
        ds.maxshape = (None,) + tuple(ds.shape[1:])
        ds.resize((mc,) + tuple(ds.shape[1:]))
        if isinstance(ds.data, SArr):
            ds.data.elems = [e if e is not symh5.UNSET else (
                Tok("fill", i, ds.data.item_shape) if ds.data.item_shape
                else SFloat.lift(0.0)) for i, e in enumerate(ds.data.elems)]
        g.len[feat] = mc
        if feat == "index":
            g.index = (g.index + [0] * mc)[:mc]
    elif kind == "count":
        m = eng.int(tag + "_count")
        eng.assume((m >= 0) & (m <= N + 2))
        f.attrs["experiment:event count"] = m
        g.count = m
    elif kind == "roi":
        v = eng.int(tag + "_roi")
        f.attrs["imaging:" + c[1]] = v
        g.roi[c[1]] = v
    elif kind == "index":
        v = eng.int(tag + "_index")
        i = c[1]
        if i >= len(g.index):
            raise symx_Infeasible()     # the index was shortened before
        ev["index"].data = SArr(list(g.index), int)
        ev["index"].data[i] = v
        g.index = list(g.index)
        g.index[i] = v
    elif kind == "unknown":
        from dclab import definitions as dfn
        ev.create_dataset(c[1], data=np.arange(float(N)), chunks=(N,))
        g.unknown.append(c[1])
        if dfn.feature_exists(c[1]):
            g.len[c[1]] = N      # a known (generic) feature: size is checked
    elif kind == "missing":
        del f.attrs["%s:%s" % (c[1], c[2])]
        g.missing.add((c[1], c[2]))
        if (c[1], c[2]) == ("experiment", "event count"):
            g.count = None
        if c[1] == "imaging" and c[2] in g.roi:
            g.roi[c[2]] = None
        if (c[1], c[2]) == ("fluorescence", "channel count"):
            g.chcount = None
        if (c[1], c[2]) == ("fluorescence", "laser count"):
            g.lasercount = None
        if (c[1], c[2]) == ("fluorescence", "samples per event"):
            g.spe = None
    elif kind == "chcount":
        v = eng.int(tag + "_chcount")
        f.attrs["fluorescence:channel count"] = v
        g.chcount = v
    elif kind == "lasercount":
        v = eng.int(tag + "_lasercount")
        f.attrs["fluorescence:laser count"] = v
        g.lasercount = v
    elif kind == "laserpower":
        v = eng.real(tag + "_power")
        f.attrs["fluorescence:laser %d power" % c[1]] = v
        g.laser[c[1]] = (True, v)
    elif kind == "spe":
        v = eng.int(tag + "_spe")
        f.attrs["fluorescence:samples per event"] = v
        g.spe = v
    elif kind == "external":
        other = symh5.File("other.rtdc", "w")
        og = other.require_group("events")
        fds = og.create_dataset("bright_avg", data=np.arange(float(N)),
                                chunks=(N,))
        if c[1] == "deep-link":
            # two levels below the root: /events/trace/<name>
            tg = ev.require_group("trace") if "trace" not in ev else \
                ev["trace"]
            fd2 = og.create_dataset("fl2_raw", data=np.zeros((N, SAMPLES)),
                                    chunks=(N, SAMPLES))
            tg.members["fl2_raw"] = fd2
            g.len["trace/fl2_raw"] = N
            g.samples["fl2_raw"] = SAMPLES
            g.external = "/events/trace/fl2_raw"
            return
        if c[1] == "link":
            ev.members["bright_avg"] = fds
        elif c[1] == "virtual":
            d = ev.create_dataset("bright_avg", data=np.arange(float(N)),
                                  chunks=(N,))
            d.is_virtual = True
        else:
            d = ev.create_dataset("bright_avg", data=np.arange(float(N)),
                                  chunks=(N,))
            d.external = [("raw.bin", 0, 24)]
        g.len["bright_avg"] = N
        g.external = "/events/bright_avg"
    elif kind == "nonpos":
        v = eng.real(tag + "_value")
        f.attrs["%s:%s" % (c[1], c[2])] = v
        g.setup[(c[1], c[2])] = v
    else:
        raise ValueError(kind)


# ------------------------------------------------------------- reader view
class CfgSec(dict):
    pass


class CfgView(dict):
    def __init__(self, attrs):
        dict.__init__(self)
        for k, v in attrs.items():
            if ":" not in k:
                continue
            sec, key = k.split(":", 1)
            if isinstance(v, (bytes, np.bytes_)):
                v = v.decode("utf-8")
            if isinstance(v, np.generic):
                v = v.item()
            self.setdefault(sec, CfgSec())[key] = v

    def __getitem__(self, k):
        # Configuration returns an (empty) section for known names
        if k not in self:
            return CfgSec()
        return dict.__getitem__(self, k)


class ScalarView:
    """H5ScalarEvent stand-in: array-like over a dataset"""

    def __init__(self, ds):
        self.ds = ds

    def __symarray__(self):
        d = self.ds.data
        return d if isinstance(d, SArr) else SArr(list(d), d.dtype)

    def __len__(self):
        return len(self.ds)

    def __iter__(self):
        return iter(self.__symarray__())

    def __getitem__(self, k):
        return self.__symarray__()[k]

    def __eq__(self, o):
        return self.__symarray__() == o

    __hash__ = None

    @property
    def shape(self):
        return self.ds.shape


class EventsView:
    def __init__(self, grp):
        self.grp = grp

    def keys(self):
        from dclab import definitions as dfn
        return [k for k in self.grp.keys() if dfn.feature_exists(k)]

    def __contains__(self, k):
        return k in self.keys()

    def __iter__(self):
        return iter(self.keys())

    def __getitem__(self, k):
        if k not in self:
            raise KeyError(k)
        obj = self.grp[k]
        if k == "trace":
            return {t: obj[t] for t in obj.keys()}
        if len(obj.shape) == 1:
            return ScalarView(obj)
        return obj


def make_view(Base, f):
    class HView(Base):
        format = "hdf5"

        def __init__(self, f):
            self.h5file = f
            self.path = f.filename
            OPEN[f.filename] = f
            self.config = CfgView(f.attrs)
            self._events = EventsView(f["events"])
            self.filter = type("F", (), {})()
            self.filter.all = SArr([True] * 0, bool)

        def _len(self):
            n = self.config["experiment"].get("event count")
            if n is not None:
                return n
            for k in sorted(self._events.keys()):
                ln = len(self[k]) if k != "trace" else 0
                if ln:
                    return ln
            raise ValueError("Could not determine size of dataset")

        def __len__(self):
            return self._len()

        def __contains__(self, feat):
            return feat in self._events

        def __getitem__(self, feat):
            return self._events[feat]

        @property
        def features_innate(self):
            return sorted(self._events.keys())

        def basins_get_dicts(self):
            return []

        def __exit__(self, *a):
            pass
    return HView(f)


#: path -> in-memory file (what `h5py.File(ds.path)` re-opens)
OPEN = {}


class _Reopened:
    """`with h5py.File(path) as h5:` on the in-memory file (closing the
    second handle must not close the first)"""

    def __init__(self, f):
        self.f = f

    def __enter__(self):
        return self.f

    def __exit__(self, *a):
        return False


class DfnProxy:
    """dclab.definitions, except that the converter applied to a SYMBOLIC
    attribute value is the identity (a symbolic int/real already has the
    type the converter would produce; conversion is C11)"""

    def __getattr__(self, k):
        from dclab import definitions as dfn
        return getattr(dfn, k)

    @staticmethod
    def get_config_value_func(sec, key):
        from dclab import definitions as dfn
        func = dfn.get_config_value_func(sec, key)

        def conv(v):
            if isinstance(v, (SInt, SReal, SFloat)):
                return v
            return func(v)
        return conv


def checker_ns():
    npx = SymNP()

    class H5:
        Dataset = symh5.Dataset
        Group = symh5.Group

        @staticmethod
        def File(path, mode="r"):
            return _Reopened(OPEN[str(path)])

    class Base:
        pass
    from harness.c08 import copier_ns
    cns, _ = copier_ns(npx)
    ns = shadow(CK, np=npx, h5py=H5, RTDCBase=Base, RTDC_HDF5=Base,
                is_properly_compressed=cns["is_properly_compressed"],
                min=smin, range=srange, dfn=DfnProxy())
    return ns, Base, cns


# ---------------------------------------------------------------- the spec
def zint(x):
    return toint(x) if isinstance(x, SInt) else z3.IntVal(int(x))


def expected(g):
    """[(id, z3 condition, matcher(cue))] of the violations the
    specification demands for the ghost state"""
    from dclab.rtdc_dataset import check as ckmod
    from dclab import definitions as dfn
    out = []
    cnt = g.count

    def add(i, cond, m):
        if isinstance(cond, tuple):
            out.append((i, cond, m))
            return
        out.append((i, cond if not isinstance(cond, bool)
                    else z3.BoolVal(cond), m))
    if cnt is not None:
        for feat, ln in sorted(g.len.items()):
            add("size:" + feat, z3.IntVal(ln) != zint(cnt),
                lambda c, feat=feat: c.category == "feature size"
                and "'%s'" % feat in c.msg)
        if g.index is not None:
            # with a wrong LENGTH the size violation is what is demanded;
            # the enumeration cue is then optional (cond None)
            samelen = z3.IntVal(len(g.index)) == zint(cnt)
            add("index", ("iff-when", samelen, z3.Or([
                zint(v) != i + 1 for i, v in enumerate(g.index)] or [False])),
                lambda c: "index feature is not enumerated" in c.msg)
    if g.roi["roi size x"] is not None and g.roi["roi size y"] is not None:
        for dim, roi in ((0, "roi size y"), (1, "roi size x")):
            for feat, shp in sorted(g.shape.items()):
                add("roi:%s:%s" % (roi, feat), zint(g.roi[roi]) != shp[dim],
                    lambda c, roi=roi, feat=feat:
                    c.category == "metadata wrong" and c.cfg_key == roi
                    and "feature %s " % feat in c.msg)
    for name in g.unknown:
        if not dfn.feature_exists(name) and name != "def":
            add("unknown:" + name, True,
                lambda c, name=name: c.category == "feature unknown"
                and "'%s'" % name in c.msg)
    hasfl = g.flfeat or g.trace or g.flsection
    important = dict(ckmod.IMPORTANT_KEYS)
    if hasfl:
        important.update(ckmod.IMPORTANT_KEYS_FL)
    for sec, key in sorted(g.missing):
        if key in important.get(sec, []):
            add("missing:%s:%s" % (sec, key), True,
                lambda c, sec=sec, key=key: c.category == "metadata missing"
                and c.cfg_section == sec and c.cfg_key == key)
    if hasfl:
        if g.chcount is not None:
            add("chcount", zint(g.chcount) != g.nfl,
                lambda c: c.cfg_key == "channel count"
                and c.category == "metadata wrong")
        if g.lasercount is not None:
            nl = z3.Sum([z3.If(z3.And(has, toreal(pw) != 0), 1, 0)
                         if pw is not None and has else z3.IntVal(0)
                         for has, pw in g.laser.values()] or [z3.IntVal(0)])
            add("lasercount", zint(g.lasercount) != nl,
                lambda c: c.cfg_key == "laser count"
                and c.category == "metadata wrong")
        if g.spe is not None:
            for tr, s in sorted(g.samples.items()):
                add("spe:" + tr, zint(g.spe) != s,
                    lambda c, tr=tr: c.cfg_key == "samples per event"
                    and ": %s " % tr in c.msg)
    if g.external:
        add("external", True, lambda c: c.category == "format HDF5"
            and "external" in c.msg and g.external in c.msg)
    for (sec, key), v in sorted(g.setup.items()):
        add("nonpos:%s:%s" % (sec, key), toreal(v) <= 0,
            lambda c, sec=sec, key=key: c.category == "metadata wrong"
            and c.cfg_section == sec and c.cfg_key == key
            and "Invalid value" in c.msg)
    return out


def run_checker(ns, Base, f):
    view = make_view(Base, f)
    n = view._len()
    nn = int(n) if not isinstance(n, SInt) else Engine.cur.concretize(n.e)
    view._len = lambda: nn
    view.filter.all = SArr([True] * max(nn, 0), bool)
    if nn < 0:
        view.filter.all = SArr([], bool)
    ic = ns["IntegrityChecker"](view)
    cues = ic.check(expand_section=False)
    return [c for c in cues if c.level == "violation"], cues


def run_file(eng, p, ctx):
    ns, Base, cns = ctx
    f, g = build(eng, p)
    f.mode = "a"
    for k, c in enumerate(p["corrupt"]):
        corrupt(eng, f, g, c, "c%d" % k)
    f.mode = "r"
    with quiet():
        viol, cues = run_checker(ns, Base, f)
    exp = expected(g)
    what = "violations == specification"
    if not p["corrupt"]:
        what = "closure: the writer's file has no violations"
    matched = set()
    for i, cond, m in exp:
        hit = [c for c in viol if m(c)]
        matched.update(id(c) for c in hit)
        if isinstance(cond, tuple):
            cond = z3.Implies(cond[1], cond[2] == z3.BoolVal(bool(hit)))
        else:
            cond = cond == z3.BoolVal(bool(hit))
        eng.prove(cond, what + " [%s]" % i.split(":")[0],
                  info={"item": i, "reported": bool(hit),
                        "violations": [c.msg for c in viol][:6]})
    extra = [c.msg for c in viol if id(c) not in matched]
    eng.prove(z3.BoolVal(not extra), what + " [unexpected violation]",
              info={"unexpected": extra[:4]})
    # sortedness / levels of the real ICue ordering
    lv = [c.level for c in cues]
    eng.prove(z3.BoolVal(lv == sorted(lv, key=["info", "violation",
                                               "alert"].index)),
              "cues sorted by level")
    if p.get("copy"):
        dst = symh5.File("copy.rtdc", "w")
        with quiet():
            cns["rtdc_copy"](f, dst)
            dst.mode = "r"
            v2, _ = run_checker(ns, Base, dst)
        a = sorted((c.category, c.cfg_section or "", c.cfg_key or "",
                    c.msg.split("(")[0]) for c in viol)
        b = sorted((c.category, c.cfg_section or "", c.cfg_key or "",
                    c.msg.split("(")[0]) for c in v2)
        eng.prove(z3.BoolVal(a == b), "copy receives the same violations",
                  info={"file": a[:5], "copy": b[:5]})
    return "ok"


def run_case(name, params):
    ctx = checker_ns()
    eng = Engine(timeout_ms=20000)
    eng.explore(lambda e: run_file(e, params, ctx))
    return eng.stats()


SINGLE = {
    "scalar": [("len", "deform"), ("len", "index"), ("len", "area_um"),
               ("count",), ("index", 0), ("index", 1), ("index", 2),
               ("unknown", "peter"), ("unknown", "def"),
               ("unknown", "userdef3"), ("external", "link"),
               ("external", "virtual"), ("external", "external"),
               ("nonpos", "imaging", "frame rate"),
               ("nonpos", "imaging", "pixel size"),
               ("nonpos", "setup", "channel width"),
               ("nonpos", "setup", "flow rate")],
    "image": [("len", "image"), ("roi", "roi size x"), ("roi", "roi size y"),
              ("count",)],
    "mask": [("len", "mask"), ("roi", "roi size x"), ("roi", "roi size y")],
    "maskonly": [("roi", "roi size x"), ("len", "mask")],
    "fl": [("external", "deep-link"),
           ("len", "trace/fl1_raw"), ("len", "fl1_max"), ("chcount",),
           ("lasercount",), ("laserpower", 1), ("spe",), ("count",)],
    "trace": [("chcount",), ("lasercount",), ("spe",),
              ("len", "trace/fl1_raw")],
    "fl3": [("chcount",), ("lasercount",), ("spe",),
            ("missing", "fluorescence", "bit depth")],
}


def cases(tier, seed):
    from dclab.rtdc_dataset import check as ckmod
    out = []
    for ds in ("scalar", "image", "mask", "maskonly", "fl", "trace", "fl3"):
        out.append(("closure %s" % ds, dict(ds=ds, corrupt=[], copy=True)))
        out.append(("closure %s stale metadata" % ds,
                    dict(ds=ds, corrupt=[], copy=True, stale=True)))
        for c in SINGLE[ds]:
            out.append(("%s %s" % (ds, " ".join(map(str, c))),
                        dict(ds=ds, corrupt=[c],
                             copy=c[0] in ("len", "roi", "count"))))
    for sec, keys in sorted(ckmod.IMPORTANT_KEYS.items()):
        for key in keys:
            out.append(("scalar missing %s:%s" % (sec, key), dict(
                ds="image" if key.startswith("roi") else "scalar",
                corrupt=[("missing", sec, key)])))
    for key in ckmod.IMPORTANT_KEYS_FL["fluorescence"]:
        out.append(("fl missing fluorescence:%s" % key, dict(
            ds="fl", corrupt=[("missing", "fluorescence", key)])))
    pairs = [
        ("image", ("count",), ("len", "image")),
        ("image", ("roi", "roi size x"), ("roi", "roi size y")),
        ("scalar", ("len", "index"), ("count",)),
        ("scalar", ("index", 0), ("index", 2)),
        ("scalar", ("len", "deform"), ("unknown", "peter")),
        ("fl", ("chcount",), ("spe",)),
        ("fl", ("lasercount",), ("laserpower", 2)),
        ("fl", ("len", "fl1_max"), ("chcount",)),
        ("mask", ("len", "mask"), ("roi", "roi size x")),
        ("scalar", ("nonpos", "setup", "flow rate"), ("count",)),
        ("image", ("missing", "imaging", "roi size x"),
         ("roi", "roi size y")),
    ]
    if tier == "thorough":
        rnd = random.Random(seed)
        for ds in ("scalar", "image", "mask", "fl", "trace"):
            kinds = SINGLE[ds] + (SINGLE["scalar"] if ds != "scalar" else [])
            allp = [(a, b) for a, b in itertools.combinations(kinds, 2)
                    if a[:2] != b[:2] and not (a[0] == b[0] == "external")]
            rnd.shuffle(allp)
            for a, b in allp[:40]:
                pairs.append((ds, a, b))
    for ds, a, b in pairs:
        out.append(("%s pair %s + %s" % (ds, " ".join(map(str, a)),
                                         " ".join(map(str, b))),
                    dict(ds=ds, corrupt=[a, b])))
    return out


# ------------------------------------------------------------------ replay
def _concrete_ghost(p, vals):
    """ghost state + list of raw-h5py actions for the model's values"""
    g = Ghost()
    kind = p["ds"]
    g.index = list(range(1, N + 1))
    for ft in ("deform", "area_um", "index"):
        g.len[ft] = N
    if kind in ("image", "mask"):
        g.len["image"], g.shape["image"] = N, (H, WID)
    if kind in ("mask", "maskonly"):
        g.len["mask"], g.shape["mask"] = N, (H, WID)
    if kind in ("fl", "trace", "fl3"):
        g.len["trace/fl1_raw"] = N
        g.samples["fl1_raw"] = SAMPLES
        g.trace = g.flsection = True
        g.spe, g.lasercount = SAMPLES, 2
        g.laser = {1: (True, 5.), 2: (True, 7.)}
    if kind == "fl":
        g.len["fl1_max"] = g.len["fl2_max"] = N
        g.nfl, g.flfeat = 2, True
    if kind == "fl3":
        g.len["fl3_max"] = N
        g.nfl, g.flfeat = 1, True
    if kind in ("fl", "trace", "fl3"):
        g.chcount = g.nfl
    return g


def _real_file(path, p, vals):
    import h5py
    import dclab.rtdc_dataset.writer as Wm
    Wm.version = "0.62.7"

    def fv(name, default=0.5):
        v = vals.get(name)
        return float(v) if v is not None else default
    with Wm.RTDCWriter(path, mode="reset") as hw:
        hw.store_metadata(base_meta(p))
        hw.store_feature("deform", np.array([fv("deform%d" % i, .1 + .01 * i)
                                             for i in range(N)]))
        hw.store_feature("area_um", np.linspace(50, 60, N))
        hw.store_feature("index", np.arange(1, N + 1))
        if p["ds"] in ("image", "mask"):
            hw.store_feature("image", np.arange(N * H * WID).reshape(
                N, H, WID).astype(np.uint8))
        if p["ds"] in ("mask", "maskonly"):
            hw.store_feature("mask", np.arange(N * H * WID).reshape(
                N, H, WID) % 2 == 0)
        if p["ds"] in ("fl", "trace", "fl3"):
            hw.store_feature("trace", {"fl1_raw": np.arange(
                N * SAMPLES).reshape(N, SAMPLES).astype(np.int16)})
        if p["ds"] in ("fl", "fl3"):
            for i in ((1, 2) if p["ds"] == "fl" else (3,)):
                hw.store_feature("fl%d_max" % i, np.array(
                    [fv("fl%d_%d" % (i, j), 5. + j) for j in range(N)]))
        hw.store_log("log", ["a line", "another line"])


def _real_corrupt(path, g, c, tag, vals):
    import os
    import h5py

    def iv(name, default=0):
        v = vals.get(name)
        return int(v) if v is not None else default

    def fv(name, default=0.0):
        v = vals.get(name)
        return float(v) if v is not None else default
    kind = c[0]
    with h5py.File(path, "a") as h:
        ev = h["events"]
        if kind == "len":
            m = iv(tag + "_newlen")
            ds = ev[c[1]]
            ds.resize((m,) + ds.shape[1:])
            g.len[c[1]] = m
            if c[1] == "index":
                g.index = (g.index + [0] * m)[:m]
        elif kind == "count":
            g.count = iv(tag + "_count")
            h.attrs["experiment:event count"] = g.count
        elif kind == "roi":
            g.roi[c[1]] = iv(tag + "_roi")
            h.attrs["imaging:" + c[1]] = g.roi[c[1]]
        elif kind == "index":
            v = iv(tag + "_index")
            if c[1] < len(g.index):
                ev["index"][c[1]] = v
                g.index[c[1]] = v
        elif kind == "unknown":
            from dclab import definitions as dfn
            ev.create_dataset(c[1], data=np.arange(float(N)))
            g.unknown.append(c[1])
            if dfn.feature_exists(c[1]):
                g.len[c[1]] = N
        elif kind == "missing":
            del h.attrs["%s:%s" % (c[1], c[2])]
            g.missing.add((c[1], c[2]))
            if (c[1], c[2]) == ("experiment", "event count"):
                g.count = None
            if c[1] == "imaging" and c[2] in g.roi:
                g.roi[c[2]] = None
            if c[1] == "fluorescence":
                if c[2] == "channel count":
                    g.chcount = None
                if c[2] == "laser count":
                    g.lasercount = None
                if c[2] == "samples per event":
                    g.spe = None
        elif kind == "chcount":
            g.chcount = iv(tag + "_chcount")
            h.attrs["fluorescence:channel count"] = g.chcount
        elif kind == "lasercount":
            g.lasercount = iv(tag + "_lasercount")
            h.attrs["fluorescence:laser count"] = g.lasercount
        elif kind == "laserpower":
            v = fv(tag + "_power")
            h.attrs["fluorescence:laser %d power" % c[1]] = v
            g.laser[c[1]] = (True, v)
        elif kind == "spe":
            g.spe = iv(tag + "_spe")
            h.attrs["fluorescence:samples per event"] = g.spe
        elif kind == "nonpos":
            v = fv(tag + "_value")
            h.attrs["%s:%s" % (c[1], c[2])] = v
            g.setup[(c[1], c[2])] = v
        elif kind == "external":
            d = os.path.dirname(path)
            if c[1] == "deep-link":
                with h5py.File(os.path.join(d, "other.rtdc"), "w") as o:
                    o.create_dataset("events/trace/fl2_raw",
                                     data=np.zeros((N, SAMPLES),
                                                   dtype=np.int16))
                ev.require_group("trace")["fl2_raw"] = h5py.ExternalLink(
                    "other.rtdc", "/events/trace/fl2_raw")
                g.len["trace/fl2_raw"] = N
                g.samples["fl2_raw"] = SAMPLES
                g.external = "/events/trace/fl2_raw"
                return
            if c[1] == "link":
                with h5py.File(os.path.join(d, "other.rtdc"), "w") as o:
                    o.create_dataset("events/bright_avg",
                                     data=np.arange(float(N)))
                ev["bright_avg"] = h5py.ExternalLink("other.rtdc",
                                                     "/events/bright_avg")
            elif c[1] == "virtual":
                with h5py.File(os.path.join(d, "other.rtdc"), "w") as o:
                    o.create_dataset("events/bright_avg",
                                     data=np.arange(float(N)))
                lay = h5py.VirtualLayout(shape=(N,), dtype=float)
                lay[:] = h5py.VirtualSource(
                    os.path.join(d, "other.rtdc"), "events/bright_avg",
                    shape=(N,))
                ev.create_virtual_dataset("bright_avg", lay)
            else:
                raw = os.path.join(d, "raw.bin")
                np.arange(float(N)).tofile(raw)
                ev.create_dataset("bright_avg", shape=(N,), dtype=float,
                                  external=[(raw, 0, 8 * N)])
            g.len["bright_avg"] = N
            g.external = "/events/bright_avg"


def _truth(cond):
    if isinstance(cond, tuple):
        if not z3.is_true(z3.simplify(cond[1])):
            return None
        cond = cond[2]
    return z3.is_true(z3.simplify(cond))


def concrete(p, vals):
    """real writer -> real h5py corruption -> real checker, compared with
    the specification; returns a list of (key, text)"""
    import os
    import shutil
    import tempfile
    from dclab.rtdc_dataset.check import IntegrityChecker
    from dclab.rtdc_dataset.copier import rtdc_copy
    import h5py
    fails = []
    td = tempfile.mkdtemp(prefix="verif_c13_")
    try:
        path = os.path.join(td, "c13.rtdc")
        _real_file(path, p, vals)
        g = _concrete_ghost(p, vals)
        for k, c in enumerate(p["corrupt"]):
            _real_corrupt(path, g, c, "c%d" % k, vals)
        names = "+".join(c[0] for c in p["corrupt"]) or "none"

        def violations(pth):
            with IntegrityChecker(pth) as ic:
                return [c for c in ic.check(expand_section=False)
                        if c.level == "violation"]
        try:
            viol = violations(path)
        except Exception as e:
            import traceback
            fn = [ln for ln in traceback.format_exc().splitlines()
                  if ", in check_" in ln]
            where = fn[-1].split(", in ")[-1] if fn else "check"
            return [("checker-crash|%s|%s" % (where, type(e).__name__),
                     "corruption %s (%s): check_dataset raises %s: %s" % (
                         names, p["ds"], type(e).__name__, e))]
        matched = set()
        for i, cond, m in expected(g):
            want = _truth(cond)
            hit = [c for c in viol if m(c)]
            matched.update(id(c) for c in hit)
            if want is None:
                continue
            if want and not hit:
                fails.append(("unreported|%s|%s" % (i.split(":")[0],
                                                     p["ds"]),
                              "inconsistency %s (%s dataset, corruption %s) "
                              "is not reported; violations: %r" % (
                                  i, p["ds"], names,
                                  [c.msg for c in viol])))
            if not want and hit:
                fails.append(("spurious|%s|%s" % (i.split(":")[0], p["ds"]),
                              "violation without inconsistency: %r" % (
                                  [c.msg for c in hit],)))
        extra = [c.msg for c in viol if id(c) not in matched]
        if extra:
            fails.append(("spurious|other|%s" % p["ds"],
                          "unexpected violation(s) %r" % (extra,)))
        if p.get("copy"):
            cp = os.path.join(td, "copy.rtdc")
            with h5py.File(path, "r") as a, h5py.File(cp, "w") as b:
                rtdc_copy(a, b)
            a = sorted(c.msg for c in viol)
            b = sorted(c.msg for c in violations(cp))
            if a != b:
                empty = [f for f, ln in g.len.items() if ln == 0]
                fails.append(("copy-differs|%s" % (
                    "empty-feature-dropped" if empty else "other"),
                    "file: %r, copy: %r" % (a, b)))
    finally:
        shutil.rmtree(td, ignore_errors=True)
    return fails


def replay(case, params, v):
    vals = v.get("values") or {}
    with quiet():
        fails = concrete(params, vals)
    if not fails:
        return {"reproduced": False, "key": None,
                "detail": "real writer/h5py/checker agree with the "
                "specification for the model's values"}
    # prefer the failure of the kind the symbolic run reported
    what = str(v.get("what", ""))
    pick = fails[0]
    for f in fails:
        if ("copy" in what) == f[0].startswith("copy-differs"):
            pick = f
            break
    return {"reproduced": True, "key": pick[0], "detail": pick[1]}


def validate(tier, seed):
    """the specification + concrete pipeline accept the real code on the
    uncorrupted datasets and on in-range single corruptions"""
    mism, n = [], 0
    for ds in ("scalar", "image", "mask", "maskonly", "fl"):
        n += 1
        with quiet():
            f = concrete(dict(ds=ds, corrupt=[], copy=True), {})
        if f:
            mism.append("closure %s: %s" % (ds, f[0][1]))
    for ds, c, vals in [
            ("scalar", ("len", "deform"), {"c0_newlen": 2}),
            ("image", ("roi", "roi size x"), {"c0_roi": 7}),
            ("image", ("roi", "roi size x"), {"c0_roi": WID}),
            ("scalar", ("index", 1), {"c0_index": 1}),
            ("scalar", ("nonpos", "setup", "flow rate"), {"c0_value": -1.}),
            ("scalar", ("nonpos", "setup", "flow rate"), {"c0_value": .1}),
            ("fl", ("chcount",), {"c0_chcount": 3}),
            ("fl", ("spe",), {"c0_spe": 5}),
            ("fl", ("lasercount",), {"c0_lasercount": 1}),
            ("scalar", ("unknown", "peter"), {}),
            ("scalar", ("external", "link"), {}),
            ("scalar", ("external", "virtual"), {}),
            ("scalar", ("external", "external"), {})]:
        n += 1
        with quiet():
            f = concrete(dict(ds=ds, corrupt=[c]), vals)
        if f:
            mism.append("%s %s: %s" % (ds, c, f[0][1]))
    return {"traces": n, "mismatches": mism}


CANARIES = [
    dict(name="size check skips last feature", module=CK,
         qualname="IntegrityChecker.check_feature_size",
         old="for feat in self.ds.features_innate:",
         new="for feat in self.ds.features_innate[:-1]:"),
    dict(name="roi axes swapped", module=CK,
         qualname="IntegrityChecker.check_metadata_bad",
         old='enumerate(["roi size y", "roi size x"])',
         new='enumerate(["roi size x", "roi size y"])'),
    dict(name="non-positive allows zero", module=CK,
         qualname="IntegrityChecker.check_metadata_bad_greater_zero",
         old="value <= 0", new="value < 0"),
    dict(name="rectify forgets roi size", module=W,
         qualname="RTDCWriter.rectify_metadata",
         old='self.h5file.attrs["imaging:roi size x"] = shape[1]',
         new='pass'),
    dict(name="laser with zero power counted", module=CK,
         qualname="IntegrityChecker.check_fl_num_lasers",
         old='self.ds.config["fluorescence"][kp] != 0', new="True"),
]
