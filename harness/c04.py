"""C04 -- a hierarchy child is exactly the filtered view of its parent, and
manual exclusions in a child follow the underlying measurement events.

Real code executed symbolically (shadows bound to the numpy shim):
RTDC_Hierarchy (base.py), HierarchyFilter (hfilter.py), the four index
mappers (mapper.py), ChildScalar / ChildNDArray / ChildContour / ChildTrace*
(events.py), Filter (filter.py), RTDCBase.apply_filter/__getitem__ (core.py)
and set_temporary_feature (feat_temp.py), over a stub root dataset.

A case is a HISTORY SKELETON (sequence of operation kinds on given levels);
every operation argument is symbolic (which root events the root filter
selects, the limits of box filters, which visible events are manually
excluded, the temporary-feature data).  After every refresh of the youngest
member z3 proves, for every level, child == parent restricted to the
parent's filter (length, every feature kind, in order), the child's manual
array == complement of the ghost set of excluded ROOT events, and the
child's combined filter == manual & range.
"""
import random

import numpy as np
import z3

from vf.common import real
from vf.dcsym import shadow, quiet
from vf.symnp import SArr, SymNP, Tok, _band, _bnot
from vf.symx import (Engine, SBool, SFloat, SInt, SReal, NotModelled, tobool,
                     toint)

PID = "C04"
PKG = "dclab.rtdc_dataset."
HB, HF, HM, HE = (PKG + "fmt_hierarchy.base", PKG + "fmt_hierarchy.hfilter",
                  PKG + "fmt_hierarchy.mapper", PKG + "fmt_hierarchy.events")
FM, CORE, FT = PKG + "filter", PKG + "core", PKG + "feat_temp"
FUNCTIONS = [
    (HB, "RTDC_Hierarchy.__init__"), (HB, "RTDC_Hierarchy.apply_filter"),
    (HB, "RTDC_Hierarchy._check_parent_filter"),
    (HB, "RTDC_Hierarchy.__getitem__"), (HB, "RTDC_Hierarchy.__len__"),
    (HB, "RTDC_Hierarchy.__contains__"), (HB, "RTDC_Hierarchy._create_config"),
    (HB, "RTDC_Hierarchy._update_config"), (HB, "RTDC_Hierarchy.rejuvenate"),
    (HB, "RTDC_Hierarchy.get_root_parent"),
    (HF, "HierarchyFilter.__init__"), (HF, "HierarchyFilter.parent_changed"),
    (HF, "HierarchyFilter.apply_manual_indices"),
    (HF, "HierarchyFilter.retrieve_manual_indices"),
    (HF, "HierarchyFilter.update_parent"), (HF, "HierarchyFilter.reset"),
    (HM, "map_indices_child2parent"), (HM, "map_indices_child2root"),
    (HM, "map_indices_parent2child"), (HM, "map_indices_root2child"),
    (HE, "ChildScalar.__array__"), (HE, "ChildScalar.__getitem__"),
    (HE, "ChildNDArray.__getitem__"), (HE, "ChildContour.__getitem__"),
    (HE, "ChildTraceItem.__getitem__"),
    (FM, "Filter.update"), (FM, "Filter.reset"), (FM, "Filter._init_rtdc_ds"),
    (CORE, "RTDCBase.apply_filter"), (CORE, "RTDCBase.__getitem__"),
    (FT, "set_temporary_feature"),
]
BOUNDS = {
    "quick": {"root events": 3, "hierarchy depth": "2 and 3",
              "history": "<= 9 operations incl. <= 4 refreshes; every "
              "argument symbolic", "operations": "root filter (arbitrary "
              "subset), range filter on any level (arbitrary limits), manual "
              "exclusion on any level (arbitrary subset of the visible "
              "events), temporary feature on any level (arbitrary data incl. "
              "NaN), root configuration change, refresh of the youngest"},
    "thorough": {"root events": "3 and 4", "hierarchy depth": "1..4",
                 "history": "<= 12 operations"},
}
OUTSIDE = ["more root events / longer histories than the bound",
           "re-INCLUSION of a manually excluded event (the statement only "
           "speaks about exclusions staying excluded)",
           "manual exclusions edited on a child that has not been refreshed "
           "since an ancestor's filter settings were edited (the meaning of "
           "its indices is then undefined)",
           "refreshing a member other than the youngest except through "
           "set_temporary_feature", "polygon filters, event limit, "
           "remove-invalid on children (C03 covers Filter.update)",
           "numpy's operator dispatch for ChildScalar "
           "(NDArrayOperatorsMixin -> __array__)"]
STUBS = ["numpy shim (vf/symnp.py): where/isin/boolean masks fork per "
         "element", "root dataset: RTDCBase subclass with scalar features "
         "deform (concrete), bright_avg (symbolic, may be NaN), a computed "
         "feature whose values are tokens of (configuration version, event), "
         "image/mask/contour/trace as provenance tokens",
         "Configuration -> plain nested dicts with the filtering defaults "
         "(type conversion is C11)",
         "util.hashobj of a boolean array -> structural equality object"]
ASSUMPTIONS = ["manual exclusions are edited on a refreshed hierarchy",
               "a ghost set per child records the excluded root events: "
               "exclusion of visible event j adds root_id(j)"]
EXPLANATION = "C04: bounded symbolic histories over the real hierarchy code."
CASE_TIMEOUT = 2400

TMP = "verif_c04_tmp"
DEFORM = [0.02 + 0.01 * i for i in range(8)]
AREA = [100.0 + 10 * i for i in range(8)]


def _register_tmp():
    from dclab.rtdc_dataset import feat_temp
    from dclab.definitions import feat_logic
    if not feat_logic.feature_exists(TMP):
        feat_temp.register_temporary_feature(TMP)


# ------------------------------------------------------------------ shims
class Sec(dict):
    pass


class SCfg(dict):
    """nested-dict stand-in for Configuration"""
    DEFAULT_FILT = {"enable filters": True, "hierarchy parent": "none",
                    "limit events": 0, "polygon filters": [],
                    "remove invalid events": False}

    def __init__(self, cfg=None):
        dict.__init__(self)
        for sec in ("filtering", "experiment", "calculation", "setup",
                    "imaging"):
            self[sec] = Sec()
        self["filtering"].update({k: (list(v) if isinstance(v, list) else v)
                                  for k, v in self.DEFAULT_FILT.items()})
        if cfg is not None:
            for sec, d in cfg.items():
                self.setdefault(sec, Sec())
                for k, v in d.items():
                    self[sec][k] = list(v) if isinstance(v, list) else v

    def copy(self):
        return SCfg(self)


class FHash:
    """hash of a boolean array (or of a list of such hashes): equality ==
    structural equality"""

    def __init__(self, parts):
        self.parts = parts          # list of lists of z3 Bools

    def _eq(self, o):
        if [len(x) for x in self.parts] != [len(x) for x in o.parts]:
            return False
        pairs = [(a, b) for x, y in zip(self.parts, o.parts)
                 for a, b in zip(x, y) if a.get_id() != b.get_id()]
        if any(a.sort() != b.sort() for a, b in pairs):
            return False
        diff = [a == b for a, b in pairs]
        if not diff:
            return True
        e = z3.simplify(z3.And(diff))
        if z3.is_true(e):
            return True
        if z3.is_false(e):
            return False
        return SBool(e)

    def __eq__(self, o):
        return self._eq(o)

    def __ne__(self, o):
        return _bnot(self._eq(o))

    __hash__ = None


def hashobj(obj):
    """structural stand-in for util.hashobj: boolean arrays, integers and
    (nested) lists of these or of earlier hashes"""
    def parts(o):
        if isinstance(o, FHash):
            return o.parts + [[]]
        if isinstance(o, (list, tuple)):
            return [p for x in o for p in parts(x)] + [[]]
        if isinstance(o, (bool, SBool)):
            return [[tobool(o)]]
        if isinstance(o, (int, SInt, np.integer)):
            return [[toint(o)]]
        return [[tobool(b) for b in o]]
    if isinstance(obj, list) and all(isinstance(x, FHash) for x in obj):
        return FHash([p for x in obj for p in x.parts + [[]]])
    if isinstance(obj, (list, tuple)):
        return FHash(parts(obj))
    return FHash([[tobool(b) for b in obj]])


class World:
    def __init__(self, eng, N):
        self.eng, self.N = eng, N
        self.calcver = 0
        self.imgver = 0
        self.bright = [eng.float("bright%d" % i) for i in range(N)]


def build():
    npx = SymNP()
    fns = shadow(FM, np=npx)
    Filter = fns["Filter"]
    mns = shadow(HM, np=npx)
    maps = {k: mns[k] for k in ("map_indices_child2parent",
                                "map_indices_child2root",
                                "map_indices_parent2child",
                                "map_indices_root2child")}
    hfns = shadow(HF, np=npx, Filter=Filter, hashobj=hashobj, **maps)
    evns = shadow(HE, np=npx, **maps)
    evns["ChildScalar"].__symarray__ = lambda self: self.__array__()
    corens = shadow(CORE, np=npx, Filter=Filter)
    RTDCBase = corens["RTDCBase"]
    bns = shadow(HB, np=npx, RTDCBase=RTDCBase, hashobj=hashobj,
                 Configuration=SCfg, HierarchyFilter=hfns["HierarchyFilter"],
                 **{k: evns[k] for k in ("ChildContour", "ChildNDArray",
                                         "ChildScalar", "ChildTrace",
                                         "ChildTraceItem")})
    RTDC_Hierarchy = bns["RTDC_Hierarchy"]
    ftns = shadow(FT, np=npx, RTDCBase=RTDCBase,
                  RTDC_Hierarchy=RTDC_Hierarchy,
                  map_indices_child2root=maps["map_indices_child2root"])

    class URoot(RTDCBase):
        def __init__(self, world):
            RTDCBase.__init__(self, identifier="mm-root")
            N = world.N
            self.world = world
            self.format = "dict"
            self.path = "none"
            self.title = "root"
            self.config = SCfg()
            self.config["experiment"]["event count"] = N
            self.config["calculation"]["emodulus temperature"] = 23.0
            self._events = {
                "deform": SArr([SFloat.lift(DEFORM[i]) for i in range(N)],
                               float),
                "bright_avg": SArr(list(world.bright), float),
                "image": SArr([Tok("image", i, (2, 2)) for i in range(N)],
                              np.uint8, item_shape=(2, 2)),
                "mask": SArr([Tok("mask", i, (2, 2)) for i in range(N)],
                             bool, item_shape=(2, 2)),
                "contour": SArr([Tok("contour", i, (3, 2))
                                 for i in range(N)], np.uint8,
                                item_shape=(3, 2)),
                "trace": {"fl1_raw": SArr([Tok("fl1_raw", i, (4,))
                                           for i in range(N)], np.int16,
                                          item_shape=(4,))},
            }

        hash = "roothash"
        features_basin = []

        def __len__(self):
            return self.world.N

        def __contains__(self, feat):
            return (feat in self._events or feat in self._usertemp
                    or feat == "emodulus")

        def __getitem__(self, feat):
            if feat == "emodulus":
                return SArr([Tok(("emodulus", self.world.calcver,
                                  self.world.imgver), i)
                             for i in range(self.world.N)], float)
            if feat in self._events:
                return self._events[feat]
            if feat in self._usertemp:
                return self._usertemp[feat]
            raise KeyError(feat)

        @property
        def features(self):
            return sorted(list(self._events) + list(self._usertemp)
                          + ["emodulus"])

        @property
        def features_scalar(self):
            return sorted(["deform", "bright_avg", "emodulus"]
                          + list(self._usertemp))

    return dict(URoot=URoot, RTDC_Hierarchy=RTDC_Hierarchy,
                set_temporary_feature=ftns["set_temporary_feature"],
                HierarchyFilterError=hfns["HierarchyFilterError"])


# ---------------------------------------------------------------- the spec
def box_z3(box, d):
    """range (lo, hi) on the concrete value d"""
    if box is None:
        return z3.BoolVal(True)
    a, b = box[0].e, box[1].e
    mn = z3.If(a <= b, a, b)
    mx = z3.If(a <= b, b, a)
    dv = z3.RealVal(repr(d))
    return z3.If(a == b, z3.BoolVal(True), z3.And(mn <= dv, dv <= mx))


def same(a, b):
    """z3 Bool: two feature elements are the same value"""
    if a is b:
        return True
    if isinstance(a, Tok) or isinstance(b, Tok):
        return bool(a == b)
    if isinstance(a, (SBool, bool, np.bool_)) or isinstance(
            b, (SBool, bool, np.bool_)):
        return tobool(a) == tobool(b)
    a, b = SFloat.lift(a), SFloat.lift(b)
    return z3.And(a.nan == b.nan, z3.Or(a.nan, a.v == b.v))


def conj(items):
    """conjunction of python bools / z3 Bools without building trivial
    terms"""
    out = []
    for x in items:
        if x is True:
            continue
        if x is False:
            return False
        out.append(x)
    if not out:
        return True
    return z3.And(out) if len(out) > 1 else out[0]


def beq(a, e):
    """python/symbolic bool a equals z3 Bool e"""
    if isinstance(a, SBool):
        return a.e == e
    e = z3.simplify(e)
    if z3.is_true(e):
        return bool(a) is True
    if z3.is_false(e):
        return bool(a) is False
    return e if bool(a) else z3.Not(e)


def conc_bits(eng, arr):
    out = []
    for b in list(arr):
        if isinstance(b, SBool):
            out.append(bool(eng.branch(b.e)))
        else:
            out.append(bool(b))
    return out


class Run:
    def __init__(self, eng, p, ns):
        self.eng, self.p, self.ns = eng, p, ns
        self.N, self.depth = p["N"], p["depth"]
        self.w = World(eng, self.N)
        self.root = ns["URoot"](self.w)
        self.levels = [self.root]
        for _ in range(self.depth):
            self.levels.append(ns["RTDC_Hierarchy"](self.levels[-1]))
        N = self.N
        self.rootman = [z3.BoolVal(True)] * N
        self.box = [None] * (self.depth + 1)
        self.M = [None] + [[z3.BoolVal(False)] * N
                           for _ in range(self.depth)]
        self.views = [list(range(N)) for _ in range(self.depth + 1)]
        self.temp = None

    # ---- operations
    def op(self, k, op):
        eng, kind = self.eng, op[0]
        if kind == "R":
            bits = [eng.bool("op%d_r%d" % (k, i)) for i in range(self.N)]
            for i, b in enumerate(bits):
                self.root.filter.manual[i] = b
            self.rootman = [b.e for b in bits]
        elif kind == "B":
            L = op[1]
            lo, hi = eng.real("op%d_lo" % k), eng.real("op%d_hi" % k)
            cfg = self.levels[L].config["filtering"]
            cfg["deform min"], cfg["deform max"] = lo, hi
            self.box[L] = (lo, hi)
        elif kind == "BX":
            L = op[1]
            cfg = self.levels[L].config["filtering"]
            cfg.pop("deform min", None)
            cfg.pop("deform max", None)
            self.box[L] = None
        elif kind == "X":
            L = op[1]
            c = self.levels[L]
            for j, rid in enumerate(self.views[L]):
                b = eng.bool("op%d_x%d" % (k, rid))
                c.filter.manual[j] = _band(c.filter.manual[j], _bnot(b))
                self.M[L][rid] = z3.Or(self.M[L][rid], b.e)
        elif kind == "T":
            L = op[1]
            view = self.views[L]
            vals = {rid: eng.float("op%d_t%d" % (k, rid)) for rid in view}
            data = SArr([vals[rid] for rid in view], float)
            self.ns["set_temporary_feature"](self.levels[L], TMP, data)
            nan = SFloat(z3.BoolVal(True), z3.RealVal(0))
            self.temp = [vals.get(i, nan) for i in range(self.N)]
        elif kind == "C":
            self.w.calcver += 1
            self.root.config["calculation"]["emodulus temperature"] = \
                23.0 + self.w.calcver
        elif kind == "CI":
            # a root setting OUTSIDE [calculation] that computed features
            # depend on (pixel size, frame rate, flow rate, ...)
            self.w.imgver += 1
            self.root.config["imaging"]["frame rate"] = \
                2000.0 + self.w.imgver
        elif kind == "F":
            self.levels[-1].rejuvenate()
            self.check(k)
        else:
            raise ValueError(kind)

    # ---- the property
    def check(self, k):
        eng = self.eng
        tag = "after refresh: "
        for L in range(1, self.depth + 1):
            P, c = self.levels[L - 1], self.levels[L]
            pall = conc_bits(eng, P.filter.all)
            pview = self.views[L - 1]
            sel = [i for i, b in enumerate(pall) if b]
            view = [pview[i] for i in sel]
            self.views[L] = view
            nv = len(view)
            n = len(c)
            eng.prove(toint(n) == nv if isinstance(n, SInt)
                      else z3.BoolVal(int(n) == nv),
                      tag + "len(child) == number of events the parent's "
                      "filter selects", info={"level": L})
            if int(n) != nv:
                return
            # ---- observations (always made: they populate the caches of
            # the code under test exactly as a user's accesses would)
            cnt = c.config["experiment"]["event count"]
            scal = ["deform", "bright_avg", "emodulus"] + (
                [TMP] if self.temp is not None else [])
            # a conversion to another dtype must not change what later
            # accesses return
            c["deform"].__array__(dtype=np.float32)
            dt_after = getattr(c["deform"].__array__(), "dtype", None)
            sgot = {f: list(c[f][:]) for f in scal}
            smx = c[TMP].max() if self.temp is not None and nv else None
            spar = {f: (list(P[f][:]) if L > 1 else list(P[f]))
                    for f in scal}
            ngot = {f: [c[f][j] for j in range(nv)]
                    for f in ("image", "mask", "contour")}
            nsl = {f: list(c[f][:]) for f in ("image", "mask")}
            tgot = [c["trace"]["fl1_raw"][j] for j in range(nv)]
            idx = list(c["index"])
            man = list(c.filter.manual)
            call = list(c.filter.all)
            if not eng.fresh:
                continue          # decided on the path that scheduled us
            eng.prove(toint(cnt) == nv if isinstance(cnt, SInt)
                      else z3.BoolVal(int(cnt) == nv),
                      tag + "config event count == len(child)",
                      info={"level": L})
            eng.prove(z3.BoolVal(dt_after == np.dtype(np.float64)),
                      tag + "scalar feature keeps its dtype after a typed "
                      "conversion", info={"level": L, "dtype": str(dt_after)})
            for feat in scal:
                got = sgot[feat]
                exp = [spar[feat][i] for i in sel]
                eng.prove(conj([len(got) == len(exp)] + [
                    same(g, e) for g, e in zip(got, exp)]),
                    tag + "scalar feature == parent[feat][parent.filter.all]",
                    info={"level": L, "feature": feat})
                if feat == TMP:
                    eng.prove(conj([same(g, self.temp[rid]) for g, rid
                                    in zip(got, view)]),
                              tag + "temporary feature follows the root "
                              "events", info={"level": L})
                    if smx is not None:
                        r = SFloat.lift(smx)
                        vs = [SFloat.lift(g) for g in got]
                        alln = z3.And([v.nan for v in vs])
                        eng.prove(z3.And(r.nan == alln, z3.Implies(
                            z3.Not(alln), z3.And(
                                z3.And([z3.Or(v.nan, r.v >= v.v)
                                        for v in vs]),
                                z3.Or([z3.And(z3.Not(v.nan), r.v == v.v)
                                       for v in vs])))),
                            tag + "reported maximum of the temporary "
                            "feature == maximum of its current values",
                            info={"level": L})
                elif feat == "emodulus":
                    eng.prove(got == [Tok(("emodulus", self.w.calcver,
                                           self.w.imgver), rid)
                                      for rid in view],
                              tag + "computed feature reflects the current "
                              "root configuration", info={"level": L})
            for feat in ("image", "mask", "contour"):
                got = ngot[feat]
                exp = [Tok(feat, rid, got[0].shape if got else ())
                       for rid in view]
                eng.prove(got == exp,
                          tag + "non-scalar feature by event index",
                          info={"level": L, "feature": feat})
                if feat != "contour":
                    eng.prove(nsl[feat] == exp,
                              tag + "non-scalar feature slice",
                              info={"level": L, "feature": feat})
            eng.prove(tgot == [Tok("fl1_raw", rid, (4,)) for rid in view],
                      tag + "trace by event index", info={"level": L})
            eng.prove([int(x) for x in idx] == list(range(1, nv + 1)),
                      tag + "index enumerates", info={"level": L})
            eng.prove(conj([len(man) == nv] + [
                beq(m, z3.Not(self.M[L][rid])) for m, rid in zip(man, view)]),
                tag + "manual exclusions == excluded root events that are "
                "visible", info={"level": L})
            eng.prove(conj([len(call) == nv] + [
                beq(a, z3.And(z3.Not(self.M[L][rid]),
                              box_z3(self.box[L], DEFORM[rid])))
                for a, rid in zip(call, view)]),
                tag + "child filter == manual & range",
                info={"level": L})
        if self.temp is not None:
            got = list(self.root[TMP])
            if eng.fresh:
                eng.prove(conj([same(g, t)
                                for g, t in zip(got, self.temp)]),
                          tag + "root temporary feature: data on the "
                          "child's events, NaN elsewhere")


def run_history(eng, p, ns):
    with quiet():
        try:
            r = Run(eng, p, ns)
            for k, op in enumerate(p["ops"]):
                r.op(k, op)
        except ns["HierarchyFilterError"] as e:
            eng.fail("exception:HierarchyFilterError", detail=repr(e))
    return "ok"


def run_case(name, params):
    _register_tmp()
    ns = build()
    eng = Engine(timeout_ms=20000)
    eng.explore(lambda e: run_history(e, params, ns))
    return eng.stats()


def H(N, depth, *ops):
    out = []
    for o in ops:
        out.append((o,) if isinstance(o, str) else tuple(o))
    return dict(N=N, depth=depth, ops=out)


def cases(tier, seed):
    F, R, C = "F", "R", "C"

    def X(L):
        return ("X", L)

    def B(L):
        return ("B", L)

    def BX(L):
        return ("BX", L)

    def T(L):
        return ("T", L)
    out = []
    N = 3
    out += [
        # hidden exclusions at depth 2, second exclusion while hidden
        ("d2 X2 R X2 R", H(N, 2, X(2), F, R, F, X(2), F, R, F)),
        ("d2 X1 R X2 R", H(N, 2, X(1), F, R, F, X(2), F, R, F)),
        ("d2 X2 B1 X2 BX1", H(N, 2, R, F, X(2), F, B(1), F, X(2), F, BX(1),
                              F)),
        ("d2 X1 X2 B0", H(N, 2, X(1), X(2), F, B(0), F, BX(0), F)),
        ("d2 B1 T2 B1", H(N, 2, B(1), F, T(2), F, B(1), F)),
        ("d2 R T1 R C", H(N, 2, R, F, T(1), F, R, C, F)),
        ("d2 T0 B0 T2", H(N, 2, T(0), B(0), F, T(2), F)),
        ("d1 X1 R X1 R", H(N, 1, X(1), F, R, F, X(1), F, R, F)),
        ("d1 B0 C T1", H(N, 1, B(0), F, C, F, T(1), F, BX(0), F)),
        ("d3 X3 R X3 R", H(N, 3, X(3), F, R, F, X(3), F, R, F)),
        ("d3 X2 B1 X3 BX1", H(N, 3, X(2), F, B(1), F, X(3), F, BX(1), F)),
        ("d3 B2 T3 R", H(N, 3, B(2), F, T(3), F, R, F)),
        ("d2 CI C CI", H(N, 2, R, F, "CI", F, C, F, "CI", F)),
        ("d1 CI", H(N, 1, B(0), F, "CI", F)),
        # temporary feature replaced while the parent filter stays as it is
        ("d1 T1 T1", H(N, 1, R, F, T(1), F, T(1), F)),
    ]
    if tier == "thorough":
        out += [
            ("d2 R X2 R X2 R", H(N, 2, R, F, X(2), F, R, F, X(2), F, R, F)),
            ("d1 R X1 R X1 R", H(N, 1, R, F, X(1), F, R, F, X(1), F, R, F)),
            ("d3 R X3 R X3 R", H(N, 3, R, F, X(3), F, R, F, X(3), F, R, F)),
            ("d2 X1 X2 B0 X1 BX0", H(N, 2, X(1), X(2), F, B(0), F, X(1), F,
                                     BX(0), F)),
        ]
        N = 4
        out += [
            ("N4 d2 X2 R X2 R", H(N, 2, X(2), F, R, F, X(2), F, R, F)),
            ("N4 d2 X1 B1 X2 R", H(N, 2, X(1), F, B(1), F, X(2), F, R, F)),
            ("N4 d3 X3 B1 X3 BX1", H(N, 3, B(0), F, X(3), F, B(1), F, X(3),
                                     F, BX(1), F)),
            ("d4 X4 R X4 R", H(3, 4, R, F, X(4), F, R, F, X(4), F, R, F)),
            ("d4 X2 B3 X4 B1", H(3, 4, X(2), F, B(3), F, X(4), F, B(1), F)),
            ("N4 d2 T2 R T1 C", H(N, 2, R, F, T(2), F, R, F, T(1), C, F)),
        ]
        rnd = random.Random(seed)
        for i in range(10):
            depth = rnd.choice([2, 3])
            ops, bits = [], 0
            while bits < 11:
                kind = rnd.choice(["R", "X", "X", "B", "T", "C", "BX"])
                if kind in ("R", "C"):
                    ops.append(kind)
                else:
                    ops.append((kind, rnd.randint(
                        0 if kind in ("B", "BX", "T") else 1, depth)))
                ops.append("F")
                bits += {"R": 3, "X": 3, "B": 2, "T": 1, "C": 0, "BX": 0}[
                    kind]
            out.append(("random %d d%d %s" % (i, depth, "".join(
                o if isinstance(o, str) else "%s%d" % o for o in ops)),
                H(3, depth, *ops)))
    return out


# ------------------------------------------------------------------ replay
def concrete(p, vals):
    """run the history on the REAL dclab with the model's values and compare
    with a plain-Python oracle; returns a list of (category, text)"""
    import dclab
    from dclab.rtdc_dataset import feat_temp
    from dclab.rtdc_dataset.fmt_hierarchy import RTDC_Hierarchy
    _register_tmp()
    N, depth = p["N"], p["depth"]

    def fv(name):
        if vals.get(name + ".nan", False):
            return np.nan
        v = vals.get(name + ".v", vals.get(name, 0.0))
        return float(v) if v is not None else 0.0
    rs = np.random.RandomState(4)
    data = {
        "deform": np.array(DEFORM[:N]),
        "area_um": np.array(AREA[:N]),
        "bright_avg": np.array([fv("bright%d" % i) for i in range(N)]),
        "image": rs.randint(0, 255, (N, 4, 4)).astype(np.uint8),
        "mask": rs.randint(0, 2, (N, 4, 4)).astype(bool),
        "contour": [rs.randint(0, 20, (3 + i, 2)) for i in range(N)],
        "trace": {"fl1_raw": rs.randint(0, 99, (N, 6)).astype(np.int16)},
    }
    fails = []
    root = dclab.new_dataset(data)
    root.config["setup"]["channel width"] = 20
    root.config["setup"]["flow rate"] = 0.04
    root.config["imaging"]["pixel size"] = 0.34
    root.config["calculation"].update({
        "emodulus lut": "LE-2D-FEM-19", "emodulus medium": "CellCarrier",
        "emodulus temperature": 23.0,
        "emodulus viscosity model": "buyukurganci-2022"})
    levels = [root]
    for _ in range(depth):
        levels.append(RTDC_Hierarchy(levels[-1]))
    M = [None] + [set() for _ in range(depth)]
    box = [None] * (depth + 1)
    views = [list(range(N)) for _ in range(depth + 1)]
    temp = None
    calcver = 0

    def inbox(b, d):
        if b is None or b[0] == b[1]:
            return True
        return min(b) <= d <= max(b)

    def eq(a, b):
        a, b = np.asarray(a), np.asarray(b)
        return a.shape == b.shape and bool(np.array_equal(
            a, b, equal_nan=a.dtype.kind == "f"))

    def check():
        for L in range(1, depth + 1):
            P, c = levels[L - 1], levels[L]
            pall = np.array(P.filter.all)
            sel = np.where(pall)[0]
            view = [views[L - 1][i] for i in sel]
            views[L] = view
            if len(c) != len(view):
                fails.append(("length", "level %d: len(child)=%d, parent "
                              "selects %d" % (L, len(c), len(view))))
                return
            scal = ["deform", "area_um", "bright_avg", "emodulus"] + (
                [TMP] if temp is not None else [])
            np.asarray(c["deform"], dtype=np.float32)
            if np.asarray(c["deform"]).dtype != np.float64:
                fails.append(("dtype", "level %d: deform is %s after a "
                              "conversion to float32" % (
                                  L, np.asarray(c["deform"]).dtype)))
            for feat in scal:
                got = np.array(c[feat][:])
                exp = np.array(P[feat][:])[sel]
                if not eq(got, exp):
                    fails.append(("scalar", "level %d: %s = %r, parent "
                                  "restricted = %r" % (L, feat, got, exp)))
                if feat == TMP and not eq(got, np.array(temp)[view]):
                    fails.append(("temporary", "level %d: %r != %r" % (
                        L, got, np.array(temp)[view])))
                if feat == TMP and len(got) and not np.all(np.isnan(got)):
                    mx = float(c[feat].max())
                    if mx != float(np.nanmax(got)):
                        fails.append(("summary", "level %d: %s.max() reports "
                                      "%r, the current values are %r" % (
                                          L, feat, mx, got.tolist())))
            for feat in ("image", "mask", "contour"):
                for j, rid in enumerate(view):
                    if not eq(c[feat][j], data[feat][rid]):
                        fails.append(("nonscalar", "level %d: %s[%d] is not "
                                      "root event %d" % (L, feat, j, rid)))
            for j, rid in enumerate(view):
                if not eq(c["trace"]["fl1_raw"][j],
                          data["trace"]["fl1_raw"][rid]):
                    fails.append(("nonscalar", "level %d: trace[%d] is not "
                                  "root event %d" % (L, j, rid)))
            man = np.array(c.filter.manual)
            expm = np.array([rid not in M[L] for rid in view], dtype=bool)
            if not eq(man, expm):
                fails.append(("manual", "level %d: manual=%r expected %r "
                              "(excluded root events %r, visible %r)" % (
                                  L, man.tolist(), expm.tolist(),
                                  sorted(M[L]), view)))
            call = np.array(c.filter.all)
            expa = np.array([rid not in M[L] and inbox(box[L], DEFORM[rid])
                             for rid in view], dtype=bool)
            if not eq(call, expa):
                fails.append(("filter", "level %d: filter.all=%r expected "
                              "%r" % (L, call.tolist(), expa.tolist())))
        if temp is not None and not eq(np.array(root[TMP]), np.array(temp)):
            fails.append(("temporary", "root: %r != %r" % (
                np.array(root[TMP]), temp)))

    for k, op in enumerate(p["ops"]):
        kind = op[0]
        if kind == "R":
            for i in range(N):
                root.filter.manual[i] = bool(vals.get("op%d_r%d" % (k, i),
                                                      False))
        elif kind == "B":
            L = op[1]
            lo, hi = float(vals.get("op%d_lo" % k, 0) or 0), float(
                vals.get("op%d_hi" % k, 0) or 0)
            cfg = levels[L].config["filtering"]
            cfg["deform min"], cfg["deform max"] = lo, hi
            box[L] = (lo, hi)
        elif kind == "BX":
            L = op[1]
            cfg = levels[L].config["filtering"]
            cfg.pop("deform min", None)
            cfg.pop("deform max", None)
            box[L] = None
        elif kind == "X":
            L = op[1]
            for j, rid in enumerate(views[L]):
                if vals.get("op%d_x%d" % (k, rid), False):
                    levels[L].filter.manual[j] = False
                    M[L].add(rid)
        elif kind == "T":
            L = op[1]
            view = views[L]
            d = np.array([fv("op%d_t%d" % (k, rid)) for rid in view])
            feat_temp.set_temporary_feature(levels[L], TMP, d)
            temp = [np.nan] * N
            for rid, x in zip(view, d):
                temp[rid] = x
        elif kind == "CI":
            # emodulus depends on the pixel size (pixelation correction)
            root.config["imaging"]["pixel size"] = \
                root.config["imaging"]["pixel size"] + 0.05
        elif kind == "C":
            calcver += 1
            root.config["calculation"]["emodulus temperature"] = \
                23.0 + calcver
        elif kind == "F":
            levels[-1].rejuvenate()
            check()
            if fails:
                break
    return fails


def replay(case, params, v):
    vals = v.get("values") or {}
    with quiet():
        try:
            fails = concrete(params, vals)
        except BaseException as e:      # HierarchyFilterError is Base
            if isinstance(e, (KeyboardInterrupt, SystemExit)):
                raise
            fails = [("exception", "%s: %s" % (type(e).__name__, e))]
    if not fails:
        return {"reproduced": False, "key": None,
                "detail": "the real hierarchy agrees with the oracle for "
                "the model's history"}
    return {"reproduced": True,
            "key": "hierarchy|%s|depth>=%d" % (fails[0][0], 1 if
                                               params["depth"] == 1 else 2),
            "detail": "history %s: %s" % (
                " ".join(o[0] + "".join(str(x) for x in o[1:])
                         for o in params["ops"]), fails[0][1])}


def validate(tier, seed):
    """the concrete oracle used for replay accepts the real code on random
    concrete instances of the quick histories"""
    mism, n = [], 0
    rnd = random.Random(seed)
    for name, p in cases("quick", seed):
        for rep in range(3):
            vals = {}
            for k, op in enumerate(p["ops"]):
                for i in range(p["N"]):
                    vals["op%d_r%d" % (k, i)] = rnd.random() < .7
                    vals["op%d_x%d" % (k, i)] = rnd.random() < .4
                    vals["op%d_t%d" % (k, i)] = rnd.random()
                vals["op%d_lo" % k] = rnd.choice(DEFORM[:3]) - .001
                vals["op%d_hi" % k] = rnd.choice(DEFORM[:3]) + .001
            n += 1
            try:
                with quiet():
                    f = concrete(p, vals)
            except BaseException as e:
                if isinstance(e, (KeyboardInterrupt, SystemExit)):
                    raise
                f = [("exception", repr(e))]
            if f:
                mism.append("%s: %s" % (name, f[0][1]))
    return {"traces": n, "mismatches": mism}


CANARIES = [
    dict(name="hidden exclusions forgotten", module=HF,
         qualname="HierarchyFilter.retrieve_manual_indices",
         old="all_idx = list(set(pbool + phid))",
         new="all_idx = list(set(pbool))"),
    dict(name="child2parent off by one", module=HM,
         qualname="map_indices_child2parent",
         old="idx = np.where(pf)[0]", new="idx = np.where(pf)[0] + 0\n"
         "    idx = idx[::-1] if len(idx) == 2 else idx"),
    dict(name="scalar cache survives refresh", module=HB,
         qualname="RTDC_Hierarchy.apply_filter",
         old="self._events.clear()", new="pass"),
    dict(name="manual indices not re-applied", module=HB,
         qualname="RTDC_Hierarchy._check_parent_filter",
         old="self.filter.apply_manual_indices(self, manual_pidx)",
         new="pass"),
]
