"""C07 -- basin-provided features equal the origin's data for the mapped
events.

Real code executed: BasinProxy / BasinProxyFeature (all access routes,
before and after the scalar cache is filled), RTDCWriter.store_basin (map
feature allocation / reuse), the basins branch of Export.hdf5 (map
composition on filtered export) over the in-memory h5py stand-in.  The origin
holds tokens origin[i]; the basin map is a vector of SYMBOLIC indices, so
"referrer[f][q] == origin[f][map[q]]" is an equality of index terms.
"""
import itertools
import json
import types
import random

import numpy as np
import z3

from vf import symh5
from vf.common import real
from vf.dcsym import shadow, sym_writer, quiet
from vf.symnp import SArr, SymNP
from vf.symx import Engine, SBool, SInt, srange, toint, tobool

from harness.c02 import At

PID = "C07"
FB = "dclab.rtdc_dataset.feat_basin"
W = "dclab.rtdc_dataset.writer"
EX = "dclab.rtdc_dataset.export"
FUNCTIONS = [(FB, "BasinProxy.__getitem__"),
             (FB, "BasinProxyFeature.__getitem__"),
             (FB, "BasinProxyFeature.__array__"),
             (FB, "BasinProxyFeature.__len__"), (W, "RTDCWriter.store_basin"),
             (EX, "Export.hdf5")]
BOUNDS = {
    "quick": {"proxy": "origin of symbolic size, map of length 1..4 with "
              "arbitrary symbolic entries (subset / superset / repetition / "
              "permutation), access by int, slice (symbolic bounds), boolean "
              "mask, whole array; scalar and non-scalar; cache cold or warm",
              "store_basin": "0..3 existing basinmapN features (each equal "
              "to or different from the new map, symbolic)",
              "export": "3 events, every filter, basins with 'same' and "
              "mapped (symbolic) maps"},
    "thorough": {"proxy": "map length 1..5"},
}
OUTSIDE = ["path resolution on a real file system", "remote basins",
           "uint64 overflow of maps", "internal basins' data copy (C08)",
           "identifier verification (C14)"]
STUBS = ["origin features: objects whose item i is the token origin[i]",
         "h5py stand-in; dataset stub for Export.hdf5 (basins, filter)"]
ASSUMPTIONS = ["map entries are valid origin indices"]
EXPLANATION = "C07: mapped access and map composition over symbolic maps."


class OriginFeat:
    """feature of the origin dataset: item i is the token At('o', i)"""

    def __init__(self, M, scalar=True):
        self.M = M
        self.shape = (M,) if scalar else (M, 4, 4)
        self.dtype = np.dtype(float)

    def __len__(self):
        return self.M

    # the origin's own summaries (as H5ScalarEvent offers them): over ALL of
    # its events
    def min(self):
        return At("origin-min-of-all-events", 0)

    def max(self):
        return At("origin-max-of-all-events", 0)

    def mean(self):
        return At("origin-mean-of-all-events", 0)

    def __getitem__(self, k):
        if isinstance(k, slice):
            if k == slice(None):
                return OriginArr(self)
            if k.step not in (None, 1):
                raise NotImplementedError("strided slice of the origin")
            eng = Engine.cur
            start = 0 if k.start is None else k.start
            stop = self.M if k.stop is None else k.stop
            lo = SInt(z3.If(toint(start) < 0, 0, toint(start)))
            hi = SInt(z3.If(toint(stop) > toint(self.M), toint(self.M),
                            toint(stop)))
            n = eng.concretize(SInt(z3.If(hi.e > lo.e, hi.e - lo.e, 0)))
            return SArr([At("o", lo + j, self.shape[1:])
                         for j in range(n)], float, self.shape[1:])
        return At("o", k, self.shape[1:])


class OriginArr:
    """origin[f][:] -- supports fancy indexing with a symbolic index array"""

    def __init__(self, f):
        self.f = f

    def __getitem__(self, idx):
        if isinstance(idx, SArr):
            return SArr([At("o", i) for i in idx.elems], float)
        raise NotImplementedError(repr(idx))


def expect(eng, got, term, what):
    if not isinstance(got, At) or got.src != "o":
        eng.fail(what + " (not an origin event: %r)" % (got,))
        return
    eng.prove(toint(got.idx) == toint(term), what)


def run_proxy(eng, p):
    k = p["k"]
    M = eng.int("M")
    eng.assume((M >= 1) & (M <= 50))
    bm = []
    for j in range(k):
        v = eng.int("map%d" % j)
        eng.assume((v >= 0) & (v < M))
        bm.append(v)
    npx = SymNP()
    ns = shadow(FB, np=npx, range=srange)
    scalar = p["scalar"]
    feat = ns["BasinProxyFeature"](OriginFeat(M, scalar),
                                   SArr(list(bm), np.uint64))
    eng.prove(z3.BoolVal(len(feat) == k), "proxy: length == length of map")
    if p["warm"]:
        feat[:]              # fill the scalar cache first
    acc = p["access"]
    if acc == "int":
        q = eng.int("q")
        eng.assume((q >= -k) & (q < k))        # negative indices count from
        qq = eng.concretize(q)                 # the end of the MAP
        got = feat[qq]
        expect(eng, got, bm[qq % k], "proxy[int] == origin[map[int]]")
    elif acc == "whole":
        got = list(feat[:]) if scalar else list(feat[:])
        eng.prove(z3.BoolVal(len(got) == k), "proxy[:] has len(map) events")
        for j, g in enumerate(got[:k]):
            expect(eng, g, bm[j], "proxy[:][j] == origin[map[j]]")
    elif acc == "array":
        got = list(feat.__array__())
        eng.prove(z3.BoolVal(len(got) == k), "np.array(proxy) has len(map)")
        for j, g in enumerate(got[:k]):
            expect(eng, g, bm[j], "np.array(proxy)[j] == origin[map[j]]")
    elif acc == "slice":
        a, b = eng.int("a"), eng.int("b")
        eng.assume((a >= 0) & (a <= k) & (b >= a) & (b <= k))
        got = list(feat[a:b])
        aa, bb = eng.concretize(a), eng.concretize(b)
        eng.prove(z3.BoolVal(len(got) == bb - aa), "proxy[a:b] length")
        for j, g in zip(range(aa, bb), got):
            expect(eng, g, bm[j], "proxy[a:b][j-a] == origin[map[j]]")
    elif acc == "summary":
        # C20: a reported minimum / maximum / mean must be that of the
        # MAPPED events; the origin's own summary (over all its events) is
        # only right when the map is a permutation of all origin events
        perm = z3.And([M.e == k] + [bm[i].e != bm[j].e for i in range(k)
                                    for j in range(i + 1, k)])
        for name in ("min", "max", "mean"):
            try:
                fn = getattr(feat, name)
            except AttributeError:
                eng.reach()
                continue           # not offered: numpy reduces the data
            r = fn()
            if isinstance(r, At) and str(r.src).startswith("origin-"):
                eng.prove(perm, "proxy.%s(): the origin's summary over ALL "
                          "its events is reported for the mapped events"
                          % name)
    elif acc == "mask":
        bits = [eng.bool("m%d" % j) for j in range(k)]
        got = list(feat[SArr(bits, bool)])
        sel = [j for j in range(k) if bool(bits[j])]
        eng.prove(z3.BoolVal(len(got) == len(sel)), "proxy[mask] length")
        for j, g in zip(sel, got):
            expect(eng, g, bm[j], "proxy[mask] == origin[map[selected]]")
    return "ok"


# ----------------------------------------------------------- store_basin
def run_store(eng, p):
    """map-feature allocation / reuse"""
    f = symh5.File("ref.rtdc", "w")
    ev = f.require_group("events")
    L = 2
    new = [eng.int("new%d" % i) for i in range(L)]
    exist = []
    for n in range(p["nexist"]):
        vals = [eng.int("ex%d_%d" % (n, i)) for i in range(L)]
        for v in vals + new:
            eng.assume(v >= 0)          # indices into an origin of any size
        ev.create_dataset("basinmap%d" % n, data=SArr(vals, np.uint64))
        exist.append(vals)
    npx = SymNP()
    from harness.c01 import make_writer
    hw = make_writer(f)
    hw.path = symh5  # unused (verify=False)
    with quiet():
        hw.store_basin(basin_name="b", basin_type="file",
                       basin_format="hdf5", basin_locs=["/d/o.rtdc"],
                       basin_map=SArr(list(new), np.uint64), verify=False)
    # which mapping name was written into the definition?
    bg = f["basins"]
    defs = []
    for key in bg.keys():
        lines = [x.decode() if isinstance(x, bytes) else x
                 for x in list(bg[key].data)]
        defs.append(json.loads("\n".join(lines)))
    eng.prove(z3.BoolVal(len(defs) == 1), "one basin definition stored")
    name = defs[0]["mapping"]
    eng.prove(z3.BoolVal(name.startswith("basinmap") and name in ev),
              "definition refers to an existing basinmap feature",
              info={"mapping": name})
    stored = list(ev[name].data.elems)
    eng.prove(z3.And([toint(a) == b.e for a, b in zip(stored, new)] +
                     [z3.BoolVal(len(stored) == L)]),
              "the referenced basinmap feature holds the new map")
    for n, vals in enumerate(exist):
        st = list(ev["basinmap%d" % n].data.elems)
        eng.prove(z3.And([toint(a) == b.e for a, b in zip(st, vals)]),
                  "existing basinmap features are not overwritten")
    return name


# ------------------------------------------------- export: map composition
def run_export(eng, p):
    N = 3
    npx = SymNP()
    bits = [eng.bool("f%d" % i) for i in range(N)]
    omap = [eng.int("omap%d" % i) for i in range(N)]
    for v in omap:
        # the origin of an upstream mapped basin may be much larger than the
        # exported dataset
        eng.assume((v >= 0) & (v < 70000))

    class BasinStub:
        def __init__(self, name, mapped):
            self.name, self.mapped = name, mapped

        def as_dict(self):
            return {"basin_name": self.name, "basin_type": "file",
                    "basin_format": "hdf5", "basin_locs": ["/d/up.rtdc"],
                    "basin_descr": None, "basin_feats": None,
                    "basin_map": SArr(list(omap), np.uint64)
                    if self.mapped else None}

    class Filt:
        all = SArr(bits, bool)
    from dclab.rtdc_dataset.config import Configuration

    class P:
        def __init__(self, s):
            self.s = str(s)
            self.name = self.s.rsplit("/", 1)[-1]
            self.suffix = ".rtdc"

        @property
        def parent(self):
            return P(self.s.rsplit("/", 1)[0])

        def __truediv__(self, o):
            return P(self.s + "/" + str(o))

        def exists(self):
            return False

        def mkdir(self, **k):
            pass

        def resolve(self):
            return self

        def __fspath__(self):
            return self.s

        def __str__(self):
            return self.s

    class pathlib_shim:
        Path = P

    class DS:
        format = "hdf5"
        features_innate = []
        config = Configuration()
        logs, tables = {}, {}
        path = P("/d/in.rtdc")
        filter = Filt()
        basins = [BasinStub("same-basin", False),
                  BasinStub("mapped-basin", True)] if p["basins"] == "both" \
            else []

        def __len__(self):
            return N

        def get_measurement_identifier(self):
            return "mid"
    DS.config["experiment"]["sample"] = "s"
    files = {}

    class H5(symh5.File):
        def __init__(self, path, mode="r", **kw):
            symh5.File.__init__(self, str(path), "w")
            files[str(path)] = self

    class h5shim:
        File, Group, Dataset, h5o = H5, symh5.Group, symh5.Dataset, symh5.h5o
    Wr = sym_writer(np=npx, h5py=h5shim, pathlib=pathlib_shim)
    ns = shadow(EX, np=npx, RTDCWriter=Wr, pathlib=pathlib_shim,
                get_basin_classes=lambda: {"hdf5": object})
    with quiet():
        ns["Export"](DS()).hdf5("/d/out.rtdc", features=[],
                                filtered=p["filtered"], basins=True)
    out = files["/d/out.rtdc"]
    out.closed = False
    defs = {}
    sel0 = [i for i in range(N) if bool(bits[i])]
    if p["filtered"] and not sel0:
        # nothing is exported: no mapped basin can (or needs to) be stored
        eng.prove(z3.BoolVal(True), "empty filtered export succeeds")
        return "empty"
    for key in out["basins"].keys():
        lines = [x.decode() if isinstance(x, bytes) else x
                 for x in list(out["basins"][key].data)]
        d = json.loads("\n".join(lines))
        defs[d["name"]] = d
    sel = [i for i in range(N) if bool(bits[i])]
    ev = out.get("events", {})

    def stored_map(d):
        return list(ev[d["mapping"]].data.elems)
    eng.prove(z3.BoolVal("Exported data" in defs),
              "export: a basin referring to the exported dataset is stored")
    if not p["filtered"]:
        eng.prove(z3.BoolVal(defs["Exported data"]["mapping"] == "same"),
                  "unfiltered export: identity mapping")
        return "ok"
    if "Exported data" in defs:
        d = defs["Exported data"]
        eng.prove(z3.BoolVal(d["mapping"].startswith("basinmap")),
                  "filtered export: the origin basin is mapped")
        if d["mapping"].startswith("basinmap"):
            m = stored_map(d)
            eng.prove(z3.BoolVal([int(x) for x in m] == sel),
                      "filtered export: map == indices of selected events",
                      info={"map": [int(x) for x in m], "selected": sel})
    if p["basins"] == "both":
        d = defs.get("same-basin")
        eng.prove(z3.BoolVal(d is not None and
                             [int(x) for x in stored_map(d)] == sel),
                  "filtered export: basin with identity map gets the "
                  "selected indices")
        d = defs.get("mapped-basin")
        ok = d is not None and d["mapping"].startswith("basinmap")
        eng.prove(z3.BoolVal(ok), "filtered export: mapped basin kept")
        if ok:
            m = stored_map(d)
            eng.prove(z3.And([z3.BoolVal(len(m) == len(sel))] +
                             [toint(a) == omap[i].e
                              for a, i in zip(m, sel)]),
                      "filtered export: composed map == original map "
                      "restricted to the selected events")
    return "ok"


def run_export_hierarchy(eng, p):
    """export of a hierarchy child (depth 1 or 2): the stored basin must map
    every exported event to its ROOT event"""
    N = 3
    npx = SymNP()

    def decide(tag, n):
        return np.array([bool(eng.branch(eng.bool("%s%d" % (tag, i)).e))
                         for i in range(n)], dtype=bool)

    class P:
        def __init__(self, s):
            self.s = str(s)
            self.name = self.s.rsplit("/", 1)[-1]
            self.suffix = ".rtdc"

        @property
        def parent(self):
            return P(self.s.rsplit("/", 1)[0])

        def __truediv__(self, o):
            return P(self.s + "/" + str(o))

        def exists(self):
            return False

        def mkdir(self, **k):
            pass

        def resolve(self):
            return self

        def __fspath__(self):
            return self.s

        def __str__(self):
            return self.s

    class pathlib_shim:
        Path = P
    from dclab.rtdc_dataset.config import Configuration

    class Node:
        features_innate = []
        logs, tables, basins = {}, {}, []

        def __init__(self, fmt, parent, n, fbits):
            self.format, self.hparent, self.n = fmt, parent, n
            self.filter = types.SimpleNamespace(all=fbits)
            self.path = P("/d/root.rtdc")
            self.config = Configuration()
            self.config["experiment"]["sample"] = "s"

        def __len__(self):
            return self.n

        def get_root_parent(self):
            return self if self.hparent is None else \
                self.hparent.get_root_parent()

        def get_measurement_identifier(self):
            return "mid"
    froot = decide("r", N)
    root = Node("hdf5", None, N, froot)
    rootids = [list(np.where(froot)[0])]
    cur = root
    for lvl in range(p["depth"]):
        n = int(np.sum(cur.filter.all))
        fb = decide("c%d_" % lvl, n)
        child = Node("hierarchy", cur, n, fb)
        cur = child
    ds = cur
    # root index of every event of ds
    ids = list(range(N))
    node, chain = ds, []
    while node.hparent is not None:
        chain.append(node.hparent.filter.all)
        node = node.hparent
    for fa in reversed(chain):
        ids = [ids[i] for i in np.where(fa)[0]]
    files = {}

    class H5(symh5.File):
        def __init__(self, path, mode="r", **kw):
            symh5.File.__init__(self, str(path), "w")
            files[str(path)] = self

    class h5shim:
        File, Group, Dataset, h5o = H5, symh5.Group, symh5.Dataset, symh5.h5o
    Wr = sym_writer(np=npx, h5py=h5shim, pathlib=pathlib_shim)
    # everything is concrete on a path (the filters were decided above):
    # the export code runs with the real numpy, the real index mappers
    ns = shadow(EX, RTDCWriter=Wr, pathlib=pathlib_shim,
                get_basin_classes=lambda: {"hdf5": object})
    with quiet():
        ns["Export"](ds).hdf5("/d/out.rtdc", features=[],
                              filtered=p["filtered"], basins=True)
    out = files["/d/out.rtdc"]
    out.closed = False
    sel = [i for i in range(len(ds)) if ds.filter.all[i]] \
        if p["filtered"] else list(range(len(ds)))
    exp = [ids[i] for i in sel]
    if not exp:
        eng.reach()
        return "empty"
    defs = {}
    for key in out["basins"].keys():
        lines = [x.decode() if isinstance(x, bytes) else x
                 for x in list(out["basins"][key].data)]
        d = json.loads("\n".join(lines))
        defs[d["name"]] = d
    d = defs.get("Exported data (hierarchy)")
    eng.prove(z3.BoolVal(d is not None), "hierarchy export: a basin "
              "referring to the root dataset is stored")
    if d is not None:
        if d["mapping"] == "same":
            got = list(range(len(exp)))
        else:
            got = [int(x) for x in list(out["events"][d["mapping"]].data)]
        eng.prove(z3.BoolVal(got == exp),
                  "hierarchy export: basin map == root indices of the "
                  "exported events", info={"map": got, "expected": exp})
    return "ok"


def run_case(name, params):
    if params["kind"] == "export_hierarchy":
        eng = Engine(timeout_ms=20000)
        eng.explore(lambda e: run_export_hierarchy(e, params))
        return eng.stats()
    eng = Engine(timeout_ms=20000)
    fn = {"proxy": run_proxy, "store": run_store, "export": run_export}[
        params["kind"]]
    eng.explore(lambda e: fn(e, params))
    return eng.stats()


def cases(tier, seed):
    out = []
    kmax = 4 if tier == "quick" else 5
    for k in range(1, kmax + 1):
        for scalar in (True, False):
            for warm in ((False, True) if scalar else (False,)):
                for acc in ("int", "whole", "array", "slice", "mask",
                            "summary"):
                    if not scalar and acc in ("mask", "summary"):
                        continue
                    if k == kmax and acc in ("slice", "mask") and \
                            tier == "quick":
                        continue
                    out.append(("proxy k=%d scalar=%s warm=%s %s" % (
                        k, scalar, warm, acc), dict(
                        kind="proxy", k=k, scalar=scalar, warm=warm,
                        access=acc)))
    for n in range(0, 4):
        out.append(("store_basin existing=%d" % n,
                    dict(kind="store", nexist=n)))
    for filtered in (True, False):
        for b in ("none", "both"):
            out.append(("export filtered=%s basins=%s" % (filtered, b),
                        dict(kind="export", filtered=filtered, basins=b)))
    for depth in (1, 2):
        for filtered in (True, False):
            out.append(("export hierarchy child depth=%d filtered=%s" % (
                depth, filtered), dict(kind="export_hierarchy", depth=depth,
                                       filtered=filtered)))
    random.Random(seed).shuffle(out)
    return out


# ------------------------------------------------------------------ replay
def replay(case, params, v):
    import os
    import tempfile
    import dclab
    import dclab.rtdc_dataset.writer as Wm
    vals = v.get("values") or {}
    p = params
    old = Wm.version
    Wm.version = "0.62.7"
    fails = []
    try:
        with tempfile.TemporaryDirectory(prefix="verif_c07_") as td, quiet():
            po = os.path.join(td, "o.rtdc")
            pr = os.path.join(td, "r.rtdc")
            if p["kind"] == "proxy":
                k = p["k"]
                bm = [int(vals.get("map%d" % j, 0)) for j in range(k)]
                M = max([int(vals.get("M", 1))] + [b + 1 for b in bm])
                M = min(M, 60)
                bm = [min(b, M - 1) for b in bm]
                base = np.linspace(1, 2, M)
                img = (np.arange(M)[:, None, None] * np.ones((1, 4, 4))
                       ).astype(np.uint8)
                with Wm.RTDCWriter(po, mode="reset") as hw:
                    hw.store_feature("deform", base)
                    hw.store_feature("image", img)
                    hw.store_metadata({"experiment":
                                       {"run identifier": "rid"}})
                with Wm.RTDCWriter(pr, mode="reset") as hw:
                    hw.store_feature("area_um", np.arange(k) + 1.)
                    hw.store_metadata({"experiment":
                                       {"run identifier": "rid-x"}})
                    hw.store_basin("b", "file", "hdf5", [po],
                                   basin_map=np.array(bm, dtype=np.uint64),
                                   verify=False)
                with dclab.new_dataset(pr) as ds:
                    feat = ds["deform"] if p["scalar"] else ds["image"]
                    exp = base[bm] if p["scalar"] else img[bm][:, 0, 0]
                    if p["warm"]:
                        feat[:]
                    acc = p["access"]

                    def norm(x):
                        x = np.asarray(x)
                        return x if p["scalar"] else (
                            x[..., 0, 0] if x.ndim == 3 else x[0, 0])
                    if acc == "int":
                        q = int(vals.get("q", 0))
                        try:
                            got, want = norm(feat[q]), exp[q % k]
                        except IndexError as e:
                            # a valid event index must never raise
                            got, want = np.array([]), exp[q % k]
                            fails.append(
                                "basin map %r, %s feature, int access [%d]%s "
                                "raised %r" % (
                                    bm, "scalar" if p["scalar"] else "image",
                                    q, " (cache warm)" if p["warm"] else "",
                                    e))
                    elif acc == "whole":
                        got, want = norm(feat[:]), exp
                    elif acc == "array":
                        got, want = norm(np.array(feat)), exp
                    elif acc == "slice":
                        a, b = int(vals.get("a", 0)), int(vals.get("b", k))
                        got, want = norm(feat[a:b]), exp[a:b]
                    elif acc == "summary":
                        # make sure the map does not cover the extremes
                        got, want = [], []
                        for nm, fn in (("min", np.min), ("max", np.max),
                                       ("mean", np.mean)):
                            if hasattr(feat, nm):
                                got.append(float(getattr(feat, nm)()))
                            else:
                                got.append(float(fn(feat)))
                            want.append(float(fn(exp)))
                        got, want = np.array(got), np.array(want)
                    else:
                        m = np.array([bool(vals.get("m%d" % j, False))
                                      for j in range(k)])
                        got, want = norm(feat[m]), exp[m]
                    if not fails and (np.shape(got) != np.shape(want) or
                                      not np.allclose(got, want)):
                        fails.append(
                            "basin map %r, %s feature, %s access%s: got %r,"
                            " origin[map] is %r" % (
                                bm, "scalar" if p["scalar"] else "image",
                                acc, " (cache warm)" if p["warm"] else "",
                                np.asarray(got).tolist(),
                                np.asarray(want).tolist()))
                key = "BasinProxyFeature|%s-access" % p["access"]
            elif p["kind"] == "export":
                bits = [bool(vals.get("f%d" % i, False)) for i in range(3)]
                with Wm.RTDCWriter(po, mode="reset") as hw:
                    hw.store_feature("deform", np.linspace(.1, .2, 3))
                    hw.store_feature("area_um", np.linspace(50, 60, 3))
                    hw.store_metadata({"experiment":
                                       {"run identifier": "rid"}})
                with dclab.new_dataset(po) as ds:
                    ds.filter.manual[:] = bits
                    ds.apply_filter()
                    try:
                        ds.export.hdf5(pr, features=["deform"],
                                       filtered=p["filtered"], basins=True)
                    except Exception as e:
                        fails.append("export with filter %r, basins=True "
                                     "raised %r" % (bits, e))
                if not fails and any(bits):
                    with dclab.new_dataset(pr) as ds2:
                        sel = [i for i in range(3)
                               if bits[i] or not p["filtered"]]
                        got = ds2["area_um"][:]
                        if not np.allclose(got, np.linspace(50, 60, 3)[sel]):
                            fails.append("basin feature after filtered "
                                         "export: %r" % got.tolist())
                if not fails and any(bits) and p["basins"] == "both" \
                        and p["filtered"]:
                    # an upstream MAPPED basin (origin larger than the
                    # dataset): the exported map is the composition
                    import h5py
                    import json as _json
                    om = [int(vals.get("omap%d" % i, 0)) for i in range(3)]
                    pa = os.path.join(td, "a.rtdc")
                    pb = os.path.join(td, "b.rtdc")
                    pc = os.path.join(td, "c.rtdc")
                    with Wm.RTDCWriter(pa, mode="reset") as hw:
                        hw.store_feature("area_um",
                                         np.arange(max(om) + 1, dtype=float))
                        hw.store_metadata({"experiment":
                                           {"run identifier": "rid"}})
                    with Wm.RTDCWriter(pb, mode="reset") as hw:
                        hw.store_feature("deform", np.linspace(.1, .2, 3))
                        hw.store_metadata({"experiment":
                                           {"run identifier": "rid"}})
                        hw.store_basin("up", "file", "hdf5", [pa],
                                       basin_map=np.array(om,
                                                          dtype=np.uint64),
                                       verify=False)
                    with dclab.new_dataset(pb) as ds:
                        ds.filter.manual[:] = bits
                        ds.apply_filter()
                        ds.export.hdf5(pc, features=["deform"],
                                       filtered=True, basins=True)
                    sel = [i for i in range(3) if bits[i]]
                    with h5py.File(pc, "r") as h:
                        for key in h["basins"]:
                            d = _json.loads("\n".join(
                                x.decode() if isinstance(x, bytes) else x
                                for x in h["basins"][key][:]))
                            if d["name"] != "up":
                                continue
                            m = h["events"][d["mapping"]][:].tolist() \
                                if d["mapping"] != "same" else None
                            if m != [om[i] for i in sel]:
                                fails.append(
                                    "filtered export (selection %r) of a "
                                    "dataset with an upstream basin mapped "
                                    "by %r stores the map %r, expected %r" %
                                    (sel, om, m, [om[i] for i in sel]))
                key = "Export.hdf5|basins|" + (
                    "empty-selection-raises" if fails and "raised" in
                    fails[0] else "wrong-map")
            elif p["kind"] == "export_hierarchy":
                from dclab.rtdc_dataset.fmt_hierarchy import RTDC_Hierarchy
                N = 3
                with Wm.RTDCWriter(po, mode="reset") as hw:
                    hw.store_feature("deform", np.linspace(.1, .2, N))
                    hw.store_feature("area_um", np.linspace(50, 60, N))
                    hw.store_metadata({"experiment":
                                       {"run identifier": "rid"}})
                with dclab.new_dataset(po) as root:
                    root.filter.manual[:] = [bool(vals.get("r%d" % i, False))
                                             for i in range(N)]
                    root.apply_filter()
                    cur, ids = root, list(np.where(root.filter.all)[0])
                    for lvl in range(p["depth"]):
                        ch = RTDC_Hierarchy(cur)
                        ch.filter.manual[:] = [
                            bool(vals.get("c%d_%d" % (lvl, i), False))
                            for i in range(len(ch))]
                        ch.apply_filter()
                        cur = ch
                        if lvl < p["depth"] - 1:
                            ids = [ids[i] for i in np.where(
                                ch.filter.all)[0]]
                    sel = list(np.where(cur.filter.all)[0]) \
                        if p["filtered"] else list(range(len(cur)))
                    exp = [ids[i] for i in sel]
                    if exp:
                        cur.export.hdf5(pr, features=["deform"],
                                        filtered=p["filtered"], basins=True)
                        with dclab.new_dataset(pr) as ds2:
                            got = ds2["area_um"][:]
                            want = np.linspace(50, 60, N)[exp]
                            if len(got) != len(want) or \
                                    not np.allclose(got, want):
                                fails.append(
                                    "export of a depth-%d hierarchy child: "
                                    "basin feature is %r, the root events of "
                                    "the exported events give %r" % (
                                        p["depth"], np.asarray(got).tolist(),
                                        want.tolist()))
                key = "Export.hdf5|hierarchy-basin-map"
            elif p["kind"] == "store":
                import h5py
                import json as _json
                L = 2
                new = np.array([int(vals.get("new%d" % i, 0) or 0)
                                for i in range(L)], dtype=np.uint64)
                exist = [np.array([int(vals.get("ex%d_%d" % (n, i), 0) or 0)
                                   for i in range(L)], dtype=np.uint64)
                         for n in range(p["nexist"])]
                with Wm.RTDCWriter(po, mode="reset") as hw:
                    hw.store_feature("deform", np.linspace(.1, .2, L))
                    for n, m in enumerate(exist):
                        hw.store_feature("basinmap%d" % n, m)
                    hw.store_basin(basin_name="b", basin_type="file",
                                   basin_format="hdf5",
                                   basin_locs=["/d/o.rtdc"],
                                   basin_map=new, verify=False)
                with h5py.File(po, "r") as h:
                    keys = list(h["basins"].keys())
                    bd = _json.loads("\n".join(
                        x.decode() if isinstance(x, bytes) else x
                        for x in h["basins"][keys[0]][:]))
                    nm = bd["mapping"]
                    stored = h["events"][nm][:]
                    if stored.tolist() != new.tolist():
                        fails.append("store_basin(basin_map=%r) refers to "
                                     "%s which holds %r (existing maps %r)"
                                     % (new.tolist(), nm, stored.tolist(),
                                        [m.tolist() for m in exist]))
                    for n, m in enumerate(exist):
                        if h["events"]["basinmap%d" % n][:].tolist() != \
                                m.tolist():
                            fails.append("existing basinmap%d overwritten"
                                         % n)
                key = "store_basin|map-reuse"
            else:
                return {"reproduced": False, "key": "no-replay",
                        "detail": "%r" % (v,)}
    finally:
        Wm.version = old
    if not fails:
        return {"reproduced": False, "key": "not-reproduced",
                "detail": "mapped access correct on the real code"}
    return {"reproduced": True, "key": key, "detail": fails[0]}


CANARIES = [
    dict(name="integer access ignores the map", module=FB,
         qualname="BasinProxyFeature.__getitem__",
         old="return self.feat_obj[self.basinmap[index]]",
         new="return self.feat_obj[index]"),
    dict(name="export composes the map with the wrong operand", module=EX,
         qualname="Export.hdf5",
         old='bn_dict["basin_map"] = basinmap_orig[filter_arr]',
         new='bn_dict["basin_map"] = np.where(filter_arr)[0]'),
    dict(name="store_basin reuses the first basinmap unconditionally",
         module=W, qualname="RTDCWriter.store_basin",
         old='if np.all(self.h5file["events"][bm_cand] == basin_map):',
         new="if True:"),
]
