"""C09 -- split partitions, join concatenates chronologically.

Real code executed: the bodies of dclab.cli.task_split.split and
dclab.cli.task_join.join (current source; join is re-compiled with the one
literal-method call `"_".join(...)` routed through a shim so that symbolic
strings survive) over recording stubs for new_dataset / export.hdf5 /
RTDCWriter.  Symbolic: split size; acquisition day, hour, minute, second and
optional fractional-second digits of every join input, run index, frame rate,
feature-presence bits.
"""
import itertools
import random
import types

import numpy as np
import z3

from vf.common import real
from vf.dcsym import shadow, quiet, rewrite_str_methods
from vf.symnp import SArr, SymNP, Tok
from vf.symx import (Engine, SBool, SInt, SReal, SStr, sjoin, srange, toint,
                     toreal, tobool)

PID = "C09"
CLI = "dclab.cli."
FUNCTIONS = [(CLI + "task_split", "split"), (CLI + "task_join", "join"),
             (CLI + "common", "skip_empty_image_events")]
BOUNDS = {
    "quick": {"split": "N = 1..6 events, split size symbolic 1..8",
              "join": "2..3 inputs; same month, day/hour/minute/second "
              "symbolic (two-digit fields), 0..2 fractional digits per input "
              "(all shapes), run index 1..12, frame rates 2000/1500/3000/500; features "
              "from a universe of 5 (time, frame, index_online, deform, "
              "area_um), each present or not per input"},
    "thorough": {"split": "N = 1..8", "join": "2..4 inputs"},
}
OUTSIDE = ["time zones / DST of the real time.mktime (modelled as a linear "
           "function of the parsed fields)", "tdms inputs", "the data written "
           "by export.hdf5 / RTDCWriter (C01, C02)", "dates in different "
           "months/years", "ordering of inputs with identical date and time "
           "but different run index"]
STUBS = ["new_dataset(path): stub dataset with config, feature lists, logs; "
         "feature data are provenance tokens / symbolic reals",
         "ds.export.hdf5 and RTDCWriter.store_*: recorders",
         "time.strptime/mktime: linear in the parsed fields",
         "round(x): integer r with |r - x| <= 1/2",
         "np.uint64(x): OverflowError for negative x"]
ASSUMPTIONS = ["time strings have the documented form HH:MM:SS[.fff]",
               "acquisition order = (date, time incl. fraction); ties keep "
               "the given order"]
EXPLANATION = "C09: window arithmetic of split, ordering/offsets of join."

UNIVERSE = ["area_um", "bright_avg", "deform", "frame", "index_online",
            "time"]
# features an input may be able to compute (non-rapid ancillary: bright_avg
# from image and mask) without having them stored
COMPUTABLE = ["bright_avg"]


# ------------------------------------------------------------------ split
def run_split(eng, p):
    N = p["N"]
    S = eng.int("split_events")
    eng.assume((S >= 1) & (S <= N + 2))
    parts = []
    npx = SymNP()

    class Filt:
        manual = SArr([True] * N, bool)

    class Export:
        def hdf5(self_, path, features=None, filtered=True, **kw):
            sel = [i for i, b in enumerate(Filt.manual.elems) if bool(b)]
            parts.append((str(path), sel))

    class DS:
        format = "hdf5"
        features_innate = ["deform"]
        filter = Filt()
        export = Export()
        config = {"experiment": {"sample": "s"}}

        def __len__(self):
            return N

        def __contains__(self, f):
            return f in self.features_innate

        def apply_filter(self):
            pass

        def __enter__(self):
            return self

        def __exit__(self, *a):
            return False

    class RTDCWriter:
        def __init__(self, *a, **k):
            pass

        def __enter__(self):
            return self

        def __exit__(self, *a):
            return False

        def store_log(self, *a, **k):
            pass

        def store_metadata(self, *a, **k):
            pass

    class P:
        def __init__(self, s):
            self.s = str(s)
            self.stem = self.s.split("/")[-1].rsplit(".", 1)[0]
            self.parent = self

        def __truediv__(self, o):
            return P(self.s + "/" + o)

        def with_suffix(self, suf):
            return P(self.s.rsplit(".", 1)[0] + suf)

        def rename(self, o):
            for i, (pth, sel) in enumerate(parts):
                if pth == self.s:
                    parts[i] = (o.s, sel)

        def __str__(self):
            return self.s

    class pathlib_shim:
        Path = P
    common_ns = shadow(CLI + "common", np=npx)
    common_ns["get_command_log"] = lambda paths, custom_dict=None: ["x"]
    fmt_tdms = types.SimpleNamespace(NPTDMS_AVAILABLE=False)
    ns = shadow(CLI + "task_split", new_dataset=lambda p: DS(),
                RTDCWriter=RTDCWriter, pathlib=pathlib_shim,
                common=types.SimpleNamespace(**common_ns), range=srange,
                fmt_tdms=fmt_tdms, np=npx)
    with quiet():
        out = ns["split"](path_in=P("/d/m.rtdc"), path_out=P("/d/o"),
                          split_events=S, ret_out_paths=True)
    allsel = [i for _, sel in parts for i in sel]
    eng.prove(z3.BoolVal(allsel == list(range(N))),
              "split: parts together contain every event exactly once, in "
              "order", info={"parts": [sel for _, sel in parts]})
    for _, sel in parts:
        eng.prove(SInt(z3.IntVal(len(sel))) <= S,
                  "split: no part holds more than the requested number")
        eng.prove(z3.BoolVal(len(sel) > 0), "split: no empty part")
    eng.prove(z3.BoolVal(len(out) == len(parts)), "split: returned paths")
    return [sel for _, sel in parts]


# ------------------------------------------------------------------- join
def two(eng, name, lo, hi):
    v = eng.int(name)
    eng.assume((v >= lo) & (v <= hi))
    return v


def dd(v):
    """two-digit decimal rendering of an SInt 0..99"""
    e = toint(v)
    return SStr([SInt(48 + e / 10), SInt(48 + e % 10)])


class Src:
    """one join input with symbolic acquisition time"""

    def __init__(self, eng, k, nfrac, feats, p):
        self.k = k
        if p.get("fixed_time"):
            # feature-set focus: a fixed, permuted acquisition order
            d = [3, 1, 2, 4][k]
            self.day = two(eng, "day%d" % k, d, d)
        else:
            self.day = two(eng, "day%d" % k, 1, 28)
        if p.get("hm") == "free":
            self.H = two(eng, "H%d" % k, 0, 23)
            self.M = two(eng, "M%d" % k, 0, 59)
        else:
            self.H = two(eng, "H%d" % k, 10, 10)
            self.M = two(eng, "M%d" % k, 0, 0)
        if p.get("fixed_time"):
            self.S = two(eng, "S%d" % k, 30, 30)
        else:
            self.S = two(eng, "S%d" % k, 0, 59)
        self.frac = [two(eng, "f%d_%d" % (k, i), 0, 9) for i in range(nfrac)]
        if p.get("run") == "free":
            self.run = two(eng, "run%d" % k, 1, 12)
        else:
            self.run = two(eng, "run%d" % k, 1, 1)
        # concrete, different per source (a symbolic rate makes the frame
        # offset a product of two unknowns: non-linear, slow)
        self.fr = SReal(z3.RealVal([2000, 1500, 3000, 500][k]))
        self.feats = feats
        self.date = SStr(list("2020-01-")) + dd(self.day)
        self.time = dd(self.H) + ":" + dd(self.M) + ":" + dd(self.S)
        if nfrac:
            self.time = self.time + "." + SStr.digits(self.frac)
        # acquisition instant (seconds, exact)
        t = z3.ToReal(toint(self.day) * 86400 + toint(self.H) * 3600 +
                      toint(self.M) * 60 + toint(self.S))
        for i, d in enumerate(self.frac):
            t = t + z3.ToReal(toint(d)) / (10 ** (i + 1))
        self.t = t
        self.time_vals = [eng.real("time%d_%d" % (k, i)) for i in range(2)]
        self.frame_vals = [eng.int("frame%d_%d" % (k, i)) for i in range(2)]
        for fv in self.frame_vals:
            eng.assume(fv >= 0)


def run_join(eng, p):
    n = p["n"]
    srcs = []
    for k in range(n):
        feats = [f for f in UNIVERSE
                 if f in p["always"] or (f in p["maybe"] and
                                         bool(eng.bool("has_%s_%d" % (f, k))))]
        srcs.append(Src(eng, k, p["nfrac"][k], feats, p))
        srcs[-1].comp = [f for f in COMPUTABLE
                         if f in p["maybe"] and f not in feats and
                         bool(eng.bool("comp_%s_%d" % (f, k)))]
    rec = {"exports": [], "stored": [], "logs": [], "opened": []}
    npx = SymNP()

    class StructTime:
        def __init__(self, s):
            self.s = s

    class time_shim:
        @staticmethod
        def strptime(text, fmt):
            # text = date + "HH:MM:SS": find the source by identity of
            # its symbolic fields (position-wise)
            return StructTime(text)

        @staticmethod
        def mktime(st):
            txt = st.s
            c = txt._codes()
            # "2020-01-DDHH:MM:SS"
            def num(i):
                return (c[i] - 48) * 10 + (c[i + 1] - 48)
            return SReal(z3.ToReal(num(8) * 86400 + num(10) * 3600 +
                                   num(13) * 60 + num(16)))

    def sfloat(x):
        if isinstance(x, SStr):
            c = x._codes()
            # ".ddd"
            val = z3.RealVal(0)
            for i, ch in enumerate(c[1:]):
                val = val + z3.ToReal(ch - 48) / (10 ** (i + 1))
            return SReal(val)
        return float(x)

    def sstr(x):
        if isinstance(x, SInt):
            e = toint(x)
            if bool(SBool(e >= 10)):
                return dd(x)
            return SStr([SInt(48 + e)])
        return str(x)

    def sround(x, *a):
        if isinstance(x, SReal):
            r = eng.int("round%d" % len(eng.vars))
            eng.assume(SBool(z3.And(z3.ToReal(r.e) - x.e <= 0.5,
                                    x.e - z3.ToReal(r.e) <= 0.5)))
            return r
        return round(x, *a)

    class u64:
        def __new__(cls, x=0):
            if isinstance(x, SInt):
                if bool(x < 0):
                    raise OverflowError("Python integer %s out of bounds for"
                                        " uint64" % x)
                return x
            return np.uint64(x)
    npx._over["uint64"] = u64
    npx.uint64 = u64

    class Cfg(dict):
        def tostring(self, sections=None):
            return "[cfg of source]"

    def io_vals(k):
        return [eng.int("io%d_%d" % (k, i)) for i in range(2)]

    class Export:
        def __init__(self, src):
            self.src = src

        def hdf5(self, path, features=None, **kw):
            rec["exports"].append((self.src.k, list(features)))

    class DS:
        def __init__(self, src):
            self.src = src
            self.config = Cfg(
                experiment={"date": src.date, "time": src.time,
                            "run index": src.run},
                imaging={"frame rate": src.fr})
            self.features_innate = list(src.feats)
            self.features = list(src.feats)
            self.features_loaded = list(src.feats)
            if "frame" in src.feats and "time" not in src.feats:
                self.features.append("time")     # ancillary: frame / rate
                self.features_loaded.append("time")   # (a "rapid" one)
            self.features += list(src.comp)      # computed on demand only
            self.logs = {"log": ["line-of-%d" % src.k],
                         "dclab-split": ["job-of-%d" % src.k]}
            self.tables = {}
            self.export = Export(src)
            rec["opened"].append(src.k)

        def __getitem__(self, f):
            if f not in self.features:
                raise KeyError("Feature '%s' does not exist in source %d" %
                               (f, self.src.k))
            if f == "time" and "time" not in self.src.feats:
                return SArr([SReal(z3.ToReal(fv.e) / self.src.fr.e)
                             for fv in self.src.frame_vals], float)
            if f == "time":
                return SArr(self.src.time_vals, float)
            if f == "frame":
                return SArr(self.src.frame_vals, np.uint64)
            if f == "index_online":
                return SArr(io_vals(self.src.k), int)
            return SArr([Tok("src%d:%s" % (self.src.k, f), i)
                         for i in range(2)], float)

        def __enter__(self):
            return self

        def __exit__(self, *a):
            return False

    class H5:
        def __contains__(self, k):
            return any(f == "index_online" for _, f, _ in rec["stored"]) or \
                any("index_online" in fs for _, fs in rec["exports"])

        def __getitem__(self, k):
            # the index_online values written so far (export of the first
            # input, then every stored block, in order)
            out = []
            for sk, fs in rec["exports"]:
                if "index_online" in fs:
                    out += io_vals(sk)
            for sk, f, data in rec["stored"]:
                if f == "index_online":
                    out += list(data)
            return SArr(out, int)

    class RTDCWriter:
        def __init__(self, *a, **k):
            self.h5file = H5()

        def __enter__(self):
            return self

        def __exit__(self, *a):
            return False

        def store_feature(self, feat, data):
            rec["stored"].append((cur["src"], feat, data))

        def store_log(self, name, lines):
            rec["logs"].append(name)

        def store_table(self, *a, **k):
            pass

        def store_metadata(self, *a, **k):
            pass

    cur = {"src": None}
    paths = ["/d/in%d.rtdc" % k for k in range(n)]

    def new_dataset(pth):
        k = paths.index(str(pth))
        cur["src"] = k
        return DS(srcs[k])

    class P:
        def __init__(self, s):
            self.s = str(s)

        def __str__(self):
            return self.s

        def __eq__(self, o):
            return str(o) == self.s

        def __hash__(self):
            return hash(self.s)

        def rename(self, o):
            pass
    common = types.SimpleNamespace(
        setup_task_paths=lambda pi, po, allowed_input_suffixes=None: (
            [P(x) for x in pi], P(po), P(str(po) + "~")),
        get_command_log=lambda paths, custom_dict=None: ["x"],
        assemble_warnings=lambda w: ["w"])
    shims = dict(new_dataset=new_dataset, RTDCWriter=RTDCWriter,
                 common=common, time=time_shim, np=npx, float=sfloat,
                 str=sstr, round=sround, __sjoin__=sjoin, len=len)
    join_src = real(CLI + "task_join", "join")
    import dclab.cli.task_join as tj
    join = rewrite_str_methods(tj.join, shims, CLI + "task_join", "join")
    try:
        with quiet():
            join(paths_in=list(paths), path_out="/d/out.rtdc")
    except (KeyError, OverflowError, ValueError, IndexError) as e:
        eng.fail("join raised %s" % type(e).__name__, detail=repr(e)[:300])
        return "raised"
    # ---------------- specification
    order = [k for k, _ in rec["exports"]] + \
        [k for k in _dedup([s for s, _, _ in rec["stored"]])]
    # sources in processing order: first = exported one, then stored ones
    first = rec["exports"][0][0]
    later = []
    for s, _, _ in rec["stored"]:
        if s not in later:
            later.append(s)
    seq = [first] + later
    feats = rec["exports"][0][1]
    if feats and len(seq) == n:
        # chronological, ties in given order
        conds = []
        for a, b in zip(seq, seq[1:]):
            ta, tb = srcs[a].t, srcs[b].t
            conds.append(z3.Or(ta < tb, z3.And(ta == tb,
                                               z3.Or(a < b,
                                                     toint(srcs[a].run) !=
                                                     toint(srcs[b].run)))))
        eng.prove(z3.And(conds), "join: inputs are concatenated in "
                                 "chronological order (ties in given order)",
                  info=lambda ev: {"order": seq})
    else:
        eng.prove(z3.BoolVal(len(seq) == n or not feats),
                  "join: every input is processed")
    # feature set
    def avail(s, f):
        return f in s.feats or f in s.comp or (
            f == "time" and "frame" in s.feats)
    common_f = [f for f in UNIVERSE if f in srcs[first].feats and
                all(avail(s, f) for s in srcs)]
    eng.prove(z3.BoolVal(sorted(feats) == sorted(common_f)),
              "join: stored features == features available in every input",
              info={"stored": sorted(feats), "common": common_f})
    # offsets
    t0 = srcs[first].t
    for s, f, data in rec["stored"]:
        dt = srcs[s].t - t0
        if f == "time":
            origs = srcs[s].time_vals if "time" in srcs[s].feats else [
                SReal(z3.ToReal(fv.e) / srcs[s].fr.e)
                for fv in srcs[s].frame_vals]
            for got, orig in zip(list(data), origs):
                eng.prove(toreal(got) == orig.e + dt,
                          "join: time continued by the acquisition offset")
        elif f == "frame":
            for got, orig in zip(list(data), srcs[s].frame_vals):
                d = z3.ToReal(toint(got) - orig.e) - dt * srcs[s].fr.e
                eng.prove(z3.And(d <= 0.5, d >= -0.5),
                          "join: frame continued by round(offset * rate)")
        elif f == "index_online":
            prev = []
            for sk, fs in rec["exports"]:
                if "index_online" in fs:
                    prev += [z3.Int("io%d_%d" % (sk, i)) for i in range(2)]
            for s2, f2, d2 in rec["stored"]:
                if d2 is data:
                    break
                if f2 == "index_online":
                    prev += [toint(x) for x in list(d2)]
            off = prev[-1] + 1 if prev else z3.IntVal(0)
            for i, got in enumerate(list(data)):
                eng.prove(toint(got) == z3.Int("io%d_%d" % (s, i)) + off,
                          "join: index_online continued after the last "
                          "index written so far")
        elif f not in ("index_online",):
            eng.prove(z3.BoolVal(all(isinstance(x, Tok) and
                                     x.src == "src%d:%s" % (s, f)
                                     for x in list(data))),
                      "join: feature data of the right source")
    for k in range(n):
        i = seq.index(k) + 1 if k in seq else None
        eng.prove(z3.BoolVal(i is not None and all(
            "src-#%d_%s" % (i, ln) in rec["logs"] or i == 1
            for ln in ("log", "dclab-split"))),
            "join: logs of every source retained")
    return seq


def _dedup(xs):
    out = []
    for x in xs:
        if x not in out:
            out.append(x)
    return out


def run_case(name, params):
    eng = Engine(timeout_ms=30000, max_paths=400000)
    if params["kind"] == "split":
        eng.explore(lambda e: run_split(e, params))
    else:
        eng.explore(lambda e: run_join(e, params))
    return eng.stats()


def cases(tier, seed):
    out = []
    for N in range(1, (6 if tier == "quick" else 8) + 1):
        out.append(("split N=%d" % N, dict(kind="split", N=N)))
    ns = [2, 3] if tier == "quick" else [2, 3, 4]
    out.append(("join n=2 frac=(0, 1) order hm+run free", dict(
        kind="join", n=2, nfrac=[0, 1], always=["deform", "time", "frame"],
        maybe=[], hm="free", run="free")))
    for n in ns:
        fr = [0, 1, 2] if n == 2 else [0, 1]
        combos = list(itertools.product(fr, repeat=n))
        if n >= 3 and tier == "quick":
            combos = [(0, 0, 0), (1, 0, 0), (0, 1, 1)]
        if n >= 4:
            combos = [(0, 0, 0, 0), (1, 0, 0, 1)]
        for nfrac in combos:
            # (a) ordering/offset focus: all features present
            out.append(("join n=%d frac=%s order" % (n, nfrac),
                        dict(kind="join", n=n, nfrac=list(nfrac),
                             always=["deform", "time", "frame"], maybe=[])))
        # (b) feature-set focus: presence bits symbolic
        for maybe in (["area_um", "deform", "frame"],
                      ["frame", "index_online", "time"],
                      ["area_um", "deform", "index_online"],
                      ["area_um", "bright_avg", "frame"]):
            if n > 3 or (n == 3 and "bright_avg" in maybe
                         and tier == "quick"):
                continue
            out.append(("join n=%d features maybe=%s" % (n, maybe),
                        dict(kind="join", n=n, nfrac=[0] * n,
                             always=[f for f in ("deform", "time")
                                     if f not in maybe], maybe=maybe,
                             fixed_time=(n >= 3))))
    random.Random(seed).shuffle(out)
    return out


# ------------------------------------------------------------------ replay
def replay(case, params, v):
    import os
    import tempfile
    import h5py
    import dclab.cli as cli
    import dclab.rtdc_dataset.writer as W
    vals = v.get("values") or {}
    p = params
    old = W.version
    W.version = "0.62.7"
    fails = []
    try:
        with tempfile.TemporaryDirectory(prefix="verif_c09_") as td, quiet():
            if p["kind"] == "split":
                N = p["N"]
                S = int(vals.get("split_events", 1))
                pin = os.path.join(td, "m.rtdc")
                _write(pin, N, 0, None, None, ["deform", "area_um"])
                outs = cli.split(path_in=pin, path_out=td, split_events=S,
                                 ret_out_paths=True)
                got = []
                for o in outs:
                    with h5py.File(o, "r") as h:
                        d = h["events/deform"][:]
                        if len(d) > S:
                            fails.append("part with %d > %d events" % (
                                len(d), S))
                        got += list(np.round(d * 1000).astype(int))
                if got != list(range(N)):
                    fails.append("split(N=%d, split_events=%d) yields events "
                                 "%r" % (N, S, got))
                key = "split|not-a-partition"
            else:
                n = p["n"]
                srcs = []
                pins = []
                for k in range(n):
                    feats = [f for f in UNIVERSE
                             if f in p["always"] or (
                                 f in p["maybe"] and
                                 vals.get("has_%s_%d" % (f, k), False))]
                    day = int(vals.get("day%d" % k, 1))
                    tm = "%02d:%02d:%02d" % (int(vals.get("H%d" % k, 0)),
                                             int(vals.get("M%d" % k, 0)),
                                             int(vals.get("S%d" % k, 0)))
                    fr = "".join(str(int(vals.get("f%d_%d" % (k, i), 0)))
                                 for i in range(p["nfrac"][k]))
                    tsec = day * 86400 + int(tm[:2]) * 3600 + \
                        int(tm[3:5]) * 60 + int(tm[6:8]) + \
                        (float("0." + fr) if fr else 0.0)
                    if fr:
                        tm += "." + fr
                    pin = os.path.join(td, "in%d.rtdc" % k)
                    comp = [f for f in COMPUTABLE
                            if f in p["maybe"] and f not in feats and
                            vals.get("comp_%s_%d" % (f, k), False)]
                    _write(pin, 2, k, "2020-01-%02d" % day, tm,
                           feats + (["image", "mask"] if comp else []),
                           run=int(vals.get("run%d" % k, 1)))
                    srcs.append(dict(k=k, t=tsec, feats=feats, comp=comp,
                                     run=int(vals.get("run%d" % k, 1))))
                    pins.append(pin)
                pout = os.path.join(td, "out.rtdc")
                try:
                    cli.join(paths_in=pins, path_out=pout)
                except BaseException as e:
                    fails.append("join raised %r (features per input: %r)" %
                                 (e, [s["feats"] for s in srcs]))
                    return _res(fails, "join|exception|%s" %
                                type(e).__name__)
                exp_order = sorted(range(n), key=lambda k: (srcs[k]["t"], k))
                with h5py.File(pout, "r") as h:
                    ev = h["events"]
                    def avail(s, f):
                        # `time` is computed from `frame` when missing
                        return f in s["feats"] or f in s["comp"] or (
                            f == "time" and "frame" in s["feats"])
                    first = srcs[exp_order[0]]
                    common_f = [f for f in UNIVERSE
                                if f in first["feats"] and
                                all(avail(s, f) for s in srcs)]
                    for pos, k in enumerate(exp_order):
                        for ln, txt in (("log", "line-of-%d" % k),
                                        ("dclab-split", "job-of-%d" % k)):
                            nm = "src-#%d_%s" % (pos + 1, ln)
                            got = [x.decode() if isinstance(x, bytes) else x
                                   for x in h["logs"][nm][:]] \
                                if "logs" in h and nm in h["logs"] else None
                            if got != [txt]:
                                fails.append(
                                    "log %r of input %d (position %d) is %r "
                                    "in the joined file, expected %r" % (
                                        ln, k, pos + 1, got, [txt]))
                    if fails:
                        return _res(fails, "join|logs-not-retained")
                    stored = sorted(f for f in ev if f in UNIVERSE)
                    if stored != sorted(common_f):
                        fails.append("stored features %r != features "
                                     "available in every input %r" % (
                                         stored, common_f))
                    if "deform" in ev:
                        got = list(np.round(ev["deform"][:] * 100)
                                   .astype(int) // 10)
                        exp = [k for k in exp_order for _ in range(2)]
                        ties = len(set(s["t"] for s in srcs)) < n
                        if got != exp and not (ties and len(set(
                                s["run"] for s in srcs)) > 1):
                            fails.append(
                                "events concatenated in source order %r, "
                                "chronological order is %r (times %r)" % (
                                    got[::2], exp_order,
                                    [s["t"] for s in srcs]))
                    if "index_online" in ev and not fails:
                        io = [int(x) for x in ev["index_online"][:]]
                        # inputs hold index_online = [0, 1]; every appended
                        # input continues after the last index written
                        exp, last = [], None
                        for _ in exp_order:
                            off = 0 if last is None else last + 1
                            exp += [off, off + 1]
                            last = exp[-1]
                        if io != exp:
                            fails.append("index_online of the joined file "
                                         "is %r, expected %r (%d inputs)" %
                                         (io, exp, n))
                            return _res(fails, "join|index_online")
                key = "join|wrong-order-or-features"
    finally:
        W.version = old
    return _res(fails, key)


def _res(fails, key):
    if not fails:
        return {"reproduced": False, "key": "not-reproduced",
                "detail": "passes on the real code"}
    k = key
    if "chronological" in fails[0]:
        k = "join|not-chronological"
    elif "stored features" in fails[0]:
        k = "join|feature-set"
    return {"reproduced": True, "key": k, "detail": fails[0]}


def _write(path, N, k, date, tm, feats, run=1):
    import dclab.rtdc_dataset.writer as W
    with W.RTDCWriter(path, mode="reset") as hw:
        for f in feats:
            if f == "deform":
                d = np.arange(N) / 1000. + k / 10.
            elif f == "frame":
                d = np.arange(N) + 1
            elif f == "time":
                d = (np.arange(N) + 1) / 2000.
            elif f == "index_online":
                d = np.arange(N)
            elif f == "image":
                d = (np.arange(N * 64).reshape(N, 8, 8) % 200).astype(
                    np.uint8)
            elif f == "mask":
                d = np.zeros((N, 8, 8), dtype=bool)
                d[:, 2:6, 2:6] = True
            else:
                d = np.linspace(50, 60, N) + k
            hw.store_feature(f, d)
        meta = {"experiment": {"date": date or "2020-01-01",
                               "time": tm or "10:00:00", "run index": run,
                               "sample": "s", "event count": N},
                "imaging": {"frame rate": [2000., 1500., 3000., 500.][k],
                           "pixel size": .34},
                "setup": {"channel width": 20.0, "flow rate": .04,
                          "chip region": "channel", "medium": "other"}}
        hw.store_metadata(meta)
        hw.store_log("log", ["line-of-%d" % k])
        hw.store_log("dclab-split", ["job-of-%d" % k])


CANARIES = [
    dict(name="split windows overlap", module=CLI + "task_split",
         qualname="split",
         old="ds.filter.manual[ii*split_events:(ii+1)*split_events] = True",
         new="ds.filter.manual[ii*split_events:(ii+1)*split_events+1] = True"),
    dict(name="split forgets the remainder", module=CLI + "task_split",
         qualname="split", old="if len(ds) % split_events:",
         new="if len(ds) % split_events > 1:"),
    dict(name="join: time offset sign", module=CLI + "task_join",
         qualname="join", old='fdata = dsi["time"] + ti',
         new='fdata = dsi["time"] - ti'),
]
